"""C03 Straight-beamline geometry equals its Euclidean definition; 2theta is stable."""

from __future__ import annotations

import copy
import enum
import pickle

import numpy as np
import scipp as sc

from rv.oracle import geom, si
from rv.snap import describe
from rv.trace import Tracer

ID = 'C03'
LEVEL = 'exploration'
RULE = (
    'cases = one call of a geometry kernel or data-array accessor on 1..64 generated '
    '(source, sample, detector) triples / beam pairs: norms log-uniform 1e-6..1e6 in a random '
    'length unit, forced angle classes {0, 1e-12, 1e-9, 1e-6, pi/2+-1e-12, pi-1e-9, pi-1e-12, pi}, '
    'plus the invariance family (swap, 2^k and arbitrary rescale, SO(3) rotation, translation); plus, in every '
    'shard, data that carries its own L1 / L2 / Ltotal (effective, calibrated, other unit, float32 / integer) or '
    'the beams instead of the positions, two_theta through every public route, and per-pixel beams / positions '
    'that are nearly uniform (spread 0, 1e-12..1e-9 relative; noise, drift, one odd pixel; either or both beams; '
    'beam norms 1e-6..1e5; 1-d and 2-d layouts); every calling convention the signatures allow (positional / '
    'keyword / mixed / reversed keywords for the accessors and graph factories, keyword order for the kernels), '
    'scatter flag as bool / numpy bool / int / numpy int / IntEnum, per-pixel dims named like graph nodes and '
    'internal dims, containers with masks (pixel, bin, event level), variances, subclasses; every kernel as a '
    'node of a caller-made transform_coords graph; lengths with variances; second use of the same data with '
    'repr / copy / comparison / caught exceptions / fed-back results / customised graphs in between; 0..2^17+3 '
    'beam vectors around powers of two, and one heavy case per run beyond 2^20 vectors (2^20+7, 2^21+5, '
    '3 x 400001) judged element-wise; in every shard also: single (0-d) beams / positions and pixels with a component '
    'of 1e-160..1e-300 or subnormal next to ordinary ones; call - in-place write into an operand (+=, *=, numpy write, '
    'slice, .fields component, unit) - call on the same objects - in-place write into every result - call, for the '
    'accessors and every kernel with the sample / the source exactly at the origin (0-d, -0.0, per pixel) or nowhere '
    'special (earlier results, arguments and repeated results must be independent); operand shapes made of 2 / 3 / 4 '
    '(3 x 3, transposed, one-dim incident); dim names that are not NFC / NFKC, coordinates under names that merely '
    'normalise to beamline names; one entry-point module per shard 1..3 called first in a fresh interpreter; '
    'non-trivial unless a single axis-aligned pair; distinct = (function, unit, shape class, '
    'angle class, norm decade) signatures'
)
ASSUMPTIONS = [
    'Kahan angle formula in long double is exact to ~1e-19 rad (cross-checked with mpmath per run)',
    'vector3 subtraction in scipp is the IEEE float64 subtraction per component',
]
TOL_ANGLE = 1e-14  # property: "about 1e-15 rad"; an arccos of the dot product loses ~1e-8
EPS = si.EPS64
LEN_UNITS = ['mm', 'cm', 'm', 'km', 'angstrom']
ANGLE_CLASSES = ['0', '1e-12', '1e-9', '1e-6', 'pi/2', 'pi-1e-9', 'pi-1e-12', 'pi', 'random', 'axis']


# ------------------------------------------------------------- monitors ---
def _vals(v):
    return np.asarray(v.values)


def _bc(v, res):
    """Vector operand broadcast to the dims of the result -> (..., 3) values."""
    if v.dims != res.dims:
        v = sc.broadcast(v, dims=res.dims, shape=res.shape)
    return np.asarray(v.values)


class Monitors:
    def __init__(self, ctx):
        self.ctx = ctx
        self.origin = 'direct'
        self.allowed_exc = ()   # exception types the driver expects from the call in flight (counted refusals)
        self.seen = {}          # kernel name -> (result object of the last judged return, decided ok)

    def _case(self, name, ev):
        return {'function': name, 'origin': self.origin,
                'args': {k: describe(v) for k, v in ev.args.items()}}

    def _raised(self, name, ev):
        if ev.exc is not None and self.allowed_exc and isinstance(ev.exc, self.allowed_exc):
            self.ctx.count(f'refusal seen inside {name}: {type(ev.exc).__name__}')
            return True
        if ev.exc is not None:
            self.ctx.violation('kernel_raised', f'{name} raised {type(ev.exc).__name__}: {ev.exc}',
                               self._case(name, ev), function=name)
            return True
        return False

    def norm_of(self, name, argname):
        def h(ev):
            if self._raised(name, ev):
                return
            if self.origin == 'heavy' and ev.depth > 0:
                # the norms two_theta takes internally: judged at depth 0 (direct / accessor calls) in the heavy case
                self.ctx.count('heavy case: norm taken inside two_theta not judged again')
                return
            try:
                v = ev.args[argname]
                want = geom.norm_blocks(_vals(v))
                got = _vals(ev.result).astype(si.LD)
                err = si.relerr(got, want)
                worst = float(np.max(err)) if err.size else 0.0
                unit_ok = ev.result.unit == v.unit and ev.result.dims == v.dims
            except Exception:  # noqa: BLE001
                self.ctx.oracle_error(name)
                return
            self.ctx.event(name)
            self.ctx.dev(f'relerr.{name}', worst)
            if not unit_ok:
                self.ctx.violation('wrong_unit_or_dims', f'{name}: {ev.result.unit} {ev.result.dims}',
                                   self._case(name, ev), function=name)
            elif worst > 4 * EPS:
                self.ctx.violation('norm', f'{name}: relative error {worst:.3g} > 4 eps',
                                   self._case(name, ev), function=name)
        return h

    def difference(self, name, minuend, subtrahend):
        def h(ev):
            if self._raised(name, ev):
                return
            try:
                a, b = ev.args[minuend], ev.args[subtrahend]
                res = ev.result
                want = _bc(a, res) - _bc(b, res)  # IEEE float64 subtraction: exact model
                got = _vals(res)
                same = np.array_equal(want.view(np.int64), got.view(np.int64)) or np.array_equal(want, got)
                unit_ok = res.unit == a.unit
            except Exception:  # noqa: BLE001
                self.ctx.oracle_error(name)
                return
            self.ctx.event(name)
            if not unit_ok:
                self.ctx.violation('wrong_unit_or_dims', f'{name}: unit {res.unit}',
                                   self._case(name, ev), function=name)
            elif not same:
                self.ctx.violation('difference', f'{name}: result is not {minuend} - {subtrahend}',
                                   self._case(name, ev), function=name)
        return h

    def total_scatter(self, ev):
        name = 'total_beam_length'
        if self._raised(name, ev):
            return
        try:
            l1, l2 = ev.args['L1'], ev.args['L2']
            res = ev.result
            f1 = si.factor(l1.unit) / si.factor(res.unit)
            f2 = si.factor(l2.unit) / si.factor(res.unit)
            a = np.asarray(sc.broadcast(l1, dims=res.dims, shape=res.shape).values).astype(si.LD) * f1
            b = np.asarray(sc.broadcast(l2, dims=res.dims, shape=res.shape).values).astype(si.LD) * f2
            want = a + b
            got = _vals(res).astype(si.LD)
            f32 = res.dtype == sc.DType.float32
            tol = (si.EPS32 if f32 else EPS) * 2
            err = si.relerr(got, want)
            worst = float(np.max(err)) if err.size else 0.0
        except Exception:  # noqa: BLE001
            self.ctx.oracle_error(name)
            return
        self.ctx.event(name)
        self.ctx.dev('relerr.total_beam_length' + ('.f32' if f32 else ''), worst)
        if worst > tol:
            self.ctx.violation('ltotal', f'total_beam_length: L1+L2 off by {worst:.3g}',
                               self._case(name, ev), function=name)
            return
        # first-order propagation of a sum of independent operands: the variances add (an operand without
        # variances contributes none); scipp defines exactly this for `+`
        if l1.variances is not None or l2.variances is not None:
            try:
                def var(x, f):
                    if x.variances is None:
                        return np.zeros(res.shape, dtype=si.LD)
                    return np.broadcast_to(np.asarray(x.variances).astype(si.LD) * f * f, res.shape)
                wantv = var(l1, f1) + var(l2, f2)
                gotv = None if res.variances is None else np.asarray(res.variances).astype(si.LD)
                dv = np.inf if gotv is None else (float(np.max(si.relerr(gotv, wantv))) if wantv.size else 0.0)
            except Exception:  # noqa: BLE001
                self.ctx.oracle_error(name + '.variances')
                return
            self.ctx.event('total_beam_length.variances')
            self.ctx.dev('relerr.total_beam_length.variances', dv if np.isfinite(dv) else 1.0)
            if not dv <= 4 * (si.EPS32 if f32 else EPS):
                self.ctx.violation('ltotal_variances', 'total_beam_length: variances of L1+L2 are not var(L1)+var(L2) '
                                   f'(relative deviation {dv:.3g})', self._case(name, ev), function=name)

    def total_no_scatter(self, ev):
        name = 'total_straight_beam_length_no_scatter'
        if self._raised(name, ev):
            return
        try:
            s, p = ev.args['source_position'], ev.args['position']
            res = ev.result
            d = _bc(p, res) - _bc(s, res)
            want = geom.norm_blocks(d)
            err = si.relerr(_vals(res).astype(si.LD), want)
            worst = float(np.max(err)) if err.size else 0.0
        except Exception:  # noqa: BLE001
            self.ctx.oracle_error(name)
            return
        self.ctx.event(name)
        self.ctx.dev('relerr.' + name, worst)
        if res.unit != p.unit:
            self.ctx.violation('wrong_unit_or_dims', f'{name}: unit {res.unit}', self._case(name, ev),
                               function=name)
        elif worst > 4 * EPS:
            self.ctx.violation('ltotal', f'{name}: |position - source| off by {worst:.3g}',
                               self._case(name, ev), function=name)

    def two_theta(self, ev):
        name = 'two_theta'
        if self._raised(name, ev):
            return
        try:
            b1, b2 = ev.args['incident_beam'], ev.args['scattered_beam']
            res = ev.result
            # NB: the *original* argument objects; the kernel works on normalised copies
            want = geom.angle_blocks(_bc(b1, res), _bc(b2, res))
            got = _vals(res).astype(si.LD)
            err = np.abs(got - want)
            worst = float(np.max(err)) if err.size else 0.0
            lo, hi = (float(np.min(got)), float(np.max(got))) if err.size else (0.0, 0.0)
        except Exception:  # noqa: BLE001
            self.ctx.oracle_error(name)
            return
        self.ctx.event(name)
        self.ctx.dev('abserr.two_theta', worst)
        c = self._case(name, ev)
        self.seen[name] = (res, bool(np.all(np.isfinite(_vals(res))) and lo >= 0 and worst <= TOL_ANGLE))
        if res.unit != sc.Unit('rad') or res.dtype != sc.DType.float64:
            self.ctx.violation('wrong_unit_or_dims', f'two_theta: unit {res.unit} dtype {res.dtype}', c,
                               function=name)
        elif not np.all(np.isfinite(_vals(res))):
            self.ctx.violation('two_theta_nonfinite', 'two_theta: non-finite result', c, function=name)
        elif lo < 0 or hi > float(si.PI) + TOL_ANGLE:
            self.ctx.violation('two_theta_range', f'two_theta outside [0, pi]: [{lo!r}, {hi!r}]', c,
                               function=name)
        elif worst > TOL_ANGLE:
            i = int(np.argmax(err))
            c['worst'] = {'got': repr(np.ravel(got)[i]), 'exact': repr(np.ravel(want)[i]), 'abserr': worst,
                          'flat_index': i, 'of': int(err.size), 'n_beyond_tolerance': int(np.sum(err > TOL_ANGLE))}
            self.ctx.violation('two_theta_accuracy',
                               f'two_theta: absolute error {worst:.3g} rad > {TOL_ANGLE:g}', c,
                               function=name)


# ------------------------------------------------------------ generators ---
def gen_pairs(rng, n, ctx, cls=None, a=None):
    """n beam pairs (float64, in arbitrary length units) with forced angle classes.

    With ``a`` given (n, 3) the first beams are taken as they are (class 'axis' then only affects the second beam).
    """
    given = a is not None
    a = np.array(a, dtype=np.float64) if given else geom.random_unit(rng, n) * (10.0 ** rng.uniform(-6, 6, size=(n, 1)))
    classes = rng.integers(0, len(ANGLE_CLASSES), size=n) if cls is None else np.full(n, cls)
    perp = geom.perpendicular_unit(rng, a)
    ang = np.empty(n, dtype=si.LD)
    for i, c in enumerate(classes):
        name = ANGLE_CLASSES[c]
        if name == '0':
            ang[i] = 0
        elif name == 'pi':
            ang[i] = si.PI
        elif name == 'pi/2':
            ang[i] = si.PI / 2 + si.LD(rng.uniform(-1e-12, 1e-12))
        elif name.startswith('pi-'):
            ang[i] = si.PI - si.LD(float(name[3:])) * si.LD(rng.uniform(0.5, 1.0))
        elif name in ('random', 'axis'):
            ang[i] = si.LD(rng.uniform(0, np.pi))
        else:
            ang[i] = si.LD(float(name)) * si.LD(rng.uniform(0.5, 1.0))
        ctx.hit('angle:' + name)
    # 'axis': the incident beam lies exactly along a coordinate axis (either sign, exact zeros), as in the
    # usual lab frames; the scattered beam is generic or axis-aligned too
    for i, c in enumerate(classes):
        if ANGLE_CLASSES[c] == 'axis' and not given:
            e = np.zeros(3)
            e[rng.integers(0, 3)] = 1.0 if rng.random() < 0.5 else -1.0
            a[i] = e * float(np.linalg.norm(a[i]))
    perp = np.where((np.array([ANGLE_CLASSES[c] for c in classes]) == 'axis')[:, None],
                    geom.perpendicular_unit(rng, a), perp)
    b_dir = geom.rotate_towards(a, perp, ang)
    bn = 10.0 ** rng.uniform(-6, 6, size=(n, 1))
    b = (b_dir * bn).astype(np.float64)
    for i, c in enumerate(classes):
        if ANGLE_CLASSES[c] == '0':  # exactly parallel / antiparallel
            b[i] = a[i] * 2.0 ** int(rng.integers(-8, 9))
        elif ANGLE_CLASSES[c] == 'pi':
            b[i] = -a[i] * 2.0 ** int(rng.integers(-8, 9))
        elif ANGLE_CLASSES[c] == 'axis' and rng.random() < 0.3:
            e = np.zeros(3)
            e[rng.integers(0, 3)] = 1.0 if rng.random() < 0.5 else -1.0
            b[i] = e * float(np.linalg.norm(b[i]))
    return a, b, [ANGLE_CLASSES[c] for c in classes]


def vec(values, unit, dims=('pixel',)):
    values = np.asarray(values, dtype=np.float64)
    if values.ndim == 1:
        return sc.vector(values, unit=unit)
    return sc.vectors(dims=list(dims), values=values, unit=unit)


def invariance_family(rng, ctx, K, a, b, classes):
    """two_theta on transformed copies of the same pairs; compares observed values."""
    n = len(a)
    u1, u2 = LEN_UNITS[rng.integers(0, 5)], LEN_UNITS[rng.integers(0, 5)]

    def tt(x, y):
        return np.asarray(K.two_theta(incident_beam=vec(x, u1), scattered_beam=vec(y, u2)).values)

    base = tt(a, b)
    case = {'family': 'invariance', 'n': n, 'classes': sorted(set(classes)),
            'a0': [float(x).hex() for x in a[0]], 'b0': [float(x).hex() for x in b[0]]}

    def cmp(name, other, tol):
        d = np.abs(other.astype(si.LD) - base.astype(si.LD))
        worst = float(np.max(d / tol))
        ctx.dev('invariance.' + name + ' (fraction of bound)', worst)
        ctx.event('invariance.' + name)
        if worst > 1:
            i = int(np.argmax(d / tol))
            ctx.violation('invariance', f'two_theta changes under {name}: {float(d[i]):.3g} rad '
                          f'(bound {float(np.ravel(tol)[i] if np.ndim(tol) else tol):.3g})',
                          dict(case, transform=name, index=i, cls=classes[i]), transform=name)

    two = 2 * TOL_ANGLE
    cmp('swap', tt(b, a) if u1 == u2 else np.asarray(
        K.two_theta(incident_beam=vec(b, u2), scattered_beam=vec(a, u1)).values), two)
    k1, k2 = 2.0 ** int(rng.integers(-20, 21)), 2.0 ** int(rng.integers(-20, 21))
    cmp('rescale by 2^k', tt(a * k1, b * k2), two)
    s1, s2 = rng.uniform(0.1, 10, size=(n, 1)), rng.uniform(0.1, 10, size=(n, 1))
    cmp('rescale arbitrary', tt(a * s1, b * s2), two + 8 * EPS)
    R = geom.random_rotation(rng)
    ra = (geom.v3(a) @ R.T).astype(np.float64)
    rb = (geom.v3(b) @ R.T).astype(np.float64)
    cmp('rotation', tt(ra, rb), two + 16 * EPS)
    return ('invariance', u1, u2, tuple(sorted(set(classes))))


CONTAINERS = ('dataarray', 'dataarray', 'dataarray_2d', 'dataarray_binned', 'dataarray_int', 'dataset_1', 'dataset_3',
              'dataset_no_items', 'dataarray_masked', 'dataarray_binned_masked', 'dataarray_variances',
              'dataarray_subclass', 'dataset_masked_items')
# names the caller may give the per-pixel dimension: the usual one, names scipp / scippneutron use themselves for
# dims or coordinates (graph nodes, event buffers, table rows, default names), and an arbitrary unique string
DIM_NAMES = ('pixel', 'x', 'event', 'row', 'position', 'scattered_beam', 'two_theta', 'L1', 'Ltotal', 'tof', 'dim_0',
             'detector_number', '3f2b9c1e-77aa-4d0e-9b1f-0c5d6e7f8a9b',
             # names that are not in NFC / NFKC form: decomposed accent, ANGSTROM SIGN, fullwidth letters, ligature,
             # conjoining jamo, GREEK QUESTION MARK, MICRO SIGN -- kept code point by code point
             'de\u0301tecteur', '\u212b', '\uff50\uff49\uff58\uff45\uff4c', '\ufb01bre', '\u1100\u1161', 'x\u037e',
             '\u00b5m')
GRAPH_NAMES = ('position', 'source_position', 'sample_position', 'incident_beam', 'scattered_beam', 'L1', 'L2',
               'Ltotal', 'two_theta')


class _SubDataArray(sc.DataArray):
    """A caller's subclass of DataArray (adds bookkeeping, delegates the computation)."""

    def transform_coords(self, *args, **kwargs):
        self.n_transform_calls = getattr(self, 'n_transform_calls', 0) + 1
        return super().transform_coords(*args, **kwargs)


def _binned(n, dim, masked):
    sizes = np.arange(n) % 3
    end = np.cumsum(sizes)
    ev = 'event' if dim != 'event' else 'obs'
    m = int(sizes.sum())
    buf = sc.DataArray(sc.ones(dims=[ev], shape=[m], unit='counts'),
                       coords={'tof': sc.arange(ev, float(m), unit='us')})
    if masked:  # event-level mask
        buf.masks['bad_event'] = sc.array(dims=[ev], values=np.arange(m) % 2 == 0)
    return sc.bins(begin=sc.array(dims=[dim], values=end - sizes, unit=None, dtype='int64'),
                   end=sc.array(dims=[dim], values=end, unit=None, dtype='int64'), dim=ev, data=buf)


def make_container(kind, coords, n, dim='pixel'):
    """Every kind of object that carries beamline coordinates: the accessors depend on the coordinates only."""
    outer = 'tof' if dim != 'tof' else 'frame'
    if kind == 'dataarray':
        return sc.DataArray(sc.ones(dims=[dim], shape=[n]), coords=coords)
    if kind == 'dataarray_2d':
        return sc.DataArray(sc.ones(dims=[outer, dim], shape=[2, n]), coords=coords)
    if kind == 'dataarray_int':
        return sc.DataArray(sc.arange(dim, n, unit='counts'), coords=coords)
    if kind == 'dataarray_variances':
        return sc.DataArray(sc.ones(dims=[dim], shape=[n], dtype='float32', with_variances=True, unit='counts'),
                            coords=coords)
    if kind == 'dataarray_subclass':
        return _SubDataArray(sc.ones(dims=[dim], shape=[n]), coords=coords)
    if kind == 'dataarray_masked':  # per-pixel masks (one of them masking everything) and a mask of the outer dim
        return sc.DataArray(sc.ones(dims=[outer, dim], shape=[2, n]), coords=coords,
                            masks={'odd': sc.array(dims=[dim], values=np.arange(n) % 2 == 1),
                                   'all': sc.ones(dims=[dim], shape=[n], dtype=bool),
                                   'frame': sc.array(dims=[outer], values=[True, False])})
    if kind == 'dataarray_binned':
        return sc.DataArray(_binned(n, dim, False), coords=coords)
    if kind == 'dataarray_binned_masked':  # bin-level and event-level masks
        return sc.DataArray(_binned(n, dim, True), coords=coords,
                            masks={'bad_bin': sc.array(dims=[dim], values=np.arange(n) % 3 == 0)})
    if kind == 'dataset_1':
        return sc.Dataset({'a': sc.ones(dims=[dim], shape=[n])}, coords=coords)
    if kind == 'dataset_3':
        return sc.Dataset({'a': sc.ones(dims=[dim], shape=[n]), 'b': sc.arange(dim, n),
                           'c': sc.zeros(dims=[dim], shape=[n], dtype='float32', with_variances=True)},
                          coords=coords)
    if kind == 'dataset_masked_items':
        a = sc.DataArray(sc.ones(dims=[dim], shape=[n]), coords=coords,
                         masks={'m': sc.array(dims=[dim], values=np.arange(n) % 2 == 0)})
        b = sc.DataArray(sc.zeros(dims=[dim], shape=[n]), coords=coords)
        return sc.Dataset({'a': a, 'b': b})
    if kind == 'dataset_no_items':
        return sc.Dataset(coords=coords)
    raise ValueError(kind)


class FlagEnum(enum.IntEnum):
    """The scatter flag as a member of a caller's integer enumeration."""
    NO = 0
    YES = 1


# the scatter flag is a truth value: callers also pass numpy booleans (np.any(...), HDF5 attributes), 0/1 as Python
# or numpy integers, members of an IntEnum
FLAG_FORMS = (bool, np.bool_, int, np.int64, FlagEnum)
# every way the documented signatures allow a call to be written: accessor(da), Ltotal(da, scatter),
# graph.beamline.Ltotal(scatter) / beamline(scatter) are positional-or-keyword; the kernels are keyword-only
CONVENTIONS = ('positional', 'keyword', 'mixed', 'keyword, reversed order')


def call_accessor(scn, name, da, conv, *flag):
    f = getattr(scn, name)
    if not flag:
        return f(da) if conv in ('positional', 'mixed') else f(da=da)
    if conv == 'positional':
        return f(da, flag[0])
    if conv == 'mixed':
        return f(da, scatter=flag[0])
    if conv == 'keyword':
        return f(da=da, scatter=flag[0])
    return f(scatter=flag[0], da=da)


def call_factory(GB, name, conv, *flag):
    f = getattr(GB, name)
    if not flag:
        return f()
    return f(flag[0]) if conv in ('positional', 'mixed') else f(scatter=flag[0])


def kcall(f, reverse=False, **kw):
    """A keyword-only kernel with its arguments in documented or reversed order (or from a mapping)."""
    if reverse:
        return f(**dict(reversed(list(kw.items()))))
    return f(**kw)


def positions_case(rng, ctx, scn, K, mon, forced=None, flag_form=None, conv='mixed', dim='pixel'):
    """Accessors on data arrays / datasets, incl. translation invariance."""
    n = int(rng.integers(1, 33))
    unit = LEN_UNITS[rng.integers(0, 5)]
    a, b, classes = gen_pairs(rng, n, ctx)
    # common sample at a random place; source = sample - a0 ; detectors = sample + b_i
    a0 = a[0]
    sample = rng.normal(size=3) * 10.0 ** rng.uniform(-3, 3)
    if rng.random() < 0.3:
        sample = np.zeros(3)
        e = np.zeros(3)
        e[rng.integers(0, 3)] = 1.0 if rng.random() < 0.5 else -1.0
        a0 = e * float(np.linalg.norm(a0))
        ctx.hit('axis-aligned beamline, sample at origin')
    source = sample - a0
    pos = sample[None, :] + b
    # what the code will see are the rounded positions: recompute beams from them
    inc = sample - source
    sca = pos - sample[None, :]
    container = CONTAINERS[int(rng.integers(0, len(CONTAINERS)))] if forced is None else forced
    ctx.hit('accessor container ' + container)

    ctx.hit('accessor calling convention: ' + conv)
    ctx.hit('per-pixel dim named ' + repr(dim))

    def build(shift):
        coords = {'source_position': vec(source + shift, unit), 'sample_position': vec(sample + shift, unit),
                  'position': vec(pos + shift[None, :], unit, dims=(dim,))}
        return make_container(container, coords, n, dim)

    da = build(np.zeros(3))
    case = {'family': 'accessors', 'container': container, 'unit': unit, 'n': n, 'convention': conv, 'dim': dim,
            'source': [float(x).hex() for x in source], 'sample': [float(x).hex() for x in sample],
            'position0': [float(x).hex() for x in pos[0]]}
    mon.origin = 'accessor'
    form = FLAG_FORMS[int(rng.integers(0, len(FLAG_FORMS)))] if flag_form is None else flag_form
    ctx.hit('scatter flag given as ' + form.__name__)
    case['scatter_flag_type'] = form.__name__
    got = {}
    for k in ('L1', 'L2', 'two_theta', 'Ltotal_scatter', 'Ltotal_noscatter', 'incident_beam', 'scattered_beam'):
        try:
            got[k] = (call_accessor(scn, 'Ltotal', da, conv, form(k == 'Ltotal_scatter')) if k.startswith('Ltotal')
                      else call_accessor(scn, k, da, conv))
        except Exception as e:  # noqa: BLE001
            mon.origin = 'direct'
            ctx.violation('accessor_raised', f'scippneutron.{k.split("_")[0] if k.startswith("Ltotal") else k} called '
                          f'in the {conv} convention (flag as {form.__name__}) on a {container} with per-pixel dim '
                          f'{dim!r} raised {type(e).__name__}: {e}', dict(case, accessor=k), container=container)
            return ('accessors', container, unit, conv, 'raised')
        ctx.event('accessor call: ' + conv)
    # the single-purpose graph factories are a second public route to the same coordinates
    from scippneutron.conversion.graph import beamline as GB
    renamable = dim in GRAPH_NAMES  # transform_coords renames a dim after the coordinate it turns into
    for k, fac in (('L1', lambda: call_factory(GB, 'L1', conv)), ('L2', lambda: call_factory(GB, 'L2', conv)),
                   ('two_theta', lambda: call_factory(GB, 'two_theta', conv)),
                   ('incident_beam', lambda: call_factory(GB, 'incident_beam', conv)),
                   ('scattered_beam', lambda: call_factory(GB, 'scattered_beam', conv)),
                   ('Ltotal_scatter', lambda: call_factory(GB, 'Ltotal', conv, form(True))),
                   ('Ltotal_noscatter', lambda: call_factory(GB, 'Ltotal', conv, form(False))),
                   ('beamline_scatter', lambda: call_factory(GB, 'beamline', conv, form(True))),
                   ('beamline_noscatter', lambda: call_factory(GB, 'beamline', conv, form(False)))):
        name = 'Ltotal' if k.startswith(('Ltotal', 'beamline')) else k
        ref = got['Ltotal_' + k.split('_')[1]] if k.startswith('beamline') else got[k]
        try:
            r = da.transform_coords(name, graph=fac(), rename_dims=not renamable).coords[name]
        except Exception as e:  # noqa: BLE001
            ctx.violation('graph_factory_raised', f'transform_coords({name!r}, graph=graph.beamline.{k}()) on a '
                          f'{container} ({conv} convention, dim {dim!r}) raised {type(e).__name__}: {e}',
                          dict(case, factory=k), factory=k)
            continue
        ctx.event('graph_factory.' + k)
        if r.unit != ref.unit or r.dims != ref.dims or not np.array_equal(
                np.asarray(r.values), np.asarray(ref.values), equal_nan=True):
            ctx.violation('graph_factory', f'graph.beamline.{k}() gives a different {name} than the accessor / the '
                          'full beamline graph for the same positions', dict(case, factory=k), factory=k)
    for nm_, ref_ in (('position', pos), ('source_position', source), ('sample_position', sample)):
        g_ = call_accessor(scn, nm_, da, conv)
        ctx.event('accessor.' + nm_)
        if g_.unit != sc.Unit(unit) or not np.array_equal(np.broadcast_to(np.asarray(g_.values), np.shape(ref_)), ref_):
            ctx.violation('accessor', f'scippneutron.{nm_} does not return the supplied {nm_}',
                          dict(case, accessor=nm_), accessor=nm_)
    mon.origin = 'direct'
    want = {
        'L1': geom.norm(inc), 'L2': geom.norm(sca), 'two_theta': geom.angle(np.broadcast_to(inc, sca.shape), sca),
        'Ltotal_scatter': geom.norm(inc).astype(np.float64).astype(si.LD) + geom.norm(sca).astype(np.float64).astype(si.LD),
        'Ltotal_noscatter': geom.norm(pos - source[None, :]),
    }
    for k, w in want.items():
        g = np.asarray(got[k].values).astype(si.LD)
        if k == 'two_theta':
            d = float(np.max(np.abs(g - w)))
            bad = d > TOL_ANGLE
            if got[k].unit != sc.Unit('rad'):
                bad = True
        else:
            d = float(np.max(si.relerr(np.broadcast_to(g, np.shape(w)), w)))
            bad = d > 8 * EPS or got[k].unit != sc.Unit(unit)
        ctx.event('accessor.' + k)
        ctx.dev('accessor.' + k, d)
        if bad:
            ctx.violation('accessor', f'scippneutron.{k} on a {container}: deviation {d:.3g} or wrong unit '
                          f'({got[k].unit})', dict(case, accessor=k), accessor=k)
    for k, w in (('incident_beam', inc), ('scattered_beam', sca)):
        g = np.asarray(got[k].values)
        ctx.event('accessor.' + k)
        if not np.array_equal(np.broadcast_to(g, w.shape), w) or got[k].unit != sc.Unit(unit):
            ctx.violation('accessor', f'scippneutron.{k} is not the difference of the positions',
                          dict(case, accessor=k), accessor=k)
    # translation of the whole beamline
    T = rng.normal(size=3) * 10.0 ** rng.uniform(-3, 4)
    mon.origin = 'accessor'
    moved = np.asarray(scn.two_theta(build(T)).values).astype(si.LD)
    mon.origin = 'direct'
    base = np.asarray(got['two_theta'].values).astype(si.LD)
    minbeam = np.minimum(np.linalg.norm(inc), np.linalg.norm(sca, axis=1))
    scale = np.linalg.norm(T) + np.linalg.norm(sample) + np.linalg.norm(pos, axis=1)
    tol = 2 * TOL_ANGLE + 8 * EPS * scale / minbeam
    d = np.abs(moved - base)
    ctx.event('invariance.translation')
    ctx.dev('invariance.translation (fraction of bound)', float(np.max(d / tol)))
    if np.any(d > tol):
        i = int(np.argmax(d / tol))
        ctx.violation('invariance', f'two_theta changes under translation: {float(d[i]):.3g} rad '
                      f'(bound {float(tol[i]):.3g})', dict(case, T=[float(x) for x in T], index=i),
                      transform='translation')
    for k, r in got.items():  # per-pixel results keep the caller's dimension, whatever its name
        per_pixel = k in ('L2', 'two_theta', 'Ltotal_scatter', 'Ltotal_noscatter', 'scattered_beam')
        if r.dims != ((dim,) if per_pixel else ()):
            ctx.violation('accessor', f'scippneutron.{k} on data with per-pixel dim {dim!r} has dims {r.dims}',
                          dict(case, accessor=k), accessor=k)
    return ('accessors', container, unit, conv, tuple(sorted(set(classes))))


def direct_case(rng, ctx, K, i=0):
    n = int(rng.integers(1, 65))
    scalar = rng.random() < 0.2
    a, b, classes = gen_pairs(rng, 1 if scalar else n, ctx)
    u1, u2 = LEN_UNITS[rng.integers(0, 5)], LEN_UNITS[rng.integers(0, 5)]
    fn = rng.integers(0, 6)
    # the name of the per-pixel dimension is the caller's; the keyword-only kernels take their arguments in any order
    dim = DIM_NAMES[(i // 2) % len(DIM_NAMES)]
    rev = i % 2 == 1
    ctx.hit('kernel keywords in ' + ('reversed' if rev else 'documented') + ' order')
    if not scalar:
        ctx.hit('kernel operands along a dim named ' + repr(dim))

    def V(x, u):
        return vec(x, u, dims=(dim,))

    if scalar:
        va, vb = V(a[0], u1), V(b[0], u2)
    else:
        va = V(a[0], u1) if rng.random() < 0.5 else V(a, u1)  # common incident beam or per pixel
        vb = V(b, u2)
    if not scalar and rng.random() < 0.2:
        # per-pixel incident beam with one common scattered beam (symmetry in the two beams includes shapes)
        va, vb = V(a, u1), V(b[0], u2)
        ctx.hit('per-pixel incident, scalar scattered')
    if not scalar and rng.random() < 0.15:
        # the two beams vary along *different* dimensions (several sources x several detectors); dimension
        # names in either alphabetical order
        d1, d2 = (('run', 'spectrum') if rng.random() < 0.5 else ('spectrum', 'run'))
        k = int(rng.integers(2, 5))
        va = sc.vectors(dims=[d1], values=a[:k] if len(a) >= k else np.resize(a, (k, 3)), unit=u1)
        vb = sc.vectors(dims=[d2], values=b, unit=u2)
        ctx.hit('beams along different dimensions')
    shape = 'scalar' if scalar else ('disjoint_dims' if va.ndim and vb.ndim and va.dims != vb.dims else
                                     'per_pixel' if va.ndim and vb.ndim else
                                     'scalar_incident' if vb.ndim else 'scalar_scattered')
    if fn == 0:
        kcall(K.two_theta, rev, incident_beam=va, scattered_beam=vb)
        name = 'two_theta'
    elif fn == 1:
        K.L1(incident_beam=va)
        K.L2(scattered_beam=vb)
        name = 'L1L2'
    elif fn == 2:
        if vb.ndim == 0:
            vb = V(b, u2)
        kcall(K.straight_incident_beam, rev, source_position=va,
              sample_position=V(b[0] if va.ndim == 0 else b, u1))
        kcall(K.straight_scattered_beam, rev, position=vb, sample_position=V(a[0], u2))
        name = 'beams'
    elif fn == 3:
        kcall(K.total_straight_beam_length_no_scatter, rev, source_position=va,
              position=V(b, u1) if not scalar else V(b[0], u1))
        name = 'Ltotal_noscatter'
    else:
        f32 = rng.random() < 0.4
        dt = 'float32' if f32 else 'float64'
        l1 = sc.array(dims=[dim], values=np.linalg.norm(a, axis=1), unit=u1, dtype=dt)
        l2 = sc.array(dims=[dim], values=np.linalg.norm(b, axis=1), unit=u1,
                      dtype='float64' if rng.random() < 0.3 else dt)
        if scalar:
            l1, l2 = l1[dim, 0], l2[dim, 0]
        kcall(K.total_beam_length, rev, L1=l1, L2=l2)
        name = 'Ltotal_scatter:' + dt
    dec = int(np.floor(np.log10(np.linalg.norm(a[0])) / 3))
    trivial = scalar and u1 == 'm' and u2 == 'm' and classes[0] == 'random' and name == 'two_theta'
    return (name, u1, u2, shape, tuple(sorted(set(classes))), dec), trivial


# ------------------------------------------- supplied L1 / L2 / Ltotal coordinates ---
# Data that carries its own flight-path lengths next to the positions (or next to the beams): the lengths are
# whatever the instrument definition says (effective, calibrated, another unit); the scattering angle is defined
# by the two beams alone.
SUPPLIED_FORMS = ('effective L1', 'calibrated per-pixel L2', 'L1 in another length unit',
                  'L2 in another length unit', 'L1 and L2', 'Ltotal', 'L1, L2 and Ltotal',
                  'beams instead of positions', 'beams and lengths instead of positions')
LENGTH_DTYPES = ('float64', 'float32', 'int64')
TWO_THETA_ROUTES = ('scn.two_theta', 'scn.convert', 'graph.beamline.beamline(scatter=True)',
                    'graph.beamline.two_theta()', 'scn.conversion_graph(tof->dspacing)')


def _other_unit(rng, unit):
    return [u for u in LEN_UNITS if u != unit][int(rng.integers(0, len(LEN_UNITS) - 1))]


def _length(rng, values, unit, dtype, per_pixel):
    """A length coordinate holding ``values`` (float64 numbers) in ``unit`` as ``dtype``."""
    values = np.asarray(values, dtype=np.float64)
    if dtype == 'int64':
        values = np.ceil(values) + rng.integers(0, 3, size=values.shape)
    if per_pixel:
        return sc.array(dims=['pixel'], values=np.broadcast_to(values, per_pixel).copy(), unit=unit, dtype=dtype)
    return sc.scalar(values.item() if values.ndim == 0 else values.flat[0], unit=unit, dtype=dtype)


def _two_theta_routes(scn, da):
    from scippneutron.conversion.graph import beamline as GB

    return {
        'scn.two_theta': lambda: scn.two_theta(da),
        'scn.convert': lambda: scn.convert(da, 'tof', 'two_theta', scatter=True).coords['two_theta'],
        'graph.beamline.beamline(scatter=True)': lambda: da.transform_coords(
            'two_theta', graph=GB.beamline(scatter=True)).coords['two_theta'],
        'graph.beamline.two_theta()': lambda: da.transform_coords(
            'two_theta', graph=GB.two_theta()).coords['two_theta'],
        'scn.conversion_graph(tof->dspacing)': lambda: da.transform_coords(
            'two_theta', graph=scn.conversion_graph('tof', 'dspacing', scatter=True, energy_mode='elastic')
        ).coords['two_theta'],
    }


def _judge_two_theta_routes(ctx, scn, da, want, case, evname, **keys):
    """two_theta of a container through every public route against the exact angle of the float64 beams."""
    for route, f in _two_theta_routes(scn, da).items():
        try:
            r = f()
        except Exception as e:  # noqa: BLE001
            ctx.violation('two_theta_route_raised', f'{route} raised {type(e).__name__}: {e} ({case["family"]})',
                          dict(case, route=route), route=route, **keys)
            continue
        try:
            g = np.asarray(r.values).astype(si.LD)
            err = np.abs(np.broadcast_to(g, np.shape(want)) - want) if np.ndim(g) <= np.ndim(want) else np.array(
                [np.inf])
            d = float(np.max(err))
            bad_unit = r.unit != sc.Unit('rad')
        except Exception:  # noqa: BLE001
            ctx.oracle_error(evname)
            continue
        ctx.event(evname)
        ctx.event(evname + ':' + route)
        ctx.dev(evname, d)
        if bad_unit or not d <= TOL_ANGLE:
            ctx.violation('two_theta_not_from_beams',
                          f'{route}: two_theta differs from the Euclidean angle of the two beams by {d:.3g} rad '
                          f'(unit {r.unit}); {case["family"]}', dict(case, route=route, abserr=d), route=route, **keys)


def supplied_lengths_case(rng, ctx, scn, mon, form, container, dtype):
    n = int(rng.integers(2, 25))
    unit = LEN_UNITS[rng.integers(0, 5)]
    a, b, classes = gen_pairs(rng, n, ctx)
    sample = rng.normal(size=3) * 10.0 ** rng.uniform(-3, 3) * (rng.random() < 0.7)
    source = sample - a[0]
    pos = sample[None, :] + b
    inc = sample - source
    sca = pos - sample[None, :]
    beams_only = form.startswith('beams')
    if beams_only:
        coords = {'incident_beam': vec(inc, unit), 'scattered_beam': vec(sca, unit)}
    else:
        coords = {'source_position': vec(source, unit), 'sample_position': vec(sample, unit),
                  'position': vec(pos, unit)}
    l1 = float(np.linalg.norm(inc))
    l2 = np.linalg.norm(sca, axis=1)
    supplied = {}
    if form in ('effective L1', 'L1 and L2', 'L1, L2 and Ltotal', 'beams and lengths instead of positions'):
        # a guide makes the flight path longer than the straight distance; a moderator correction may shorten it
        supplied['L1'] = _length(rng, l1 * rng.uniform(0.8, 1.3), unit, dtype, None)
    if form in ('calibrated per-pixel L2', 'L1 and L2', 'L1, L2 and Ltotal', 'beams and lengths instead of positions'):
        supplied['L2'] = _length(rng, l2 * (1 + rng.uniform(-1e-2, 1e-2, size=n)), unit, dtype, (n,))
    if form == 'L1 in another length unit':
        u = _other_unit(rng, unit)
        supplied['L1'] = _length(rng, l1 * float(si.factor(sc.Unit(unit)) / si.factor(sc.Unit(u))), u, 'float64', None)
    if form == 'L2 in another length unit':
        u = _other_unit(rng, unit)
        supplied['L2'] = _length(rng, l2 * float(si.factor(sc.Unit(unit)) / si.factor(sc.Unit(u))), u, 'float64', (n,))
    if form in ('Ltotal', 'L1, L2 and Ltotal'):
        supplied['Ltotal'] = _length(rng, (l1 + l2) * rng.uniform(0.9, 1.2), unit, dtype,
                                     (n,) if rng.random() < 0.7 else None)
    same_unit = all(v.unit == sc.Unit(unit) for v in supplied.values())
    da = make_container(container, {**coords, **supplied}, n)
    ctx.hit('supplied coordinates: ' + form)
    ctx.hit('supplied length dtype ' + dtype)
    case = {'family': 'data with supplied ' + ', '.join(supplied or ['beams']) + ' (' + form + ')', 'form': form,
            'container': container, 'unit': unit, 'n': n,
            'supplied': {k: describe(v) for k, v in supplied.items()},
            'coords': {k: describe(v) for k, v in coords.items()}}
    mon.origin = 'accessor'
    try:
        want_tt = geom.angle(np.broadcast_to(inc, sca.shape), sca)
        _judge_two_theta_routes(ctx, scn, da, want_tt, case, 'supplied_lengths.two_theta', form=form)
        # every coordinate that is NOT supplied keeps its Euclidean definition; a supplied one takes precedence
        # in the unchanged tree and is not judged (the property speaks about positions, not about stored lengths)
        checks = {'incident_beam': ('exact', np.broadcast_to(inc, (3,))), 'scattered_beam': ('exact', sca)}
        if 'L1' not in supplied:
            checks['L1'] = ('rel', geom.norm(inc))
        if 'L2' not in supplied:
            checks['L2'] = ('rel', geom.norm(sca))
        if 'Ltotal' not in supplied and not beams_only:
            checks['Ltotal_noscatter'] = ('rel', geom.norm(pos - source[None, :]))
        if not supplied:
            checks['Ltotal_scatter'] = ('rel', geom.norm(inc).astype(np.float64).astype(si.LD)
                                        + geom.norm(sca).astype(np.float64).astype(si.LD))
        ctx.count('not judged: accessor of a supplied length coordinate', len(supplied))
        if supplied and same_unit and 'Ltotal' not in supplied:
            # L1 + L2 of whatever lengths the data carries: judged by the total_beam_length kernel monitor
            scn.Ltotal(da, scatter=True)
        for k, (how, w) in checks.items():
            try:
                r = (scn.Ltotal(da, scatter=k.endswith('_scatter')) if k.startswith('Ltotal')
                     else getattr(scn, k)(da))
            except Exception as e:  # noqa: BLE001
                ctx.violation('accessor_raised', f'scippneutron.{k} on a {container} with supplied '
                              f'{sorted(supplied)} raised {type(e).__name__}: {e}', dict(case, accessor=k),
                              container=container)
                continue
            g = np.asarray(r.values)
            ctx.event('supplied_lengths.' + k)
            if how == 'exact':
                bad = not np.array_equal(np.broadcast_to(g, np.shape(w)), w)
                d = float(bad)
            else:
                d = float(np.max(si.relerr(np.broadcast_to(g.astype(si.LD), np.shape(w)), w)))
                bad = not d <= 8 * EPS
            if bad or r.unit != sc.Unit(unit):
                ctx.violation('accessor', f'scippneutron.{k} on a {container} that also carries {sorted(supplied)}: '
                              f'deviation {d:.3g} from the Euclidean definition or wrong unit ({r.unit})',
                              dict(case, accessor=k), accessor=k)
    finally:
        mon.origin = 'direct'
    return ('supplied', form, container, unit, dtype, tuple(sorted(set(classes))))


# ------------------------------------------------- nearly uniform per-pixel beams ---
# Per-pixel beams that are almost, but not exactly, the same vector (sample drifting by picometres per scan
# point, source/sample position stored once per pixel with calibration noise): every pixel is judged against
# its OWN beam pair.
SPREADS = ('0', '1e-12', '1e-11', '1e-10', '1e-9')          # |beam_i - beam_0| <= spread * |beam_0|
SPREAD_FORMS = ('noise', 'drift', 'one pixel differs')
UNIFORM_WHICH = ('incident', 'scattered', 'both')
NORM_DECADES = (-6, -5, -3, 0, 3, 5)
NU_LAYOUTS = ('pixel / pixel', '2d / 2d', 'uniform beam along the outer dim only', 'other beam scalar')
NU_POSITIONS = ('per-pixel source_position', 'per-pixel sample_position', 'per-pixel source and sample position')


def nearly_uniform(rng, base, n, spread, form):
    """(n, 3) float64 copies of ``base``, each within spread * |base| of row 0 (= base itself)."""
    base = np.asarray(base, dtype=np.float64)
    rel = float(spread)
    d = np.zeros((n, 3))
    if form == 'noise':
        d = geom.random_unit(rng, n) * rng.uniform(0.3, 1.0, size=(n, 1))
    elif form == 'drift':
        d = np.linspace(0.0, 1.0, n)[:, None] * geom.random_unit(rng, 1)
    else:
        j = int(rng.integers(0, n))
        u = geom.random_unit(rng, 1)[0] * rng.uniform(0.3, 1.0)
        if j == 0:
            d[1:] = u  # pixel 0 is the odd one
        else:
            d[j] = u
    d[0] = 0.0
    return base[None, :] + (rel * float(np.linalg.norm(base))) * d


def _base_beam(rng, decade):
    v = geom.random_unit(rng, 1)[0]
    if rng.random() < 0.25:  # beam along a coordinate axis of the lab frame
        v = np.zeros(3)
        v[rng.integers(0, 3)] = 1.0 if rng.random() < 0.5 else -1.0
    return v * 10.0 ** (decade + rng.uniform(0, 1))


def nearly_uniform_kernel_case(rng, ctx, K, which, spread, form, decade, layout, u1, u2):
    k, m = int(rng.integers(2, 6)), int(rng.integers(2, 9))
    n = k * m
    base = _base_beam(rng, decade)
    if which == 'both':
        a = nearly_uniform(rng, base, n, spread, form)
        _, b0, classes = gen_pairs(rng, 1, ctx, a=base[None, :])
        b = nearly_uniform(rng, b0[0], n, spread, SPREAD_FORMS[int(rng.integers(0, 3))])
    else:
        u = nearly_uniform(rng, base, n, spread, form)
        if layout == 'other beam scalar':
            _, o, classes = gen_pairs(rng, 1, ctx, a=base[None, :])
        else:
            _, o, classes = gen_pairs(rng, n, ctx, a=u)
        a, b = (u, o) if which == 'incident' else (o, u)

    def shaped(x, uniform, unit):
        if len(x) == 1:
            return vec(x[0], unit)
        if layout in ('pixel / pixel', 'other beam scalar'):
            return vec(x, unit)
        x = x.reshape(k, m, 3)
        if layout == 'uniform beam along the outer dim only' and uniform:
            return vec(np.ascontiguousarray(x[:, 0, :]), unit, dims=('run',))
        return vec(x, unit, dims=('run', 'pixel'))

    va = shaped(a, which in ('incident', 'both'), u1)
    vb = shaped(b, which == 'scattered', u2)
    ctx.hit('nearly uniform per-pixel beams: ' + which)
    ctx.hit('nearly uniform spread ' + spread)
    ctx.hit('nearly uniform form: ' + form)
    ctx.hit(f'nearly uniform beam norm 1e{decade}')
    ctx.hit('nearly uniform layout: ' + layout)
    # the kernel monitors judge every return against the per-pixel oracle
    fwd = K.two_theta(incident_beam=va, scattered_beam=vb)
    rev = K.two_theta(incident_beam=vb, scattered_beam=va)
    K.L1(incident_beam=va)
    K.L2(scattered_beam=vb)
    ctx.event('nearly_uniform.kernel')
    f, r = np.asarray(fwd.values).astype(si.LD), np.asarray(rev.values).astype(si.LD)
    if fwd.dims != rev.dims:
        r = np.asarray(sc.transpose(rev, dims=fwd.dims).values).astype(si.LD)
    d = float(np.max(np.abs(f - r)))
    ctx.event('invariance.swap (nearly uniform)')
    ctx.dev('invariance.swap, nearly uniform beams (fraction of bound)', d / (2 * TOL_ANGLE))
    if d > 2 * TOL_ANGLE:
        ctx.violation('invariance', f'two_theta changes under swap of nearly uniform per-pixel beams: {d:.3g} rad',
                      {'family': 'nearly uniform', 'which': which, 'spread': spread, 'form': form,
                       'layout': layout, 'units': [u1, u2], 'a': describe(va), 'b': describe(vb)},
                      transform='swap')
    return ('nearly_uniform', which, spread, form, decade, layout, u1, u2)


def nearly_uniform_positions_case(rng, ctx, scn, mon, where, spread, form, decade, unit, container):
    n = int(rng.integers(4, 33))
    a0 = _base_beam(rng, decade)
    if spread == 'independent':
        a = geom.random_unit(rng, n) * 10.0 ** (decade + rng.uniform(0, 1, size=(n, 1)))
        a0 = a[0]
    else:
        a = nearly_uniform(rng, a0, n, spread, form)
    origin = np.zeros(3) if rng.random() < 0.5 else rng.normal(size=3) * 0.3 * float(np.linalg.norm(a0))
    _, b, classes = gen_pairs(rng, n, ctx, a=a)
    drift = a - a0[None, :]
    if where == 'per-pixel source_position':
        sample = origin
        source = sample[None, :] - a
        pos = sample[None, :] + b
    elif where == 'per-pixel sample_position':
        source = origin - a0
        sample = origin[None, :] + drift           # the sample moves, source and detectors stay
        pos = origin[None, :] + b
    else:
        sample = origin[None, :] + drift
        source = (origin - a0)[None, :] - drift[::-1]
        pos = origin[None, :] + b
    # what the code sees are the float64 positions; the beams are their IEEE differences
    inc = sample - source
    sca = pos - sample
    coords = {'source_position': vec(source, unit), 'sample_position': vec(sample, unit), 'position': vec(pos, unit)}
    da = make_container(container, coords, n)
    ctx.hit('nearly uniform positions: ' + where)
    ctx.hit('per-pixel positions spread ' + spread)
    case = {'family': f'{where}, spread {spread} ({form}), beam norm 1e{decade}', 'container': container,
            'unit': unit, 'n': n, 'coords': {k: describe(v) for k, v in coords.items()}}
    mon.origin = 'accessor'
    try:
        want = geom.angle(np.broadcast_to(inc, sca.shape), sca)
        _judge_two_theta_routes(ctx, scn, da, want, case, 'nearly_uniform.accessor.two_theta', where=where)
        for k, w in (('L1', geom.norm(inc)), ('L2', geom.norm(sca)),
                     ('Ltotal_noscatter', geom.norm(pos - source))):
            r = scn.Ltotal(da, scatter=False) if k.startswith('Ltotal') else getattr(scn, k)(da)
            g = np.asarray(r.values).astype(si.LD)
            d = float(np.max(si.relerr(np.broadcast_to(g, np.shape(w)), w))) if np.ndim(g) <= np.ndim(w) else np.inf
            ctx.event('nearly_uniform.accessor.' + k)
            ctx.dev('nearly_uniform.accessor.' + k, d)
            if not d <= 8 * EPS or r.unit != sc.Unit(unit):
                ctx.violation('accessor', f'scippneutron.{k} with {where} (spread {spread}): deviation {d:.3g} '
                              f'or wrong unit ({r.unit})', dict(case, accessor=k), accessor=k)
        for k, w in (('incident_beam', inc), ('scattered_beam', sca)):
            r = getattr(scn, k)(da)
            ctx.event('nearly_uniform.accessor.' + k)
            g = np.asarray(r.values)
            if g.shape != w.shape or not np.array_equal(g, w) or r.unit != sc.Unit(unit):
                ctx.violation('accessor', f'scippneutron.{k} with {where} (spread {spread}) is not the per-pixel '
                              'difference of the positions', dict(case, accessor=k), accessor=k)
    finally:
        mon.origin = 'direct'
    return ('nearly_uniform_positions', where, spread, form, decade, unit, container)


# ------------------------------------------------------------ geometry + generic judge ---
class Geometry:
    """One generated beamline (float64 positions as the code sees them) and its Euclidean quantities."""

    def __init__(self, rng, ctx, n, unit=None, dim='pixel'):
        self.n, self.dim = n, dim
        self.unit = LEN_UNITS[rng.integers(0, 5)] if unit is None else unit
        a, b, self.classes = gen_pairs(rng, n, ctx)
        self.sample = rng.normal(size=3) * 10.0 ** rng.uniform(-3, 3) * (rng.random() < 0.7)
        self.source = self.sample - a[0]
        self.pos = self.sample[None, :] + b
        self.inc = self.sample - self.source            # IEEE float64 differences: what the beams must be
        self.sca = self.pos - self.sample[None, :]

    def position_coords(self, prefix=''):
        return {prefix + 'source_position': vec(self.source, self.unit),
                prefix + 'sample_position': vec(self.sample, self.unit),
                prefix + 'position': vec(self.pos, self.unit, dims=(self.dim,))}

    def want(self):
        l1 = geom.norm(self.inc)
        l2 = geom.norm(self.sca)
        return {'incident_beam': ('exact', self.inc), 'scattered_beam': ('exact', self.sca),
                'L1': ('rel', l1), 'L2': ('rel', l2),
                'two_theta': ('angle', geom.angle_blocks(self.inc, self.sca)),
                'Ltotal_scatter': ('rel', l1.astype(np.float64).astype(si.LD) + l2.astype(np.float64).astype(si.LD)),
                'Ltotal_noscatter': ('rel', geom.norm(self.pos - self.source[None, :]))}


def deviation(r, how, w, unit):
    """(deviation, bad) of a returned variable against the Euclidean value ``w``."""
    g = np.asarray(r.values)
    if np.ndim(g) > np.ndim(w):
        return np.inf, True
    if how == 'exact':
        bad = not np.array_equal(np.broadcast_to(g, np.shape(w)), w) or r.unit != sc.Unit(unit)
        return float(bad), bad
    g = np.broadcast_to(g.astype(si.LD), np.shape(w))
    if how == 'angle':
        d = float(np.max(np.abs(g - w))) if g.size else 0.0
        return d, not d <= TOL_ANGLE or r.unit != sc.Unit('rad')
    d = float(np.max(si.relerr(g, w))) if g.size else 0.0
    return d, not d <= 8 * EPS or r.unit != sc.Unit(unit)


def accessor_results(scn, da, names=None):
    names = names or ('L1', 'L2', 'two_theta', 'Ltotal_scatter', 'Ltotal_noscatter', 'incident_beam',
                      'scattered_beam')
    return {k: (scn.Ltotal(da, scatter=k.endswith('_scatter')) if k.startswith('Ltotal') else getattr(scn, k)(da))
            for k in names}


def judge_results(ctx, got, want, unit, case, ev, kind='accessor', **keys):
    for k, r in got.items():
        how, w = want[k]
        try:
            d, bad = deviation(r, how, w, unit)
        except Exception:  # noqa: BLE001
            ctx.oracle_error(ev)
            continue
        ctx.event(ev)
        ctx.event(ev + '.' + k)
        ctx.dev(ev + '.' + k, d if np.isfinite(d) else 1.0)
        if bad:
            ctx.violation(kind, f'{k} ({case["family"]}): deviation {d:.3g} from the Euclidean definition or wrong '
                          f'unit ({r.unit})', dict(case, quantity=k), accessor=k, **keys)


# ------------------------------------------------- kernels as nodes of a caller's graph ---
# (output coordinate, documented parameter names = the coordinates the node consumes)
KERNEL_NODES = {
    'straight_incident_beam': ('incident_beam', ('source_position', 'sample_position')),
    'straight_scattered_beam': ('scattered_beam', ('position', 'sample_position')),
    'L1': ('L1', ('incident_beam',)),
    'L2': ('L2', ('scattered_beam',)),
    'two_theta': ('two_theta', ('incident_beam', 'scattered_beam')),
    'total_beam_length': ('Ltotal', ('L1', 'L2')),
    'total_straight_beam_length_no_scatter': ('Ltotal', ('source_position', 'position')),
}
NODE_STYLES = ('node on coordinates named like its parameters', 'node with aliased input coordinates')


def graph_node_case(rng, ctx, K, mon, index, rep):
    """Every kernel used directly as a node of a caller-made ``transform_coords`` graph: each documented
    parameter is looked up as a coordinate, nothing else may be required."""
    kinds = sorted(set(CONTAINERS))
    for j, (kname, (out, params)) in enumerate(KERNEL_NODES.items()):
        style = NODE_STYLES[(j + index + rep) % 2]
        container = kinds[(3 * j + index + rep) % len(kinds)]
        dim = DIM_NAMES[(5 * j + index + rep) % len(DIM_NAMES)]
        if dim in GRAPH_NAMES:
            dim = 'pixel'
        g = Geometry(rng, ctx, int(rng.integers(2, 17)), dim=dim)
        l1 = float(np.linalg.norm(g.inc))
        l2 = np.linalg.norm(g.sca, axis=1)
        have = {**g.position_coords(), 'incident_beam': vec(g.inc, g.unit),
                'scattered_beam': vec(g.sca, g.unit, dims=(dim,)), 'L1': sc.scalar(l1, unit=g.unit),
                'L2': sc.array(dims=[dim], values=l2, unit=g.unit)}
        want = g.want()
        want['Ltotal_scatter'] = ('rel', si.LD(l1) + l2.astype(si.LD))
        key = out if out != 'Ltotal' else ('Ltotal_scatter' if kname == 'total_beam_length' else 'Ltotal_noscatter')
        if style == NODE_STYLES[0]:
            coords = {p_: have[p_] for p_ in params}
            graph = {out: getattr(K, kname)}
        else:
            coords = {'my_' + p_: have[p_] for p_ in params}
            graph = {out: getattr(K, kname), **{p_: 'my_' + p_ for p_ in params}}
        da = make_container(container, coords, g.n, dim)
        ctx.hit('kernel as graph node: ' + kname)
        ctx.hit('graph node style: ' + style)
        case = {'family': f'conversion.beamline.{kname} as the node {out!r} of a caller-made graph ({style})',
                'container': container, 'dim': dim, 'unit': g.unit, 'n': g.n,
                'coords': {k: describe(v) for k, v in coords.items()}}
        mon.origin = 'graph node'
        try:
            r = da.transform_coords(out, graph=graph).coords[out]
        except Exception as e:  # noqa: BLE001
            ctx.violation('graph_node_raised', f'transform_coords({out!r}, graph={{{out!r}: conversion.beamline.'
                          f'{kname}, ...}}) on data carrying exactly the documented inputs {list(params)} raised '
                          f'{type(e).__name__}: {e}', case, function=kname)
            continue
        finally:
            mon.origin = 'direct'
        judge_results(ctx, {key: r}, want, g.unit, case, 'graph_node', kind='graph_node')
        ctx.case(('graph_node', kname, style, container, g.unit))


# --------------------------------------------------------- lengths carrying variances ---
# vector3 positions / beams cannot carry variances in scipp; flight-path lengths can (calibrated L2 with an
# uncertainty). Values must still be right; the variance of L1 + L2 is var(L1) + var(L2) (judged by the
# total_beam_length monitor). scipp refuses to broadcast an operand with variances: a counted refusal.
VARIANCE_FORMS = ('L1 and L2 per pixel, both with variances', 'only L2 with variances', 'only L1 with variances',
                  'float32 lengths with variances', 'scalar L1 with variances x per-pixel L2 (broadcast)',
                  'supplied L2 with variances next to the positions', 'scalar L1 and L2, both with variances')


def variances_case(rng, ctx, scn, K, mon, form, index):
    dim = DIM_NAMES[index % len(DIM_NAMES)]
    if dim in GRAPH_NAMES:
        dim = 'pixel'
    g = Geometry(rng, ctx, int(rng.integers(2, 17)), dim=dim)
    l1 = float(np.linalg.norm(g.inc))
    l2 = np.linalg.norm(g.sca, axis=1)
    dt = 'float32' if form.startswith('float32') else 'float64'

    def L(values, var, scalar=False):
        values = np.asarray(values, dtype=np.float64)
        v = None if var is None else (np.abs(values) * rng.uniform(1e-6, 1e-2, size=values.shape)) ** 2
        if scalar:
            return sc.scalar(float(values), variance=None if v is None else float(v), unit=g.unit, dtype=dt)
        return sc.array(dims=[dim], values=values, variances=v, unit=g.unit, dtype=dt)

    ctx.hit('lengths with variances: ' + form)
    case = {'family': 'lengths with variances: ' + form, 'unit': g.unit, 'n': g.n, 'dim': dim}
    refusal_expected = 'broadcast' in form
    mon.origin = 'variances'
    mon.allowed_exc = (sc.VariancesError,) if refusal_expected else ()
    try:
        if form.startswith('supplied'):
            da = make_container('dataarray', {**g.position_coords(), 'L2': L(l2 * (1 + 1e-3), True)}, g.n, dim)
            got = accessor_results(scn, da, ('two_theta', 'L1', 'incident_beam', 'scattered_beam', 'Ltotal_noscatter'))
            judge_results(ctx, got, g.want(), g.unit, case, 'variances.accessor')
            r = scn.Ltotal(da, scatter=True)     # L1 (computed, no variances) + supplied L2: kernel monitor judges
            if r.variances is None:
                ctx.violation('ltotal_variances', 'scippneutron.Ltotal drops the variances of the supplied L2',
                              case, function='Ltotal')
        else:
            if form.startswith('scalar L1 and L2'):
                a, b = L(l1, True, scalar=True), L(l2[0], True, scalar=True)
            elif refusal_expected:
                a, b = L(l1, True, scalar=True), L(l2, True)
            else:
                a = L(np.full(g.n, l1), None if form == 'only L2 with variances' else True)
                b = L(l2, None if form == 'only L1 with variances' else True)
            try:
                kcall(K.total_beam_length, index % 2 == 1, L1=a, L2=b)
                if refusal_expected:
                    ctx.count('not refused: broadcast of a length with variances')
            except sc.VariancesError:
                if not refusal_expected:
                    raise
                ctx.count('refused by scipp (VariancesError): broadcast of a length with variances')
        ctx.event('variances')
    finally:
        mon.origin = 'direct'
        mon.allowed_exc = ()
    return ('variances', form, g.unit, dt)


# -------------------------------------- second use, fed-back results, calls after an exception, display ---
BETWEEN = ('nothing (same object again)', 'repr / str of the data', 'shallow copy', 'deep copy',
           'comparison (== / identical)', 'an exception raised and caught', 'results fed back as coordinates',
           'results fed back into the kernels', 'graph objects displayed / copied / pickled / customised')


def second_use_case(rng, ctx, scn, K, mon, index, rep):
    """The same data used a second time, with something harmless happening between the two computational calls:
    every result of the second call has to be the Euclidean value of the (unchanged) positions again."""
    from scippneutron.conversion.graph import beamline as GB

    kinds = sorted(set(CONTAINERS))
    for j, between in enumerate(BETWEEN):
        container = kinds[(j + index + 2 * rep) % len(kinds)]
        g = Geometry(rng, ctx, int(rng.integers(2, 17)))
        da = make_container(container, g.position_coords(), g.n)
        want = g.want()
        case = {'family': 'second use of the same data; in between: ' + between, 'container': container,
                'unit': g.unit, 'n': g.n, 'coords': {k: describe(v) for k, v in da.coords.items()}}
        ctx.hit('second use, in between: ' + between)
        mon.origin = 'second use'
        try:
            first = accessor_results(scn, da)
            judge_results(ctx, first, want, g.unit, case, 'second_use.first', between=between)
            subject = da
            if between.startswith('repr'):
                repr(da), str(da), repr(first['two_theta']), str(first['scattered_beam'])
                if hasattr(da, '_repr_html_'):
                    da._repr_html_()
            elif between == 'shallow copy':
                subject = copy.copy(da)
            elif between == 'deep copy':
                subject = copy.deepcopy(da)
            elif between.startswith('comparison'):
                sc.identical(da, copy.deepcopy(da))
                _ = da.coords['position'] == da.coords['position']
                _ = first['two_theta'] == first['two_theta']
                sc.identical(first['L2'], first['Ltotal_scatter'])
            elif between.startswith('an exception'):
                _exceptions_in_between(ctx, scn, K, mon, da, g)
            elif between == 'results fed back as coordinates':
                fed = {k: first[k] for k in ('incident_beam', 'scattered_beam', 'L1', 'L2', 'two_theta')}
                fed['Ltotal'] = first['Ltotal_scatter']
                subject = da.assign_coords(fed) if isinstance(da, sc.DataArray) else da.assign_coords(fed)
            elif between == 'results fed back into the kernels':
                fb = {'two_theta': K.two_theta(incident_beam=first['incident_beam'],
                                               scattered_beam=first['scattered_beam']),
                      'L1': K.L1(incident_beam=first['incident_beam']),
                      'L2': K.L2(scattered_beam=first['scattered_beam']),
                      'Ltotal_scatter': K.total_beam_length(L1=first['L1'], L2=first['L2'])}
                judge_results(ctx, fb, want, g.unit, case, 'second_use.kernels_on_results', between=between)
                # ... and once more on the same result objects (they are still the beams they were)
                fb2 = {'two_theta': K.two_theta(incident_beam=first['incident_beam'],
                                                scattered_beam=first['scattered_beam'])}
                judge_results(ctx, fb2, want, g.unit, case, 'second_use.kernels_on_results', between=between)
                judge_results(ctx, {k: first[k] for k in ('incident_beam', 'scattered_beam', 'L1', 'L2')}, want,
                              g.unit, dict(case, note='result objects after they were used as kernel inputs'),
                              'second_use.results_after_reuse', between=between)
            elif between.startswith('graph objects'):
                _graph_objects_in_between(ctx, GB, da, want, g.unit, case, between)
            names = None
            if between == 'results fed back as coordinates':
                # the stored Ltotal (with scattering) takes precedence for both flags: not judged
                names = ('L1', 'L2', 'two_theta', 'incident_beam', 'scattered_beam')
                ctx.count('not judged: Ltotal of data that carries a fed-back Ltotal', 2)
            second = accessor_results(scn, subject, names)
            judge_results(ctx, second, want, g.unit, case, 'second_use.second', between=between)
            ctx.case(('second_use', between, container, g.unit))
        except Exception as e:  # noqa: BLE001
            ctx.violation('accessor_raised', f'second use of a {container} (in between: {between}) raised '
                          f'{type(e).__name__}: {e}', case, container=container)
        finally:
            mon.origin = 'direct'
            mon.allowed_exc = ()


def _exceptions_in_between(ctx, scn, K, mon, da, g):
    """Calls that the unchanged tree refuses (scipp's own unit / dimension / lookup errors); each is counted."""
    def refused(label, f, *exc):
        mon.allowed_exc = exc
        try:
            f()
            ctx.count('not refused: ' + label)
        except exc as e:
            ctx.count(f'refused ({type(e).__name__}): ' + label)
        finally:
            mon.allowed_exc = ()

    refused('two_theta of beams with different lengths of the same dim', lambda: K.two_theta(
        incident_beam=vec(np.ones((g.n + 1, 3)), g.unit), scattered_beam=vec(g.sca, g.unit)), sc.DimensionError)
    refused('total_beam_length of a length and a time', lambda: K.total_beam_length(
        L1=sc.scalar(1.0, unit='m'), L2=sc.scalar(1.0, unit='s')), sc.UnitError)
    refused('accessor on data without a position', lambda: scn.two_theta(da.drop_coords('position')), Exception)
    refused('straight_scattered_beam of positions in m and s', lambda: K.straight_scattered_beam(
        position=vec(g.pos, 'm'), sample_position=vec(g.sample, 's')), sc.UnitError)


def _graph_objects_in_between(ctx, GB, da, want, unit, case, between):
    """The graphs the factories hand out are plain dicts owned by the caller."""
    g1 = GB.beamline(scatter=True)
    repr(g1), str(g1)
    g2 = copy.deepcopy(g1)
    g3 = pickle.loads(pickle.dumps(g1))
    _ = g1 == g2, g1 == g3
    for label, gr in (('deep copy of beamline(scatter=True)', g2), ('pickled beamline(scatter=True)', g3)):
        r = {k: da.transform_coords(k.split('_')[0] if k.startswith('Ltotal') else k, graph=gr).coords[
            k.split('_')[0] if k.startswith('Ltotal') else k] for k in ('two_theta', 'Ltotal_scatter', 'L2')}
        judge_results(ctx, r, want, unit, dict(case, graph=label), 'second_use.graph_copy', kind='graph_factory',
                      between=between)
    # the caller customises every graph it was given; the next graphs must be complete again
    for fac in (lambda: GB.beamline(scatter=True), lambda: GB.beamline(scatter=False), GB.two_theta, GB.L1, GB.L2,
                lambda: GB.Ltotal(scatter=True), lambda: GB.Ltotal(scatter=False), GB.incident_beam,
                GB.scattered_beam):
        gr = fac()
        for k in list(gr):
            gr[k] = 'customised_' + k
        gr.clear()
    fresh = {'two_theta': GB.two_theta(), 'L1': GB.L1(), 'L2': GB.L2(), 'Ltotal_scatter': GB.Ltotal(scatter=True),
             'Ltotal_noscatter': GB.Ltotal(scatter=False), 'incident_beam': GB.incident_beam(),
             'scattered_beam': GB.scattered_beam()}
    r = {k: da.transform_coords(k.split('_')[0] if k.startswith('Ltotal') else k, graph=gr).coords[
        k.split('_')[0] if k.startswith('Ltotal') else k] for k, gr in fresh.items()}
    judge_results(ctx, r, want, unit, dict(case, graph='factories after the caller customised earlier graphs'),
                  'second_use.graph_fresh', kind='graph_factory', between=between)


# ----------------------------------------------------------------- sizes ---
# number of beam vectors: empty, tiny, around powers of two (buffer / block / thread-grain sizes), and beyond
# 2**20 in the heavy case
SIZE_POINTS = (0, 1, 2, 3, 255, 256, 257, 1023, 1025, 4097, 8191, 8193, 65537, (1 << 17) + 3)


def bulk_pairs(rng, shape, incident):
    """float64 scattered beams of pixel shape ``shape`` (norms log-uniform 1e-6..1e6) for the given incident
    beam(s) (broadcastable to shape + (3,)). Every 4093rd pixel (every 3rd of a small array) is in a degenerate
    angle class (0, pi, ~1e-9, pi - ~1e-9, pi/2, ~1e-12); all built vectorised in float64 -- whatever comes out
    is judged against the exact angle of the float64 vectors."""
    n = int(np.prod(shape, dtype=np.int64))
    b = rng.normal(size=(n, 3)) * 10.0 ** rng.uniform(-6, 6, size=(n, 1))
    if n == 0:
        return b.reshape(*shape, 3)
    inc = np.broadcast_to(np.asarray(incident, dtype=np.float64), (*shape, 3)).reshape(n, 3)
    m = shape[-1]
    idx = np.arange(0, n, 4093 if n > 4093 else 3)
    if m > 64:  # the first and last pixels of every row keep generic angles (a stale / zero value there must show)
        idx = idx[(idx % m >= 4) & (idx % m < m - 4)]
    if len(idx) == 0:
        return b.reshape(*shape, 3)
    cls = (np.arange(len(idx)) % 6)[:, None]
    ai = inc[idx]
    na = np.linalg.norm(ai, axis=1, keepdims=True)
    e = np.cross(ai, rng.normal(size=ai.shape))
    e /= np.linalg.norm(e, axis=1, keepdims=True)
    nb = np.linalg.norm(b[idx], axis=1, keepdims=True)
    k = 2.0 ** rng.integers(-8, 9, size=(len(idx), 1))
    u = ai / na
    b[idx] = np.select([cls == 0, cls == 1, cls == 2, cls == 3, cls == 4],
                       [ai * k, -ai * k, (u + 1e-9 * e) * nb, (-u + 1e-9 * e) * nb, e * nb], (u + 1e-12 * e) * nb)
    return b.reshape(*shape, 3)


def size_case(rng, ctx, K, n, index):
    """Every kernel on n per-pixel beams; the monitors judge every element of every return."""
    per_pixel_incident = (n + index) % 2 == 0
    u1, u2 = LEN_UNITS[(n + index) % 5], LEN_UNITS[(n // 2 + index) % 5]
    a0 = geom.random_unit(rng, 1)[0] * 10.0 ** rng.uniform(-6, 6)
    a = (geom.random_unit(rng, n) * 10.0 ** rng.uniform(-6, 6, size=(n, 1))) if per_pixel_incident else a0
    b = bulk_pairs(rng, (n,), a)
    va = vec(a, u1) if a.ndim == 1 else vec(a.reshape(n, 3), u1)
    vb = vec(b.reshape(n, 3), u2)
    ctx.hit(f'size class: {n} beam vectors')
    tt = K.two_theta(incident_beam=va, scattered_beam=vb)
    K.L1(incident_beam=va)
    l2 = K.L2(scattered_beam=vb)
    K.straight_scattered_beam(position=vb, sample_position=vec(a0, u2))
    K.total_straight_beam_length_no_scatter(source_position=vec(a0, u2), position=vb)
    K.total_beam_length(L1=l2, L2=l2)
    ctx.event('size_class')
    if tt.dims != ('pixel',) or tt.shape != (n,):
        ctx.violation('wrong_unit_or_dims', f'two_theta of {n} beam vectors has sizes {dict(tt.sizes)}',
                      {'family': 'sizes', 'n': n}, function='two_theta')
    return ('size', n, per_pixel_incident, u1, u2)


HEAVY_CASES = ('2**20 + 7 beam vectors, scalar incident beam (kernels)',
               '2**21 + 5 beam vectors, per-pixel incident beam (kernels)',
               '3 x 400001 (bank, pixel) positions (accessors)')
HEAVY_LAYOUTS = ('one source and sample position', 'source_position per bank', 'sample_position per bank')


def heavy_case(rng, ctx, scn, K, mon, seed):
    """The one heavy case of a run: more than 2**20 beam vectors, every element judged by the (blocked)
    long-double oracle through the kernel monitors; the accessor results are judged element-wise as well."""
    mon.origin = 'heavy'
    try:
        # (1) 1-d, scalar incident beam
        n = (1 << 20) + 7
        u1, u2 = LEN_UNITS[seed % 5], LEN_UNITS[(seed // 5 + 2) % 5]
        a = geom.random_unit(rng, 1)[0] * 10.0 ** rng.uniform(-6, 6)
        vb = vec(bulk_pairs(rng, (n,), a), u2)
        ctx.hit('heavy size: ' + HEAVY_CASES[0])
        r = K.two_theta(incident_beam=vec(a, u1), scattered_beam=vb)
        K.L2(scattered_beam=vb)
        _heavy_shape(ctx, r, {'pixel': n}, HEAVY_CASES[0])
        ctx.case(('heavy', HEAVY_CASES[0], u1, u2))
        del vb, r
        # (2) 1-d, per-pixel incident beam
        n = (1 << 21) + 5
        a = rng.normal(size=(n, 3)) * 10.0 ** rng.uniform(-6, 6, size=(n, 1))
        va, vb = vec(a, u2), vec(bulk_pairs(rng, (n,), a), u1)
        del a
        ctx.hit('heavy size: ' + HEAVY_CASES[1])
        r = K.two_theta(incident_beam=va, scattered_beam=vb)
        _heavy_shape(ctx, r, {'pixel': n}, HEAVY_CASES[1])
        ctx.case(('heavy', HEAVY_CASES[1], u1, u2))
        del va, vb, r
        # (3) 2-d detector through the accessors
        shape = (3, 400001)
        layout = HEAVY_LAYOUTS[seed % 3]
        unit = LEN_UNITS[(seed + 1) % 5]
        sample = rng.normal(size=3) * 10.0 ** rng.uniform(-2, 2)
        a0 = geom.random_unit(rng, 1)[0] * 10.0 ** rng.uniform(-1, 3)
        source = sample - a0
        if layout == 'source_position per bank':
            source = source[None, :] + rng.normal(size=(3, 3)) * 1e-2 * np.linalg.norm(a0)
        elif layout == 'sample_position per bank':
            sample = sample[None, :] + rng.normal(size=(3, 3)) * 1e-3 * np.linalg.norm(a0)
        smp = sample if sample.ndim == 1 else sample[:, None, :]
        src = source if source.ndim == 1 else source[:, None, :]
        pos = smp + bulk_pairs(rng, shape, smp - src)
        inc = np.squeeze(smp - src)          # what the code sees: IEEE differences of the float64 positions
        sca = pos - smp
        coords = {'source_position': vec(source, unit, dims=('bank',)),
                  'sample_position': vec(sample, unit, dims=('bank',)),
                  'position': vec(pos, unit, dims=('bank', 'pixel'))}
        da = sc.DataArray(sc.zeros(dims=['bank', 'pixel'], shape=list(shape), dtype='float32'), coords=coords)
        ctx.hit('heavy size: ' + HEAVY_CASES[2])
        ctx.hit('heavy layout: ' + layout)
        case = {'family': 'heavy: ' + HEAVY_CASES[2] + ', ' + layout, 'unit': unit,
                'coords': {k: describe(v) for k, v in coords.items()}}
        incb = inc if inc.ndim == 1 else inc[:, None, :]
        l1 = geom.norm(inc)
        l1b = l1 if np.ndim(l1) == 0 else l1[:, None]
        l2 = geom.norm_blocks(sca)
        want = {'two_theta': ('angle', geom.angle_blocks(incb, sca)), 'L2': ('rel', l2),
                'L1': ('rel', l1),
                'Ltotal_scatter': ('rel', np.asarray(l1b).astype(np.float64).astype(si.LD)
                                   + l2.astype(np.float64).astype(si.LD)),
                'Ltotal_noscatter': ('rel', geom.norm_blocks(pos - src))}
        got = accessor_results(scn, da, tuple(want))
        judge_results(ctx, got, want, unit, case, 'heavy.accessor', layout=layout)
        for k in ('two_theta', 'L2', 'Ltotal_scatter', 'Ltotal_noscatter'):
            _heavy_shape(ctx, got[k], {'bank': 3, 'pixel': shape[1]}, HEAVY_CASES[2] + ': ' + k)
        ctx.case(('heavy', HEAVY_CASES[2], layout, unit))
    except Exception as e:  # noqa: BLE001
        ctx.violation('kernel_raised_outer', f'heavy case raised {type(e).__name__}: {e}', {'family': 'heavy'})
    finally:
        mon.origin = 'direct'


def _heavy_shape(ctx, r, sizes, what):
    ctx.event('heavy.result')
    if dict(r.sizes) != sizes:
        ctx.violation('wrong_unit_or_dims', f'{what}: result has sizes {dict(r.sizes)}, expected {sizes}',
                      {'family': 'heavy', 'what': what}, function='two_theta')


# ------------------------------------------------------------------- round-7 classes ---
# (1) single (0-d) beams / positions with a component that is tiny but not zero (the leftover of a fit or of a
#     rotation: 1e-160 .. 1e-300, subnormal) next to ordinary components: the square of such a component is not
#     representable, the angle and the lengths are the ordinary ones (to 1e-300 relative)
TINY_FORMS = ('one tiny component in the scattered beam', 'one tiny component in the incident beam',
              'a tiny component in both beams', 'two tiny components in one beam', 'a subnormal component',
              'per-pixel beams, a tiny component in some pixels')


def _tiny(rng, subnormal=False):
    e = rng.uniform(-323.0, -308.5) if subnormal else rng.uniform(-300.0, -160.0)
    return float((1.0 if rng.random() < 0.5 else -1.0) * 10.0 ** e)


def tiny_component_case(rng, ctx, scn, K, mon, form, index):
    per_pixel = form.startswith('per-pixel')
    n = int(rng.integers(3, 9)) if per_pixel else 1
    a, b, classes = gen_pairs(rng, n, ctx, cls=ANGLE_CLASSES.index('random'))
    a0, b0 = a.copy(), b.copy()
    ja, jb = int(rng.integers(0, 3)), int(rng.integers(0, 3))
    sub = form.startswith('a subnormal')
    rows = range(n) if not per_pixel else range(0, n, 2)
    for i in rows:
        if form in ('one tiny component in the scattered beam', 'a tiny component in both beams') or sub or per_pixel:
            b[i, jb] = _tiny(rng, sub)
        if form in ('one tiny component in the incident beam', 'a tiny component in both beams'):
            a[i, ja] = _tiny(rng, sub)
        if form.startswith('two tiny'):
            b[i, jb] = _tiny(rng)
            b[i, (jb + 1) % 3] = _tiny(rng)
    for x, x0 in ((a, a0), (b, b0)):   # the ordinary components carry the norm that was drawn (1e-6 .. 1e6)
        big = np.abs(x) > 1e-150
        x[big] = (x * (np.linalg.norm(x0, axis=1, keepdims=True)
                       / np.linalg.norm(np.where(big, x, 0.0), axis=1, keepdims=True)))[big]
    u1, u2 = LEN_UNITS[rng.integers(0, 5)], LEN_UNITS[rng.integers(0, 5)]
    ctx.hit('tiny non-zero component: ' + form)
    if not per_pixel:
        ctx.hit('0-d beam pair with a component of 1e-160 .. 1e-300 (or subnormal) next to ordinary components')
        va, vb = vec(a[0], u1), vec(b[0], u2)
    else:
        va, vb = (vec(a[0], u1) if index % 2 else vec(a, u1)), vec(b, u2)
    case = {'family': 'tiny non-zero component: ' + form, 'a': describe(va), 'b': describe(vb)}
    mon.origin = 'tiny component'
    try:
        # the kernel monitors judge every return against the long-double angle / norm of these very vectors
        fwd = K.two_theta(incident_beam=va, scattered_beam=vb)
        rev = K.two_theta(scattered_beam=va, incident_beam=vb)
        K.L1(incident_beam=va)
        K.L2(scattered_beam=vb)
        K.total_straight_beam_length_no_scatter(source_position=vec(a[0], u2), position=vb)
        K.straight_scattered_beam(position=vb, sample_position=vec(a[0], u2))
        ctx.event('tiny_component.kernel')
        d = float(np.max(np.abs(np.asarray(fwd.values).astype(si.LD) - np.asarray(rev.values).astype(si.LD))))
        ctx.dev('invariance.swap, tiny component (fraction of bound)', d / (2 * TOL_ANGLE))
        if not d <= 2 * TOL_ANGLE:
            ctx.violation('invariance', f'two_theta changes under swap of beams with a tiny component: {d:.3g} rad',
                          case, transform='swap')
        # the same single detector / pixels through the accessors: beams stored as coordinates, and positions with
        # the sample exactly at the origin (so that the tiny component survives the subtraction)
        dim = 'pixel'
        shape = [n] if per_pixel else []
        dims = [dim] if per_pixel else []
        data = sc.ones(dims=dims, shape=shape, unit='counts')
        want = geom.angle(np.broadcast_to(a[0] if va.ndim == 0 else a, b.shape), b)
        want = want if per_pixel else want[0]
        beams = sc.DataArray(data.copy(), coords={'incident_beam': vec(a[0] if va.ndim == 0 else a, u2),
                                              'scattered_beam': vb})
        _judge_two_theta_routes(ctx, scn, beams, want, dict(case, via='beams stored as coordinates'),
                                'tiny_component.two_theta', form=form)
        src = -a[0]
        inc0 = np.zeros(3) - src           # IEEE: what the code sees
        da = sc.DataArray(data.copy(), coords={'source_position': vec(src, u2), 'sample_position': vec(np.zeros(3), u2),
                                               'position': vb.copy()})
        want2 = geom.angle(np.broadcast_to(inc0, b.shape), b)
        want2 = want2 if per_pixel else want2[0]
        _judge_two_theta_routes(ctx, scn, da, want2, dict(case, via='positions, sample at the origin'),
                                'tiny_component.two_theta', form=form)
        got = accessor_results(scn, da, ('L1', 'L2', 'Ltotal_scatter', 'Ltotal_noscatter', 'scattered_beam'))
        bb = b if per_pixel else b[0]
        l1, l2 = geom.norm(inc0), geom.norm(bb)
        judge_results(ctx, got, {'L1': ('rel', l1), 'L2': ('rel', l2), 'scattered_beam': ('exact', bb - np.zeros(3)),
                                 'Ltotal_scatter': ('rel', l1.astype(np.float64).astype(si.LD)
                                                    + l2.astype(np.float64).astype(si.LD)),
                                 'Ltotal_noscatter': ('rel', geom.norm(bb - src))},
                      u2, dict(case, via='positions, sample at the origin'), 'tiny_component.accessor', form=form)
    finally:
        mon.origin = 'direct'
    return ('tiny_component', form, u1, u2)


# (2) in-place modification between two calls on the very same objects, and aliasing of results and arguments:
#     a result is the value for the contents the arguments had WHEN ASKED; afterwards results and arguments are
#     independent objects (the kernels document no views; scn.position & co. return the stored coordinate itself:
#     not judged). Origins exactly at zero (the usual instrument definition) are forced.
ORIGIN_FORMS = ('sample exactly at the origin (0-d, unit of the positions)',
                'source exactly at the origin (0-d, unit of the positions)',
                'sample at the origin written with negative zeros',
                'sample at the origin, stored per pixel (all zero)',
                'no position at the origin')
WRITES = ('shifted in place (+=)', 'scaled in place (*=)', 'numpy write into .values', 'one slice scaled in place',
          'one component through .fields', 'unit replaced in place')
ALIAS_CONTAINERS = ('dataarray', 'dataset_1', 'dataarray_2d', 'dataarray_binned', 'dataset_no_items',
                    'dataarray_subclass')
ALIAS_QUANTITIES = ('incident_beam', 'scattered_beam', 'L1', 'L2', 'two_theta', 'Ltotal_scatter', 'Ltotal_noscatter')


def _snap(v):
    return (np.array(v.values, copy=True), v.unit, tuple(v.dims))


def _same_snap(v, s):
    return (tuple(v.dims) == s[2] and v.unit == s[1] and np.shape(v.values) == np.shape(s[0])
            and np.array_equal(np.asarray(v.values), s[0], equal_nan=True))


def write_in_place(rng, var, how, scale):
    """Modify ``var`` in place (the object stays the same); returns the label of what was done."""
    is_vec = var.dtype == sc.DType.vector3
    shift = rng.normal(size=3) * 0.3 * scale if is_vec else float(rng.uniform(0.1, 0.5) * scale)
    if how == 'one slice scaled in place' and var.ndim == 0:
        how = 'scaled in place (*=)'
    if how == 'one component through .fields' and not is_vec:
        how = 'shifted in place (+=)'
    if how == 'shifted in place (+=)':
        var += sc.vector(shift, unit=var.unit) if is_vec else sc.scalar(shift, unit=var.unit, dtype=var.dtype)
    elif how == 'scaled in place (*=)':
        var *= 1.5
    elif how == 'numpy write into .values':
        v = var.values
        v[...] = v * 0.75 + shift
    elif how == 'one slice scaled in place':
        d = var.dims[-1]
        j = int(rng.integers(0, var.sizes[d]))
        var[d, j:j + 1] *= 2.0
    elif how == 'one component through .fields':
        f = ('x', 'y', 'z')[int(rng.integers(0, 3))]
        fld = getattr(var.fields, f)
        fld += sc.scalar(float(shift[0]), unit=var.unit)
    elif how == 'unit replaced in place':
        var.unit = [u for u in LEN_UNITS if sc.Unit(u) != var.unit][int(rng.integers(0, 4))]
    else:
        raise ValueError(how)
    return how


def _write_into_result(r, j):
    if j % 2 == 0 or r.ndim == 0:
        r *= 0.5
    else:
        v = r.values
        v[...] = 1.25


def alias_sequence(rng, ctx, call, args, how, target, case, judge, level, scale, **keys):
    """call() -> in-place write into args[target] -> call() -> in-place write into the results -> call().

    ``call`` returns {name: variable}; ``args`` {name: variable} are the very objects every call uses; ``judge(results,
    phase)`` compares results with the Euclidean values of the CURRENT contents of the arguments."""
    def bad(phase, what, **extra):
        ctx.violation('aliasing', f'{level}: {what} ({case["family"]})', dict(case, phase=phase, **extra),
                      phase=phase, level=level, **keys)

    r1 = call()
    judge(r1, 'first call')
    for k, r in r1.items():
        for n, v in args.items():
            if r is v:
                bad('identity', f'{k} IS the argument {n} (the same object)', quantity=k, argument=n)
    s1 = {k: _snap(r) for k, r in r1.items()}
    if how == 'unit replaced in place' and target == '*':
        for v in args.values():
            u = v.unit
            break
        new = [x for x in LEN_UNITS if sc.Unit(x) != u][int(rng.integers(0, 4))]
        for v in args.values():
            v.unit = new
        done = how
    else:
        done = write_in_place(rng, args[target], how, scale)
    ctx.hit('operand written in place between two calls: ' + done)
    ctx.event('aliasing.earlier_result_after_write_to_argument')
    for k, r in r1.items():
        if not _same_snap(r, s1[k]):
            bad('write to argument', f'the {k} obtained BEFORE {target if target != "*" else "the positions"} was '
                f'modified in place ({done}) changed with it', quantity=k, write=done)
            s1[k] = _snap(r)
    # (k) the same objects again: the result for the NEW contents
    r2 = call()
    ctx.event('in_place.second_call')
    judge(r2, 'second call after in-place modification')
    for k in r2:
        if r2[k] is r1[k]:
            bad('identity', f'the second call returned the {k} object of the first call', quantity=k)
    s2 = {k: _snap(r) for k, r in r2.items()}
    a2 = {n: _snap(v) for n, v in args.items()}
    # (l) write into every (writable) result: arguments, earlier results and the other results stay what they were
    for j, (k, r) in enumerate(r2.items()):
        try:
            _write_into_result(r, j)
        except (sc.VariableError, ValueError, RuntimeError) as e:   # a read-only result: nothing to alias through
            ctx.count(f'result not writable ({type(e).__name__}): ' + k)
            continue
        ctx.event('aliasing.arguments_after_write_to_result')
        for n, v in args.items():
            if not _same_snap(v, a2[n]):
                bad('write to result', f'writing in place into the returned {k} changed the argument {n}',
                    quantity=k, argument=n)
                a2[n] = _snap(v)
        for k1, r_ in r1.items():
            if not _same_snap(r_, s1[k1]):
                bad('write to result', f'writing in place into the returned {k} changed the {k1} returned by the '
                    'earlier call', quantity=k, other=k1)
                s1[k1] = _snap(r_)
        for k2, r_ in r2.items():
            if k2 != k and k2 not in list(r2)[:j] and not _same_snap(r_, s2[k2]):
                bad('write to result', f'writing in place into the returned {k} changed the returned {k2}',
                    quantity=k, other=k2)
    r3 = call()
    ctx.event('aliasing.repeated_call')
    judge(r3, 'repeated call after writing into the results')
    for k, r in r3.items():
        if not _same_snap(r, s2[k]):
            bad('repeat', f'repeating the call on the same arguments after writing into the earlier result gives a '
                f'different {k}', quantity=k)


def _positions_want(source, sample, pos):
    """Euclidean quantities of float64 positions (numpy, broadcastable), beams = IEEE differences."""
    inc = sample - source
    sca = pos - sample
    l1, l2 = geom.norm(inc), geom.norm(sca)
    l1b = np.broadcast_to(l1, np.shape(l2)) if np.ndim(l1) <= np.ndim(l2) else l1
    return {'incident_beam': ('exact', inc), 'scattered_beam': ('exact', sca), 'L1': ('rel', l1), 'L2': ('rel', l2),
            'two_theta': ('angle', geom.angle(np.broadcast_to(inc, np.broadcast_shapes(inc.shape, sca.shape)), sca)),
            'Ltotal_scatter': ('rel', np.asarray(l1b).astype(np.float64).astype(si.LD)
                               + np.asarray(l2).astype(np.float64).astype(si.LD)),
            'Ltotal_noscatter': ('rel', geom.norm(pos - source))}


def aliasing_case(rng, ctx, scn, K, mon, origin, index, rep):
    j = ORIGIN_FORMS.index(origin)
    t = j + index + 3 * rep
    n = int(rng.integers(2, 9))
    unit = LEN_UNITS[t % 5]
    a, b, classes = gen_pairs(rng, n, ctx, cls=ANGLE_CLASSES.index('random'))
    a = a / np.linalg.norm(a, axis=1, keepdims=True) * 10.0 ** rng.uniform(-2, 2, size=(n, 1))
    b = b / np.linalg.norm(b, axis=1, keepdims=True) * 10.0 ** rng.uniform(-2, 2, size=(n, 1))
    scale = float(min(np.linalg.norm(a[0]), np.min(np.linalg.norm(b, axis=1))))
    zero = np.zeros(3)
    if origin.startswith('sample'):
        sample = -zero if 'negative zeros' in origin else zero
        source, pos = sample - a[0], b
        if 'per pixel' in origin:
            sample = np.zeros((n, 3))
    elif origin.startswith('source'):
        source, sample = zero, a[0]
        pos = sample[None, :] + b
    else:
        sample = rng.normal(size=3) * scale
        source, pos = sample - a[0], sample[None, :] + b
    ctx.hit('aliasing / in-place: ' + origin)
    container = ALIAS_CONTAINERS[t % len(ALIAS_CONTAINERS)]
    how = WRITES[t % len(WRITES)]
    # -- accessors: the arguments are the coordinates of the data
    coords = {'source_position': vec(source, unit), 'sample_position': vec(sample, unit), 'position': vec(pos, unit)}
    da = make_container(container, coords, n)
    args = {c: da.coords[c] for c in coords}
    target = '*' if how == 'unit replaced in place' else ('position', 'sample_position', 'source_position')[t % 3]
    case = {'family': f'in-place modification / aliasing; {origin}', 'container': container, 'unit': unit, 'n': n,
            'write': how, 'written': target, 'coords': {k: describe(v) for k, v in coords.items()}}

    def judge_acc(res, phase):
        cur = {c: np.array(da.coords[c].values, copy=True) for c in coords}
        want = _positions_want(cur['source_position'], cur['sample_position'], cur['position'])
        judge_results(ctx, res, want, str(da.coords['position'].unit), dict(case, phase=phase), 'aliasing.accessor',
                      kind='in_place')

    mon.origin = 'aliasing'
    try:
        alias_sequence(rng, ctx, lambda: accessor_results(scn, da, ALIAS_QUANTITIES), args, how, target, case,
                       judge_acc, 'accessors', scale, origin=origin)
        ctx.case(('aliasing', 'accessors', origin, container, how, target))
    except Exception as e:  # noqa: BLE001
        ctx.violation('accessor_raised', f'accessors around an in-place modification ({how} of {target}) on a '
                      f'{container} raised {type(e).__name__}: {e}', case, container=container)
    finally:
        mon.origin = 'direct'
    # -- kernels: the monitors judge every return against the contents the arguments have at that moment
    l1 = np.linalg.norm(np.broadcast_to(sample, (n, 3))[0] - source)
    l2 = np.linalg.norm(pos - sample, axis=1)
    inc0 = np.broadcast_to(sample, (n, 3))[0] - source
    kernels = {
        'straight_incident_beam': {'source_position': vec(source, unit),
                                   'sample_position': vec(np.broadcast_to(sample, (n, 3)).copy(), unit)
                                   if t % 2 else vec(sample, unit)},
        'straight_scattered_beam': {'position': vec(pos, unit), 'sample_position': vec(sample, unit)},
        'total_straight_beam_length_no_scatter': {'source_position': vec(source, unit), 'position': vec(pos, unit)},
        'L1': {'incident_beam': vec(inc0, unit)},
        'L2': {'scattered_beam': vec(pos - sample, unit)},
        'two_theta': {'incident_beam': vec(inc0, unit), 'scattered_beam': vec(pos - sample, unit)},
        'total_beam_length': {'L1': sc.scalar(float(l1), unit=unit) if t % 2 else
                              sc.array(dims=['pixel'], values=np.full(n, l1), unit=unit),
                              'L2': sc.array(dims=['pixel'], values=l2, unit=unit)},
    }
    for i, (kname, kargs) in enumerate(kernels.items()):
        khow = WRITES[(t + i) % len(WRITES)]
        names = list(kargs)
        ktarget = names[(t + i) % len(names)]
        if khow == 'unit replaced in place' and kname not in ('two_theta', 'L1', 'L2'):
            ktarget = '*'   # the difference / sum of two lengths needs one unit
        kcase = {'family': f'in-place modification / aliasing; {origin}', 'kernel': kname, 'write': khow,
                 'written': ktarget, 'args': {k: describe(v) for k, v in kargs.items()}}
        f = getattr(K, kname)
        mon.origin = 'aliasing'
        try:
            alias_sequence(rng, ctx, lambda f=f, kargs=kargs, kname=kname: {kname: f(**kargs)}, kargs, khow, ktarget,
                           kcase, lambda res, phase: None, 'kernels', scale, origin=origin)
            ctx.case(('aliasing', kname, origin, khow, ktarget))
        except Exception as e:  # noqa: BLE001
            ctx.violation('kernel_raised_outer', f'{kname} around an in-place modification ({khow} of {ktarget}) '
                          f'raised {type(e).__name__}: {e}', kcase)
        finally:
            mon.origin = 'direct'


# (3) sizes that coincide with the 3 components of a vector (and 2, 4): a pixel dim of length 3 next to the
#     component axis, square 3 x 3 layouts where a transposed or mislabelled operand is shape-compatible
COINCIDING_SHAPES = ((2,), (3,), (4,), (3, 3), (2, 3), (3, 2), (3, 4), (4, 3), (3, 3, 3))
COINCIDING_LAYOUTS = ('same dims', 'incident beam with transposed dims', 'incident beam along the last dim only',
                      'incident beam along the first dim only')


def coinciding_sizes_case(rng, ctx, scn, K, mon, shape, index):
    names = ('a', 'b', 'c')[:len(shape)]
    layout = COINCIDING_LAYOUTS[(index + COINCIDING_SHAPES.index(shape)) % len(COINCIDING_LAYOUTS)] \
        if len(shape) > 1 else 'same dims'
    n = int(np.prod(shape))
    a, b, classes = gen_pairs(rng, n, ctx)
    u1, u2 = LEN_UNITS[rng.integers(0, 5)], LEN_UNITS[rng.integers(0, 5)]
    B = b.reshape(*shape, 3)
    A = a.reshape(*shape, 3)
    vb = sc.vectors(dims=list(names), values=B, unit=u2)
    if layout == 'same dims':
        va = sc.vectors(dims=list(names), values=A, unit=u1)
    elif layout == 'incident beam with transposed dims':
        perm = tuple(reversed(range(len(shape))))
        va = sc.vectors(dims=[names[p] for p in perm], values=np.ascontiguousarray(np.transpose(A, (*perm, len(shape)))),
                        unit=u1)
    elif layout == 'incident beam along the last dim only':
        va = sc.vectors(dims=[names[-1]], values=np.ascontiguousarray(A[(0,) * (len(shape) - 1)]), unit=u1)
    else:
        va = sc.vectors(dims=[names[0]], values=np.ascontiguousarray(A[(slice(None), *(0,) * (len(shape) - 1))]),
                        unit=u1)
    ctx.hit('size coinciding with the vector length: shape ' + 'x'.join(map(str, shape)))
    ctx.hit('coinciding sizes layout: ' + layout)
    mon.origin = 'coinciding sizes'
    try:
        # own expectation by explicit axes (the monitors judge the same returns through scipp's labelled broadcast)
        if layout in ('same dims', 'incident beam with transposed dims'):
            Aw = A
        elif layout == 'incident beam along the last dim only':
            Aw = np.broadcast_to(A[(0,) * (len(shape) - 1)], B.shape)
        else:
            Aw = np.broadcast_to(A[(slice(None), *(0,) * (len(shape) - 1))].reshape(
                shape[0], *(1,) * (len(shape) - 1), 3), B.shape)
        case = {'family': f'sizes coinciding with the vector length: {shape}, {layout}', 'a': describe(va),
                'b': describe(vb)}
        tt = K.two_theta(incident_beam=va, scattered_beam=vb)
        tt2 = K.two_theta(incident_beam=vb, scattered_beam=va)
        want = geom.angle(Aw, B)
        for r, lab in ((tt, 'two_theta'), (tt2, 'two_theta (beams swapped)')):
            g = np.asarray(sc.transpose(r, dims=list(names)).values).astype(si.LD) if set(r.dims) == set(names) \
                else None
            ctx.event('coinciding_sizes.two_theta')
            if g is None or g.shape != want.shape or not float(np.max(np.abs(g - want))) <= TOL_ANGLE:
                d = float('nan') if g is None or g.shape != want.shape else float(np.max(np.abs(g - want)))
                ctx.violation('two_theta_accuracy', f'{lab} of beams of shape {shape} ({layout}): dims {r.dims}, '
                              f'deviation {d:.3g} rad from the per-element angle', case, function='two_theta')
        K.L1(incident_beam=va)
        l2 = K.L2(scattered_beam=vb)
        ctx.event('coinciding_sizes.L2')
        if l2.dims != tuple(names) or not float(np.max(si.relerr(np.asarray(l2.values).astype(si.LD),
                                                                  geom.norm(B)))) <= 4 * EPS:
            ctx.violation('norm', f'L2 of beams of shape {shape}: dims {l2.dims} or values off', case, function='L2')
        K.straight_scattered_beam(position=vb, sample_position=sc.vectors(dims=va.dims, values=va.values, unit=u2))
        K.total_straight_beam_length_no_scatter(source_position=sc.vectors(dims=va.dims, values=va.values, unit=u2),
                                                position=vb)
        # accessors: position (a, b[, c]); source along the first, sample along the last dim
        if len(shape) > 1:
            src = rng.normal(size=(shape[0], 3)) * 10.0 ** rng.uniform(-1, 1) + np.array([0.0, 0.0, -30.0])
            smp = rng.normal(size=(shape[-1], 3)) * 1e-2
            pos = rng.normal(size=(*shape, 3)) * 10.0 ** rng.uniform(-1, 1)
            da = sc.DataArray(sc.ones(dims=list(names), shape=list(shape)),
                              coords={'source_position': sc.vectors(dims=[names[0]], values=src, unit=u1),
                                      'sample_position': sc.vectors(dims=[names[-1]], values=smp, unit=u1),
                                      'position': sc.vectors(dims=list(names), values=pos, unit=u1)})
            srcb = src.reshape(shape[0], *(1,) * (len(shape) - 1), 3)
            smpb = smp.reshape(*(1,) * (len(shape) - 1), shape[-1], 3)
            full = (*shape, 3)
            want = _positions_want(np.broadcast_to(srcb, full), np.broadcast_to(smpb, full), pos)
            got = accessor_results(scn, da, ('two_theta', 'L2', 'Ltotal_scatter', 'Ltotal_noscatter',
                                             'scattered_beam'))
            got = {k: (sc.transpose(r, dims=list(names)) if set(r.dims) == set(names) else r) for k, r in got.items()}
            judge_results(ctx, got, want, u1, dict(case, via='accessors: source along the first, sample along the '
                                                   'last dim'), 'coinciding_sizes.accessor')
            # L1 / incident_beam have the dims (first, last) only
            r = scn.L1(da)
            w1 = geom.norm(smp[None, :, :] - src[:, None, :]) if len(shape) > 1 else None
            if names[0] != names[-1] and set(r.dims) == {names[0], names[-1]}:
                g = np.asarray(sc.transpose(r, dims=[names[0], names[-1]]).values).astype(si.LD)
                ctx.event('coinciding_sizes.accessor.L1')
                if not float(np.max(si.relerr(g, w1))) <= 8 * EPS:
                    ctx.violation('accessor', f'scippneutron.L1 with source along {names[0]!r} ({shape[0]}) and sample '
                                  f'along {names[-1]!r} ({shape[-1]}) is not |sample - source| element for element',
                                  case, accessor='L1')
            else:
                ctx.violation('accessor', f'scippneutron.L1 has dims {r.dims}', case, accessor='L1')
    finally:
        mon.origin = 'direct'
    return ('coinciding_sizes', shape, layout, u1, u2)


# (4) names that merely NORMALISE (NFC / NFKC) to a beamline coordinate name are other names: coordinates under such
#     names next to the real ones are ignored; alone they are not the coordinate (refused, counted)
DECOY_NAMES = {'position': '\uff50osition',                 # FULLWIDTH LATIN SMALL LETTER P
               'sample_position': 'sample\uff3fposition',    # FULLWIDTH LOW LINE
               'source_position': 'source_positio\u207f',    # SUPERSCRIPT LATIN SMALL LETTER N
               'incident_beam': 'incident_bea\u1d50',        # MODIFIER LETTER SMALL M
               'scattered_beam': 'scat\u00adtered_beam',     # SOFT HYPHEN inside
               'L1': 'L\u00b9', 'L2': 'L\u00b2',             # SUPERSCRIPT ONE / TWO
               'Ltotal': 'Ltota\u217c',                      # SMALL ROMAN NUMERAL FIFTY
               'two_theta': 'two\uff3ftheta',
               'Ltotal ': 'Lto\u0301tal'}                    # (not NFC) combining acute


def decoy_names_case(rng, ctx, scn, K, mon, index):
    g = Geometry(rng, ctx, int(rng.integers(2, 9)))
    coords = g.position_coords()
    decoys = {}
    for real, fake in DECOY_NAMES.items():
        if real in coords:
            decoys[fake] = coords[real] * float(rng.uniform(1.3, 1.9))
        elif real.endswith('_beam'):
            decoys[fake] = vec(rng.normal(size=3), g.unit)
        elif real == 'two_theta':
            decoys[fake] = sc.scalar(0.123, unit='rad')
        else:
            decoys[fake] = sc.scalar(float(rng.uniform(1, 2)), unit=g.unit)
    kinds = sorted(set(CONTAINERS))
    container = kinds[index % len(kinds)]
    da = make_container(container, {**coords, **decoys}, g.n)
    ctx.hit('coordinates under names that merely normalise (NFKC) to beamline names next to the real ones')
    case = {'family': 'decoy coordinate names next to the real ones', 'container': container, 'unit': g.unit,
            'decoys': [ascii(k) for k in decoys]}
    mon.origin = 'decoy names'
    try:
        judge_results(ctx, accessor_results(scn, da), g.want(), g.unit, case, 'decoy_names.accessor')
        for real in ('position', 'sample_position', 'source_position'):
            only = make_container(container, {**{k: v for k, v in coords.items() if k != real},
                                              DECOY_NAMES[real]: coords[real]}, g.n)
            mon.allowed_exc = (Exception,)
            try:
                r = scn.two_theta(only)
                ctx.violation('accessor', f'scippneutron.two_theta computed an angle from data without a {real!r} '
                              f'coordinate (only {ascii(DECOY_NAMES[real])} present)', dict(case, missing=real),
                              accessor='two_theta')
                del r
            except Exception as e:  # noqa: BLE001
                ctx.count(f'refused ({type(e).__name__}): data whose only {real} is stored under a name that merely '
                          'normalises to it')
            finally:
                mon.allowed_exc = ()
        # dims whose names differ only by normalisation are different dims: the beams span both
        d1, d2 = '\u00e9cran', 'e\u0301cran'   # precomposed / decomposed
        k1, k2 = int(rng.integers(2, 4)), int(rng.integers(2, 5))
        a, b, _ = gen_pairs(rng, k1 * k2, ctx)
        A, B = a[:k1], b[:k2]
        r = K.two_theta(incident_beam=vec(A, g.unit, dims=(d1,)), scattered_beam=vec(B, g.unit, dims=(d2,)))
        ctx.hit('beams along dims whose names differ only by Unicode normalisation')
        ctx.event('unicode_dims.two_theta')
        ok = set(r.dims) == {d1, d2} and dict(r.sizes) == {d1: k1, d2: k2}
        if ok:
            got = np.asarray(sc.transpose(r, dims=[d1, d2]).values).astype(si.LD)
            ok = float(np.max(np.abs(got - geom.angle(A[:, None, :], B[None, :, :])))) <= TOL_ANGLE
        if not ok:
            ctx.violation('wrong_unit_or_dims', f'two_theta of beams along {ascii(d1)} ({k1}) and {ascii(d2)} ({k2}): '
                          f'sizes {ascii(dict(r.sizes))} or values are not the {k1} x {k2} angles', case,
                          function='two_theta')
        ctx.event('decoy_names')
    finally:
        mon.origin = 'direct'
        mon.allowed_exc = ()
    return ('decoy_names', container, g.unit)


# (5) first call in a fresh interpreter that imported only the module of the entry points
_FRESH_SCRIPT = r"""
import json, sys
spec = json.loads(sys.stdin.read())
try:
    import importlib
    M = importlib.import_module(spec['module'])   # the module of the entry points and nothing else
    import numpy as np
    import scipp as sc
    def build(o):
        vals = np.array([float.fromhex(x) for x in o['values']], dtype='float64').reshape(o['shape'])
        if o['vector']:
            return sc.vectors(dims=o['dims'], values=vals, unit=o['unit']) if o['dims'] else sc.vector(vals, unit=o['unit'])
        return sc.array(dims=o['dims'], values=vals, unit=o['unit']) if o['dims'] else sc.scalar(float(vals), unit=o['unit'])
except BaseException as e:
    print(json.dumps({'import_error': type(e).__name__ + ': ' + str(e)}))
    sys.exit(0)
out = []
for call in spec['calls']:
    try:
        a = {n: build(o) for n, o in call['args'].items()}
        if spec['kind'] == 'kernel':
            r = getattr(M, call['name'])(**a)
        else:
            da = sc.DataArray(sc.ones(dims=call['data_dims'], shape=call['data_shape']), coords=a)
            if spec['kind'] == 'accessor':
                r = getattr(M, call['name'])(da, **call['kw'])
            else:
                r = da.transform_coords(call['out'], graph=getattr(M, call['name'])(**call['kw'])).coords[call['out']]
        out.append({'dims': list(r.dims), 'shape': list(np.shape(r.values)), 'unit': str(r.unit), 'dtype': str(r.dtype),
                    'values': [float(x).hex() for x in np.ravel(r.values)]})
    except BaseException as e:
        out.append({'error': type(e).__name__ + ': ' + str(e)})
print(json.dumps({'results': out, 'modules': sorted(m for m in sys.modules if m.startswith('scippneutron'))}))
"""
FRESH_MODULES = {'kernel': 'scippneutron.conversion.beamline', 'accessor': 'scippneutron.beamline_components',
                 'graph': 'scippneutron.conversion.graph.beamline'}


def _enc(v):
    return {'dims': list(v.dims), 'shape': list(np.shape(v.values)), 'unit': str(v.unit),
            'vector': v.dtype == sc.DType.vector3, 'values': [float(x).hex() for x in np.ravel(v.values)]}


def fresh_interpreter_case(rng, ctx, scn, K, mon, kind, first):
    """Every entry point of one module called in an interpreter that imported nothing but that module (entry point
    number ``first`` is the very first call made there): each result is judged against the Euclidean definition."""
    import json
    import os
    import subprocess
    import sys

    g = Geometry(rng, ctx, int(rng.integers(2, 7)))
    want = g.want()
    pc = g.position_coords()
    l1 = sc.scalar(float(np.linalg.norm(g.inc)), unit=g.unit)
    l2 = sc.array(dims=['pixel'], values=np.linalg.norm(g.sca, axis=1), unit=g.unit)
    want_local = dict(want)
    want_local['Ltotal_lengths'] = ('rel', np.asarray(l1.value, dtype=si.LD) + np.asarray(l2.values).astype(si.LD))
    if kind == 'kernel':
        calls = [('straight_incident_beam', 'incident_beam', {k: pc[k] for k in ('source_position', 'sample_position')}),
                 ('straight_scattered_beam', 'scattered_beam', {k: pc[k] for k in ('position', 'sample_position')}),
                 ('L1', 'L1', {'incident_beam': vec(g.inc, g.unit)}),
                 ('L2', 'L2', {'scattered_beam': vec(g.sca, g.unit)}),
                 ('two_theta', 'two_theta', {'incident_beam': vec(g.inc, g.unit), 'scattered_beam': vec(g.sca, g.unit)}),
                 ('total_beam_length', 'Ltotal_lengths', {'L1': l1, 'L2': l2}),
                 ('total_straight_beam_length_no_scatter', 'Ltotal_noscatter',
                  {k: pc[k] for k in ('source_position', 'position')})]
        spec_calls = [{'name': n, 'args': {k: _enc(v) for k, v in a.items()}} for n, _, a in calls]
    else:
        names = [('incident_beam', 'incident_beam', {}), ('scattered_beam', 'scattered_beam', {}), ('L1', 'L1', {}),
                 ('L2', 'L2', {}), ('two_theta', 'two_theta', {}), ('Ltotal', 'Ltotal_scatter', {'scatter': True}),
                 ('Ltotal', 'Ltotal_noscatter', {'scatter': False})]
        if kind == 'graph':
            names.append(('beamline', 'two_theta', {'scatter': True}))
        calls = [(n, key, pc) for n, key, _ in names]
        spec_calls = [{'name': n, 'args': {k: _enc(v) for k, v in pc.items()}, 'kw': kw, 'data_dims': ['pixel'],
                       'data_shape': [g.n], 'out': key.split('_')[0] if key.startswith('Ltotal') else key}
                      for n, key, kw in names]
    first %= len(calls)
    calls = calls[first:] + calls[:first]
    spec_calls = spec_calls[first:] + spec_calls[:first]
    env = dict(os.environ)
    env['PYTHONPATH'] = os.pathsep.join(p for p in sys.path if p)
    try:
        proc = subprocess.run([sys.executable, '-c', _FRESH_SCRIPT], capture_output=True, text=True, env=env,
                              input=json.dumps({'module': FRESH_MODULES[kind], 'kind': kind, 'calls': spec_calls}),
                              timeout=300, check=False)
        reply = json.loads(proc.stdout.strip().splitlines()[-1])
    except Exception:  # noqa: BLE001
        ctx.oracle_error('C03 fresh interpreter: no reply from the subprocess')
        return
    case0 = {'family': f'first call in a fresh interpreter that imported only {FRESH_MODULES[kind]}', 'unit': g.unit,
             'coords': {k: describe(v) for k, v in pc.items()}}
    if 'import_error' in reply:
        ctx.violation('fresh_interpreter', f'importing {FRESH_MODULES[kind]} alone in a fresh interpreter failed: '
                      + reply['import_error'], case0, module=kind)
        return
    ctx.hit('first call in a fresh interpreter with minimal imports: ' + kind)
    ctx.extra['fresh_interpreter_modules:' + kind] = reply.get('modules')
    for (name, key, _), got in zip(calls, reply['results'], strict=True):
        case = dict(case0, entry_point=name, quantity=key, first_call_there=calls[0][0])
        if 'error' in got:
            ctx.violation('fresh_interpreter', f'{FRESH_MODULES[kind]}.{name} raised in a fresh interpreter that '
                          f'imported only its module: {got["error"]}', case, module=kind)
            continue
        try:
            vals = np.array([float.fromhex(x) for x in got['values']], dtype=np.float64).reshape(got['shape'])
            if got['dtype'] == 'vector3':
                r = sc.vectors(dims=got['dims'], values=vals, unit=got['unit']) if got['dims'] else sc.vector(
                    vals, unit=got['unit'])
            else:
                r = sc.array(dims=got['dims'], values=vals, unit=got['unit']) if got['dims'] else sc.scalar(
                    float(vals), unit=got['unit'])
        except Exception:  # noqa: BLE001
            ctx.oracle_error('C03 fresh interpreter: rebuilding the result')
            continue
        if got['dtype'] not in ('float64', 'vector3'):
            ctx.violation('fresh_interpreter', f'{name} in a fresh interpreter has dtype {got["dtype"]}', case,
                          module=kind)
            continue
        judge_results(ctx, {key: r}, want_local, g.unit, case, 'fresh_interpreter', kind='fresh_interpreter',
                      module=kind)
    # the same calls in the worker (judged by the kernel monitors)
    mon.origin = 'fresh interpreter (worker side)'
    try:
        if kind == 'kernel':
            for name, _, a in calls:
                getattr(K, name)(**a)
        else:
            accessor_results(scn, make_container('dataarray', pc, g.n))
    finally:
        mon.origin = 'direct'


def forced_sweeps(rng, ctx, scn, K, mon, index, rep, n_regular=16):
    """The classes every shard runs whatever the random draws are."""
    kinds = sorted(set(CONTAINERS))
    # data with supplied lengths: every form x every route, containers / dtypes rotate with the shard
    for j, form in enumerate(SUPPLIED_FORMS):
        container = kinds[(j + index + rep) % len(kinds)]
        dtype = LENGTH_DTYPES[(j + index // 2 + rep) % 3] if 'another' not in form else 'float64'
        try:
            ctx.case(supplied_lengths_case(rng, ctx, scn, mon, form, container, dtype))
        except Exception as e:  # noqa: BLE001
            mon.origin = 'direct'
            ctx.violation('accessor_raised', f'data with supplied coordinates ({form}) on a {container} raised '
                          f'{type(e).__name__}: {e}', {'family': 'supplied', 'form': form, 'container': container},
                          container=container)
    # nearly uniform per-pixel beams: which x spread x form in every shard; norm decade, layout, units rotate
    j = 0
    for which in UNIFORM_WHICH:
        for spread in SPREADS:
            for form in SPREAD_FORMS:
                t = j + index + 7 * rep
                decade = NORM_DECADES[t % len(NORM_DECADES)]
                layouts = NU_LAYOUTS if which != 'both' else NU_LAYOUTS[:3]
                layout = layouts[(t // 2) % len(layouts)]
                u1 = LEN_UNITS[(t // 3) % 5]
                u2 = LEN_UNITS[(t // 3 + (t % 3 == 0)) % 5]
                try:
                    ctx.case(nearly_uniform_kernel_case(rng, ctx, K, which, spread, form, decade, layout, u1, u2))
                except Exception as e:  # noqa: BLE001
                    ctx.violation('kernel_raised_outer', f'{type(e).__name__}: {e}',
                                  {'family': 'nearly uniform', 'which': which, 'spread': spread, 'layout': layout})
                j += 1
    j = 0
    for where in NU_POSITIONS:
        for spread in (*SPREADS, 'independent'):
            t = j + index + 5 * rep
            form = SPREAD_FORMS[t % 3]
            decade = NORM_DECADES[(t // 3) % len(NORM_DECADES)]
            unit = LEN_UNITS[(t // 2) % 5]
            container = kinds[t % len(kinds)]
            try:
                ctx.case(nearly_uniform_positions_case(rng, ctx, scn, mon, where, spread, form, decade, unit,
                                                       container))
            except Exception as e:  # noqa: BLE001
                mon.origin = 'direct'
                ctx.violation('accessor_raised', f'accessors with {where} (spread {spread}) on a {container} raised '
                              f'{type(e).__name__}: {e}', {'family': 'nearly uniform positions', 'where': where,
                                                           'container': container}, container=container)
            j += 1
    # round-6 classes: kernels as nodes of a caller's graph, lengths with variances, second use / feedback /
    # display in between, sizes around powers of two (incl. empty)
    try:
        graph_node_case(rng, ctx, K, mon, index, rep)
    except Exception as e:  # noqa: BLE001
        mon.origin = 'direct'
        ctx.violation('kernel_raised_outer', f'{type(e).__name__}: {e}', {'family': 'kernels as graph nodes'})
    for j, form in enumerate(VARIANCE_FORMS):
        try:
            ctx.case(variances_case(rng, ctx, scn, K, mon, form, index + j + rep))
        except Exception as e:  # noqa: BLE001
            ctx.violation('kernel_raised_outer', f'lengths with variances ({form}): {type(e).__name__}: {e}',
                          {'family': 'variances', 'form': form})
    second_use_case(rng, ctx, scn, K, mon, index, rep)
    # round-7 classes: tiny non-zero components (0-d pairs first), in-place modification / aliasing with the origins
    # exactly at zero, sizes coinciding with the vector length, decoy names / non-normalised dims
    for j, form in enumerate(TINY_FORMS):
        try:
            ctx.case(tiny_component_case(rng, ctx, scn, K, mon, form, index + j + rep))
        except Exception as e:  # noqa: BLE001
            mon.origin = 'direct'
            ctx.violation('kernel_raised_outer', f'beams with a tiny non-zero component ({form}): '
                          f'{type(e).__name__}: {e}', {'family': 'tiny component', 'form': form})
    for origin in ORIGIN_FORMS:
        try:
            aliasing_case(rng, ctx, scn, K, mon, origin, index, rep)
        except Exception as e:  # noqa: BLE001
            mon.origin = 'direct'
            ctx.violation('kernel_raised_outer', f'in-place modification / aliasing ({origin}): '
                          f'{type(e).__name__}: {e}', {'family': 'aliasing', 'origin': origin})
    for shape in COINCIDING_SHAPES:
        try:
            ctx.case(coinciding_sizes_case(rng, ctx, scn, K, mon, shape, index + rep))
        except Exception as e:  # noqa: BLE001
            mon.origin = 'direct'
            ctx.violation('kernel_raised_outer', f'beams of shape {shape}: {type(e).__name__}: {e}',
                          {'family': 'coinciding sizes', 'shape': list(shape)})
    try:
        ctx.case(decoy_names_case(rng, ctx, scn, K, mon, index + rep))
    except Exception as e:  # noqa: BLE001
        mon.origin = 'direct'
        mon.allowed_exc = ()
        ctx.violation('accessor_raised', f'data with decoy coordinate names: {type(e).__name__}: {e}',
                      {'family': 'decoy names'}, container='decoy names')
    for j, n in enumerate(SIZE_POINTS):
        if (j + rep) % n_regular != index % n_regular:
            continue
        try:
            ctx.case(size_case(rng, ctx, K, n, index + rep))
        except Exception as e:  # noqa: BLE001
            ctx.violation('kernel_raised_outer', f'{n} beam vectors: {type(e).__name__}: {e}',
                          {'family': 'sizes', 'n': n})


# ---------------------------------------------------------------- driver ---
N_REGULAR = {'quick': 13, 'thorough': 16}


def plan(tier, seed):
    # quick: 13 regular shards + the heavy case on a shard of its own (with the two environment variants of the
    # runner: one wave on 16 cores); thorough: the heavy case rides on the last shard
    if tier == 'quick':
        return [*({'direct': 250, 'families': 50, 'sweeps': 1, 'n_regular': 13} for _ in range(13)),
                {'direct': 0, 'families': 0, 'sweeps': 0, 'n_regular': 13, 'heavy': True}]
    return [{'direct': 10000, 'families': 2000, 'sweeps': 30, 'n_regular': 16, 'heavy': i == 15} for i in range(16)]


def requirements(tier):
    ev = {k: 10 for k in ('L1', 'L2', 'straight_incident_beam', 'straight_scattered_beam',
                          'total_beam_length', 'total_straight_beam_length_no_scatter', 'two_theta',
                          'accessor.two_theta', 'accessor.Ltotal_noscatter', 'invariance.rotation',
                          'invariance.translation', 'invariance.swap')}
    ev.update({'accessor call: ' + c: 10 for c in CONVENTIONS})
    ev.update({'graph_node': 7, 'variances': len(VARIANCE_FORMS), 'total_beam_length.variances': 4,
               'second_use.second': 5 * len(BETWEEN), 'second_use.kernels_on_results': 4,
               'second_use.graph_fresh': 7, 'size_class': len(SIZE_POINTS), 'heavy.accessor': 5,
               'heavy.accessor.two_theta': 1, 'heavy.result': 6,
               'tiny_component.kernel': len(TINY_FORMS), 'tiny_component.two_theta': 10 * len(TINY_FORMS),
               'tiny_component.accessor': 5 * len(TINY_FORMS),
               'aliasing.earlier_result_after_write_to_argument': 8 * len(ORIGIN_FORMS),
               'in_place.second_call': 8 * len(ORIGIN_FORMS),
               'aliasing.arguments_after_write_to_result': 14 * len(ORIGIN_FORMS),
               'aliasing.repeated_call': 8 * len(ORIGIN_FORMS), 'aliasing.accessor': 21 * len(ORIGIN_FORMS),
               'coinciding_sizes.two_theta': 2 * len(COINCIDING_SHAPES), 'coinciding_sizes.accessor': 5 * 6,
               'coinciding_sizes.accessor.L1': 6, 'decoy_names': 1, 'decoy_names.accessor': 7,
               'unicode_dims.two_theta': 1, 'fresh_interpreter': 7 + 7 + 8})
    return {'events': ev, 'forced': ['angle:' + c for c in ANGLE_CLASSES] + ['axis-aligned beamline, sample at origin', 'per-pixel incident, scalar scattered', 'beams along different dimensions']
            + ['accessor container ' + c for c in sorted(set(CONTAINERS))]
            + ['scatter flag given as ' + f.__name__ for f in FLAG_FORMS]
            + ['accessor calling convention: ' + c for c in CONVENTIONS]
            + ['per-pixel dim named ' + repr(d) for d in DIM_NAMES]
            + ['kernel keywords in reversed order', 'kernel keywords in documented order']
            + ['kernel operands along a dim named ' + repr(d) for d in DIM_NAMES]
            + ['kernel as graph node: ' + k for k in KERNEL_NODES]
            + ['graph node style: ' + x for x in NODE_STYLES]
            + ['lengths with variances: ' + f for f in VARIANCE_FORMS]
            + ['second use, in between: ' + b for b in BETWEEN]
            + [f'size class: {n} beam vectors' for n in SIZE_POINTS]
            + ['heavy size: ' + h for h in HEAVY_CASES]
            + ['supplied coordinates: ' + f for f in SUPPLIED_FORMS]
            + ['supplied length dtype ' + d for d in LENGTH_DTYPES]
            + ['nearly uniform per-pixel beams: ' + w for w in UNIFORM_WHICH]
            + ['nearly uniform spread ' + x for x in SPREADS]
            + ['nearly uniform form: ' + f for f in SPREAD_FORMS]
            + [f'nearly uniform beam norm 1e{d}' for d in NORM_DECADES]
            + ['nearly uniform layout: ' + x for x in NU_LAYOUTS]
            + ['nearly uniform positions: ' + w for w in NU_POSITIONS]
            + ['per-pixel positions spread ' + x for x in (*SPREADS, 'independent')]
            + ['tiny non-zero component: ' + f for f in TINY_FORMS]
            + ['0-d beam pair with a component of 1e-160 .. 1e-300 (or subnormal) next to ordinary components']
            + ['aliasing / in-place: ' + o for o in ORIGIN_FORMS]
            + ['operand written in place between two calls: ' + w for w in WRITES]
            + ['size coinciding with the vector length: shape ' + 'x'.join(map(str, s)) for s in COINCIDING_SHAPES]
            + ['coinciding sizes layout: ' + x for x in COINCIDING_LAYOUTS]
            + ['coordinates under names that merely normalise (NFKC) to beamline names next to the real ones',
               'beams along dims whose names differ only by Unicode normalisation']
            + ['first call in a fresh interpreter with minimal imports: ' + k for k in FRESH_MODULES]}


def run(shard, ctx):
    import scippneutron as scn
    from scippneutron.conversion import beamline as K

    rng = np.random.Generator(np.random.PCG64([shard['seed'], shard['index'], 3]))
    mon = Monitors(ctx)
    tr = Tracer()
    tr.watch(K.L1, 'L1', on_return=mon.norm_of('L1', 'incident_beam'))
    tr.watch(K.L2, 'L2', on_return=mon.norm_of('L2', 'scattered_beam'))
    tr.watch(K.straight_incident_beam, 'straight_incident_beam',
             on_return=mon.difference('straight_incident_beam', 'sample_position', 'source_position'))
    tr.watch(K.straight_scattered_beam, 'straight_scattered_beam',
             on_return=mon.difference('straight_scattered_beam', 'position', 'sample_position'))
    tr.watch(K.total_beam_length, 'total_beam_length', on_return=mon.total_scatter)
    tr.watch(K.total_straight_beam_length_no_scatter, 'total_straight_beam_length_no_scatter',
             on_return=mon.total_no_scatter)
    tr.watch(K.two_theta, 'two_theta', on_return=mon.two_theta)
    with tr:
        for i in range(shard['direct']):
            before = ctx.n_violations
            try:
                sig, trivial = direct_case(rng, ctx, K, i)
            except Exception as e:  # noqa: BLE001
                ctx.violation('kernel_raised_outer', f'{type(e).__name__}: {e}', {'family': 'direct'})
                continue
            ctx.case(sig, trivial=trivial)
            if i < 2 or ctx.n_violations > before:
                ctx.sample({'family': 'direct', 'signature': sig})
        for i in range(shard['families']):
            n = int(rng.integers(4, 65))
            a, b, classes = gen_pairs(rng, n, ctx)
            try:
                ctx.case(invariance_family(rng, ctx, K, a, b, classes))
            except Exception as e:  # noqa: BLE001
                ctx.violation('kernel_raised_outer', f'{type(e).__name__}: {e}', {'family': 'invariance'})
            kinds = sorted(set(CONTAINERS))
            container = kinds[i % len(kinds)]  # every kind of container in every shard
            k_ = i // len(kinds) + shard['index']
            try:
                sig = positions_case(rng, ctx, scn, K, mon, forced=container,
                                     flag_form=FLAG_FORMS[(i + 2 * k_) % len(FLAG_FORMS)],
                                     conv=CONVENTIONS[(i + k_) % len(CONVENTIONS)],
                                     dim=DIM_NAMES[(i + 3 * k_) % len(DIM_NAMES)])
                ctx.case(sig)
                if i < 2:
                    ctx.sample({'family': 'accessors', 'signature': sig})
            except Exception as e:  # noqa: BLE001
                mon.origin = 'direct'
                ctx.violation('accessor_raised', f'accessor on a {container} raised {type(e).__name__}: {e}',
                              {'family': 'accessors', 'container': container}, container=container)
        for rep in range(shard.get('sweeps', 1)):
            forced_sweeps(rng, ctx, scn, K, mon, shard['index'], rep, shard.get('n_regular', 16))
        if shard.get('direct'):
            # the kernels are keyword-only by signature: a positional call is refused by Python itself
            try:
                K.L1(vec(np.ones(3), 'm'))
                ctx.count('not refused: keyword-only kernel called positionally')
            except TypeError:
                ctx.count('refused (TypeError): keyword-only kernel called positionally')
        if shard.get('direct') and shard['index'] in (1, 2, 3):
            # one entry-point module per shard in an interpreter of its own (shards 1..3: not repeated by the
            # environment variants of shard 0)
            kind = ('kernel', 'accessor', 'graph')[shard['index'] - 1]
            try:
                fresh_interpreter_case(rng, ctx, scn, K, mon, kind, shard['seed'])
            except Exception:  # noqa: BLE001
                mon.origin = 'direct'
                ctx.oracle_error('C03 fresh interpreter harness')
        if shard.get('heavy'):
            heavy_case(rng, ctx, scn, K, mon, shard['seed'])
    ctx.extra['mpmath_selftest'] = _selftest(ctx, rng)


def _selftest(ctx, rng):
    try:
        import mpmath as mp
    except ImportError:
        ctx.inconclusive_because('mpmath missing for the angle oracle self-test')
        return None
    a, b, _ = gen_pairs(np.random.Generator(np.random.PCG64(11)), 60, _Null())
    worst = 0.0
    for x, y in zip(a, b, strict=True):
        ld = geom.angle(x, y)
        ex = geom.angle_mp(x, y)
        worst = max(worst, abs(float(mp.mpf(repr(ld).split("'")[1]) - ex)))
    if worst > 1e-17:
        ctx.inconclusive_because(f'long-double angle oracle differs from mpmath by {worst:.3g} rad')
    return {'pairs': 60, 'max_abs_diff_rad': worst}


class _Null:
    def hit(self, *a):
        pass


TECHNIQUE = ('runtime monitors (sys.monitoring) on the 7 geometry kernels and the 8 data-array accessors; '
             'long-double Euclidean/Kahan reference; invariance monitor over transformed re-executions')
LEVEL_TEXT = ('exploration: every observed return of the geometry kernels (direct, through the accessors and '
              'through the shipped graphs) is compared with the Euclidean definition; 2theta against the exact '
              'angle between the float64 beams at 1e-14 rad in forced near-0 / pi/2 / pi classes, plus swap, '
              'rescale, rotation and translation invariance on observed values; data with supplied L1/L2/Ltotal '
              'coordinates and nearly uniform per-pixel beams are judged per pixel against the same definition; '
              'so are all calling conventions, caller-made graphs with the kernels as nodes, repeated use of the '
              'same data and arrays of up to 2^21+5 beam vectors (every element); results and arguments are checked '
              'to be independent objects around in-place writes, and the same objects are used again after an in-place '
              'modification. '
              'Sampled inputs, not a proof.')
LEVEL_NOTE = ('trusted: numpy long double, mpmath (self-test), scipp vector containers and broadcasting, '
              'IEEE float64 subtraction as the model of a position difference')
DESIGN_REF = 'DESIGN.md section 4, C03'
