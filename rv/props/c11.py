"""C11 Chopper-cascade frames are exactly the set of transmitted neutrons.

Monitors sit on the code objects of ``FrameSequence.from_source_pulse``,
``Frame.chop``, ``Frame.propagate_to``, ``Frame.bounds``, ``Frame.subbounds``,
``_chop``, ``Subframe.is_regular`` and ``FrameSequence.chop / propagate_to /
__getitem__``.  A *ghost state* is attached to every Frame object the trace has
seen: the source pulse and the list of choppers it went through, built up from
the observed calls only (``from_source_pulse`` creates it, ``chop`` appends the
chopper argument, ``propagate_to`` copies it).  Whenever a frame is returned the
oracle (``rv.oracle.tofsim``: neutrons flying with inverse velocity
``lambda m_n / h`` through the recorded choppers, long double) classifies ~2000
neutrons of the pulse as transmitted / blocked, and the monitor demands

    transmitted  <=>  (arrival time, wavelength) inside the union of the polygons

for every neutron outside the undecided bands (1e-9 relative around window edges
in time, 1e-9 normalised around polygon edges).  Further monitors: shear of
``propagate_to`` against the long-double formula, clip geometry of ``_chop``,
wavelength band of all vertices, ``subbounds`` / ``bounds`` against min/max of the
observed vertices and *no exception* from them, equality of frames reached by
different ``propagate_to`` chains, independence of the order in which choppers
are listed; the frame ``chop`` returns carries the chopper's distance (bitwise
without unit conversion) and its vertices lie on the boundary of the starting
frame sheared to that distance (1e-12; decides choppers that are nearly at the
frame position, where a time shift is below the 1e-9 band of the neutron test).
Nothing is remembered per Chopper object: the chopper model is rebuilt from the
fields at every observed call (the dataclasses are mutable).

``FrameSequence.chop`` takes *a collection* of choppers: the workload hands them over as
every kind of iterable Python offers (sequences, re-iterable views, iterators that can
be walked once, user-defined classes of each kind).  An iterator cannot be inspected
without consuming it, so the harness records what it put into the iterable and the
monitor of ``FrameSequence.chop`` looks the argument object up: the result must extend
the sequence by one frame per chopper *handed in* and its last frame is judged against
those choppers.  One ``chop`` call is compared with sequences of ``chop`` /
``propagate_to`` calls over the same choppers.

Sequences whose propagate / chop / lookup distances are NOT monotonic (to the detector and back to a
monitor, a look between two choppers, a distance that exists already): ``FrameSequence.propagate_to`` must
append the last frame propagated to the distance, whatever the order of the distances, and ``sequence[d]``
yields the neutrons behind the choppers at <= d.  Aliasing: every frame the trace has seen carries a snapshot
of its bytes; the workload writes in place into results, arguments and reused variables (``probe_alias``,
scan loops with ``pos += step``) and frames obtained earlier must still report what they reported when they
were returned (``Monitors.recheck``); the pass-through of the data classes that the unchanged tree shows
(distance Variable stored as given, wavelength Variable passed on by propagate_to) is counted, not judged.

Pulse rectangles without extent (monochromatic, instantaneous, a single point; exactly
and up to a few ulp): the neutrons occupy a segment (a point) of the plane and the
frames consist of segments (points).  Membership is then judged along that line
(``tofsim.on_segment`` / ``at_point``) with the same 1e-9 band, now around the *ends*
of every reported segment; neutrons in the band stay undecided.
"""

from __future__ import annotations

import os
from types import SimpleNamespace

import numpy as np
import scipp as sc

from rv.oracle import si
from rv.oracle import tofsim as ts
from rv.trace import Tracer

ID = 'C11'
LEVEL = 'exploration'
RULE = (
    'case = one chopper cascade: pulse 0.1..5 ms x wavelength band of width 0.5..20 angstrom '
    '(random units), a random program of 0..5 Frame.chop calls (1..4 windows of the '
    'classes cuts-low / cuts-high / cuts-both / contains / misses / touches-a-vertex-exactly, built from the '
    'vertex times observed in the trace) interleaved with Frame.propagate_to calls (forward, to the next '
    'chopper distance exactly or to just in front of it, occasionally backward). Chopper distances: 1..150 m '
    'apart by >= 0.01 m, OR bitwise equal to the current frame distance (0 m for the source frame), bitwise '
    'equal to an earlier chopper, next to the frame / an earlier chopper (double-disk choppers: relative '
    'separation log-uniform 1e-12..1e-4, or one ulp; 1e-12..1e-3 m next to the source), or just in front of '
    'the frame (documented ValueError refusal). Then the same choppers through '
    'FrameSequence.chop in listed and permuted order, FrameSequence.propagate_to (+ chop from there) and '
    'sequence[distance] (random, between and just behind nearly coinciding choppers, exact frame distances). '
    'Every shard starts with forced cascades: 8 structural ones, 3 with nearly coinciding distances (cold '
    'neutrons, far choppers, cutting windows; the relative separations form a ladder 1e-12..1e-4 over the '
    'shards), 1 that reassigns fields of live Chopper / Frame / FrameSequence objects between calls. '
    'Then 1 cascade that hands 3 choppers to FrameSequence.chop as every kind of iterable (list, tuple, deque, '
    'user sequence; dict view, user iterable; generator expression / function, filter, map, zip, list / tuple '
    'iterator, reversed, itertools.chain, user iterator; empty ones), each in its own order, and applies them by '
    '2 and 3 calls (chop.chop, chop.propagate_to.chop; split by distance) instead of one; in all other cascades '
    'the form of every chopper collection is drawn at random (a list half of the time) and 30 % add one split '
    'program. Then 3 cascades with a pulse rectangle without extent: wavelength_min == wavelength_max, time_min '
    '== time_max, both, and the same up to 1..8 ulp (6 classes, 2 per slot alternating over the shards; 8 % of '
    'the random cascades), first chopper at 0 m, windows incl. exactly touching and zero-width ones (open == '
    'close; 3 % of all windows). '
    'Then 1 cascade with NON-MONOTONIC distances of FrameSequence.propagate_to / chop / sequence[distance] calls: 2-3 '
    'choppers, to the detector and back to a monitor in front of it (against one step), continuing from there '
    '(forward again to an existing / a new distance, one more chopper downstream), to a position between two '
    'choppers that were both applied, to a distance at which the sequence holds a frame already (an earlier '
    'chopper, the last one, the source), each followed by lookups on both sides of every inserted frame and by '
    'sequence[-1]. Then 1 cascade on result / argument ALIASING and IN-PLACE MODIFICATION: after every '
    'from_source_pulse / Frame.propagate_to / Frame.chop / FrameSequence.chop / FrameSequence.propagate_to / '
    'sequence[distance] call (windows of all classes, one containing a whole subframe) every array of the result, '
    'of the arguments and of the frame the call started from is written in place (and restored), one at a time, '
    'looking which other arrays of all frames obtained so far change with it; the arrays the result owns are left '
    'overwritten while the call is repeated on the very same arguments; scans with one position variable advanced '
    'in place (pos += step: float m, int m, mm) through sequence[pos], Frame / FrameSequence.propagate_to(pos); a '
    'chopper moved and re-timed in place and applied again; pulse arguments changed in place; ranges of N '
    'distances with N = 1, 2, number of vertices of the subframe -1 / +0 / +1; in 4 shards the first call '
    '(from_source_pulse / propagate_times / Frame.chop) in a fresh interpreter that imported only scipp, numpy and '
    'the module, compared bit for bit with the same calls in the worker. '
    'Then 1 cascade with ARRAYS of distances where a distance is documented (2-3 cutting choppers): '
    'sequence[distances] with entries on both sides of every chopper, around the last chopper only, all behind '
    'the last one, unsorted (smallest entry neither first nor always last), of length 1 and 2, two-dimensional '
    '(2x2, 1x3), in mm / cm, in sequences that hold propagated frames (detector behind, monitor between the '
    'choppers) -- a refusal is counted, an ANSWER is judged entry by entry by the simulator with the choppers '
    'at <= that entry, and every entry is also looked up alone; Frame.propagate_to / FrameSequence.propagate_to '
    'with 1-d (sorted, unsorted, length 1, other unit, entries in front of and behind the frame) and 2-d arrays: '
    'shear and transmission per entry. '
    'Every returned frame is judged with ~2000-4000 simulated neutrons; distinct = distinct (number of '
    'choppers, window classes, program shape, units, equal / near / ulp / source / behind / backward flags) '
    'signatures (+ pulse class); a cascade without choppers and without propagation is trivial'
)
ASSUMPTIONS = [
    'numpy long double (x87 80 bit) evaluates t_emit + d*lambda*m_n/h with error << 1e-15 relative',
    'h and m_n are the values scipp.constants exposes',
    'neutrons closer than 1e-9 (relative) to a window edge or to a polygon edge are undecided; a polygon '
    'shifted in time by less than ~3e-9 relative (a distance error below ~3e-9 d) is therefore invisible to '
    'the transmission monitor and only seen by the direct check of the distance the returned frame carries',
    'regularity of subframes (subbounds must not raise) is only claimed for forward propagation '
    '(non-decreasing distances)',
    'sets of measure zero are not judged: a window edge that only touches a polygon may or may not leave a '
    'zero-area subframe; chopper window times are given in seconds and all chopper distances of one list in '
    'one unit (other units make the code raise UnitError; units are not part of the property); one-ulp '
    'separations are only generated when frame and chopper distances are float64 metres (no conversion)',
    'pulse rectangles without extent in one direction (zero or <= 1e-13 relative; generated: 0 and 1..8 ulp): '
    'the transmitted set is a union of segments on the image of the pulse; a reported polygon covers the '
    'interval between its extreme vertices along that line; neutrons within 1e-9 (normalised) of an end of a '
    'reported segment are undecided, so are all neutrons if some reported vertex is more than 1e-9 off the line '
    '(plane test, counted); zero-length subframes carry no neutrons there. Pulse without any extent: a polygon '
    'whose vertices are all within 1e-9 of the neutron is the neutron',
    'the content of an iterable handed to FrameSequence.chop is what the harness put into it (recorded per '
    'object; iterators cannot be inspected without consuming them); a chop call with an iterable the harness '
    'did not record and that is not a list / tuple is counted and not judged',
    'mutable objects: fields are reassigned (chopper.distance = ..., chopper.time_open = ..., '
    'sequence.frames = ..., frame.distance / frame.subframes = equivalent values) and window arrays are '
    'written in place',
    'aliasing: a frame that was returned keeps reporting, bit for bit, what it reported when it was returned, '
    'whatever the caller later writes in place into arguments, into other results or into a variable it reuses; '
    'NOT judged (observed on the unchanged tree, counted as observed:shared_memory:*, reported to the '
    'maintainers): the pass-through of the data classes -- Frame.propagate_to / FrameSequence.propagate_to store '
    'the distance Variable they are given, a propagated frame passes the wavelength Variable of each subframe of '
    'the frame it started from on (only times are sheared), the frame chop returns carries the distance Variable '
    'of the chopper when no unit conversion is needed. After such a write by the workload only the polygons '
    '(time, wavelength) of the earlier frames are looked at again. Everything else that shares memory with a '
    'result is judged: polygons of a chopped frame with anything, times of a propagated frame with anything, the '
    'distance of a frame that sequence[distance] returns with the lookup argument',
    'sequence[distance] in a sequence whose frames are not sorted by distance is judged when every CHOPPER frame '
    'lies downstream of all frames the sequence held when the chopper was applied (propagated frames in any '
    'order): the neutrons at d went through the choppers at <= d. A chopper placed upstream of a position the '
    'beam was already propagated to (e.g. frames at 0, 6, 30, 8, 10 m with choppers at 6 and 10 m) is counted '
    'and not judged, and not generated; FrameSequence.propagate_to distances of sequences that are looked up are '
    'given in metres (the lookup compares frame distances with the requested one in m: other units make it '
    'raise UnitError; units are not part of the property)',
    'arrays of distances: sequence[distance] is documented for a distance; a lookup by an array that raises '
    '(any exception) is a counted refusal, never a violation; one that returns must hold, along the dims of the '
    'requested array, one polygon set per entry. Frame.propagate_to / FrameSequence.propagate_to with arrays must '
    'work (propagate_times documents a range of distances)',
    'fresh interpreter: the subprocess runs sys.executable with the sys.path of the worker; a subprocess that '
    'cannot import scipp / numpy is inconclusive, never a violation',
]
TECHNIQUE = ('runtime monitors (sys.monitoring) with per-frame ghost state (pulse + observed chopper history); '
             'independent neutron transmission simulator + long-double point-in-polygon; shear / clip / bounds '
             'reference checks at the call boundaries')
LEVEL_TEXT = ('exploration: every frame returned by chop / propagate_to / FrameSequence in hostile generated '
              'cascades is compared with an independent transmission simulation of ~2000-4000 neutrons (grid, pulse '
              'edges, pre-images of all window edges at +-3e-9, +-1e-6 and +-1e-4); the frame chop returns must '
              'carry the distance the chopper has at the time of the call; bounds and subbounds of every '
              'frame are compared with the observed vertices and must not raise; FrameSequence.chop must apply '
              'exactly the choppers handed in, whatever kind of iterable carries them, and give the frames of '
              'any split into several chop / propagate_to calls; pulses without extent are judged along the '
              'line their neutrons occupy; sequences with non-monotonic propagate / chop / lookup distances are '
              'judged at the frame each call returns; frames obtained earlier must not change when the caller '
              'writes in place into arguments or later results (write-and-check on every array). Sampling of a continuous '
              'input space: held on the decided neutrons / frames reported, not a proof.')
LEVEL_NOTE = ('trusted: numpy long double, the independent SI table, scipp containers, scipp.constants h and '
              'm_n; the polygons are read from the frames the code returns')
DESIGN_REF = 'DESIGN.md section 4, C11; section 6 item 7'
TIMEOUT_S = {'quick': 900, 'thorough': 3 * 3600}

LD = ts.LD
EPS = ts.EPS64
BAND = 1e-9
TOL_SAME = 1e-12
# neutrons at the pre-images of every window edge, offset by these relative amounts in time at the chopper.
# The smallest one sits just outside the undecided band: a polygon that is shifted in time by more than
# 3e-9 (relative) -- e.g. by a distance error of 3e-9 d -- misclassifies a decided neutron.
EDGE_OFFSETS = (3e-9, 1e-6, 1e-4)
WINDOW_CLASSES = ['cuts_low', 'cuts_high', 'cuts_both', 'contains', 'misses', 'touches_vertex']
# pulse rectangles without extent in wavelength / in time / in both, exactly and up to a few ulp
PULSE_CLASSES = ['mono', 'instant', 'point', 'near_mono', 'near_instant', 'near_point']
FORCED = ['window:' + c for c in WINDOW_CLASSES] + ['window:zero_width'] + [
    'zero_choppers', 'five_choppers', 'equal_distance_choppers', 'propagate_to_chopper_distance',
    'backward_propagation', 'chop_from_frame_at_chopper_distance', 'all_neutrons_blocked',
    'distance_range_propagation', 'adjacent_windows',
    'near_distance_choppers', 'one_ulp_apart', 'chopper_at_source_distance', 'chopper_slightly_behind_frame',
    'propagate_near_then_chop', 'sequence_propagate_then_chop',
    'mutable:same_chopper_at_two_frames', 'mutable:reassigned_chopper_distance',
    'mutable:reassigned_chopper_windows', 'mutable:chopper_windows_changed_in_place',
    'mutable:reassigned_frame_fields', 'mutable:reassigned_sequence_frames',
    'mutable:chopper_reused_in_second_cascade',
    'iterable:empty', 'program:chop_then_chop', 'program:chop_propagate_chop',
    'degenerate_pulse:chopper_at_source_distance', 'degenerate_pulse:window:touches_vertex',
    'degenerate_pulse:window:zero_width', 'degenerate_pulse:window:cuts_both',
] + ['pulse:' + c for c in PULSE_CLASSES] + [
    'sequence:backward_second_step', 'sequence:lookup_after_backward_step', 'sequence:continue_after_backward_step',
    'sequence:chop_after_backward_step', 'sequence:propagate_between_choppers',
    'sequence:propagate_to_existing_distance',
    'alias:frame_calls_probed', 'alias:sequence_calls_probed', 'alias:bounds_results_written',
    'inplace:lookup_distance_advanced', 'inplace:propagate_distance_advanced', 'inplace:chopper_fields_advanced',
    'inplace:pulse_arguments_changed', 'size:distance_range_as_long_as_the_vertex_axis', 'fresh_interpreter',
    'lookup_by_array:straddling_all_choppers', 'lookup_by_array:straddling_the_last_chopper',
    'lookup_by_array:all_behind_the_last_chopper', 'lookup_by_array:unsorted', 'lookup_by_array:length_1',
    'lookup_by_array:length_2', 'lookup_by_array:two_dimensional', 'lookup_by_array:other_unit',
    'lookup_by_array:sequence_with_propagated_frames',
    'propagate_to_array:Frame:two_dimensional', 'propagate_to_array:Frame:straddling_later_choppers',
    'propagate_to_array:Frame:unsorted', 'propagate_to_array:Frame:length_1', 'propagate_to_array:Frame:other_unit',
    'propagate_to_array:Frame:in_front_of_and_behind_the_frame', 'propagate_to_array:FrameSequence:one_dimensional',
    'propagate_to_array:FrameSequence:two_dimensional', 'propagate_to_array:FrameSequence:unsorted',
    'propagate_to_array:FrameSequence:length_1',
]


# ------------------------------------------------------------- conversions ---
def _in(var, unit):
    """Values of a scipp variable in ``unit`` as long double (own SI table)."""
    v = np.asarray(var.values).astype(LD)
    if var.unit == sc.Unit(unit):
        return v
    return v * si.factor(var.unit) / si.factor(sc.Unit(unit))


def _scalar(var, unit):
    return LD(_in(var, unit).reshape(-1)[0])


def _hex(x):
    return float(x).hex()


def _polys(frame, k=None):
    """[(time [s], wavelength [angstrom])] long double, one per subframe."""
    out = []
    for sub in frame.subframes:
        t = sub.time
        if k is not None:
            extra = [d for d in t.dims if d not in sub.wavelength.dims]
            t = t[extra[0], k]
        out.append((_in(t, 's'), _in(sub.wavelength, 'angstrom')))
    return out


def _chopper_model(ch):
    o = np.atleast_1d(_in(ch.time_open, 's')).ravel()
    c = np.atleast_1d(_in(ch.time_close, 's')).ravel()
    return ts.ChopperModel(_scalar(ch.distance, 'm'), o, c)


def _describe(pulse, hist, dist):
    return {
        'pulse': {'t0': _hex(pulse.t0), 't1': _hex(pulse.t1), 'l0': _hex(pulse.l0), 'l1': _hex(pulse.l1),
                  'repr': [repr(float(x)) for x in (pulse.t0, pulse.t1, pulse.l0, pulse.l1)]},
        'choppers': [{'distance_m': repr(float(c.distance)),
                      'open_s': [repr(float(x)) for x in c.t_open],
                      'close_s': [repr(float(x)) for x in c.t_close]} for c in hist],
        'frame_distance_m': [repr(float(x)) for x in np.ravel(dist)],
    }


def _vbytes(v):
    return (str(v.unit), str(v.dtype), tuple(v.shape), np.ascontiguousarray(v.values).tobytes())


def _snap(frame):
    """Everything a frame reports, bit for bit."""
    try:
        return {'distance': _vbytes(frame.distance),
                'time': tuple(_vbytes(sub.time) for sub in frame.subframes),
                'wavelength': tuple(_vbytes(sub.wavelength) for sub in frame.subframes)}
    except Exception:  # noqa: BLE001  (a frame the code under test built wrongly: judged elsewhere)
        return None


class Ghost:
    """What the trace knows about one Frame object."""

    __slots__ = ('frame', 'pulse', 'hist', 'monotone', 'dist', 'root', 'via_prop', 'maxabs_t', 'ids', 'snap')

    def __init__(self, frame, pulse, hist, monotone, dist, root, via_prop, maxabs_t, ids):
        self.frame = frame  # strong reference: id() stays unique
        self.snap = _snap(frame)  # the bytes the frame had when it was returned (and judged)
        self.pulse = pulse
        self.hist = hist  # tuple of ChopperModel
        self.monotone = monotone
        self.dist = dist  # long double array (0-d or 1-d), metres
        self.root = root
        self.via_prop = via_prop
        self.maxabs_t = maxabs_t
        self.ids = ids  # ids of the Chopper objects, in order of application


def _maxabs(polys):
    m = LD(0)
    for t, _ in polys:
        if t.size:
            m = max(m, np.max(np.abs(t)))
    return m


# ------------------------------------------------------------------ monitors ---
class Monitors:
    def __init__(self, ctx):
        self.ctx = ctx
        self.reset(None)
        self.n_grid = 40

    def reset(self, rng):
        self.rng = rng
        self.ghost: dict[int, Ghost] = {}
        self.models: dict[tuple, ts.ChopperModel] = {}  # values -> ChopperModel
        self.keep: list = []
        self.base_neutrons: dict[int, ts.Neutrons] = {}
        self.edge_neutrons: dict[tuple, ts.Neutrons] = {}
        self.same_target: dict[tuple, object] = {}
        self.program: list = []
        self.tags: set = set()
        self.irregular_seen = 0
        self.handed: dict[int, tuple] = {}  # id(iterable handed to FrameSequence.chop) -> (it, form, choppers)
        self.judged: set = set()  # (pulse, history, distance, polygon bytes) of frames judged already
        self.kinds: dict[int, str] = {}
        self.in_redo = False

    # -- ghost helpers -------------------------------------------------------
    def g(self, frame):
        return self.ghost.get(id(frame))

    def model(self, ch):
        """The chopper as it is NOW (Chopper is a mutable dataclass: nothing is remembered per object);
        models with bitwise equal values are shared so that their edge neutrons are generated once."""
        m = _chopper_model(ch)
        self.keep.append(ch)  # strong reference: id() stays unique within a cascade
        key = (_hex(m.distance), tuple(_hex(x) for x in m.t_open), tuple(_hex(x) for x in m.t_close))
        return self.models.setdefault(key, m)

    def kind(self, pulse):
        k = self.kinds.get(id(pulse))
        if k is None:
            k = self.kinds[id(pulse)] = ts.pulse_kind(pulse)
        return k

    def membership(self, kind, pulse, arr, lam, polys, d, tscale):
        """(inside, undecided, distance) of the points (arr, lam) w.r.t. the reported polygons.  Ordinary
        pulse: even-odd test in the plane, 1e-9 band around every polygon edge.  Pulse without extent in
        wavelength or in time: every neutron lies on one segment, the polygons are segments on that line;
        membership is judged along the line, 1e-9 band around the ends of every reported segment.  Pulse
        without any extent: a polygon within 1e-9 of the neutron's point is that point."""
        ctx = self.ctx
        if kind in ('mono', 'instant'):
            r = ts.on_segment(arr, lam, polys, ts.pulse_image_ends(pulse, kind, d), tscale, pulse.l1, BAND)
            if r is not None:
                ctx.event('transmission_along_line:' + kind)
                return r
            ctx.count('degenerate_pulse:polygon_vertex_off_the_line:plane_test_used')
        elif kind == 'point':
            ctx.event('transmission_at_point')
            return ts.at_point(arr, lam, polys, tscale, pulse.l1, BAND)
        return ts.in_polygons(arr, lam, polys, tscale, pulse.l1, BAND)

    def neutrons(self, pulse, hist):
        base = self.base_neutrons.get(id(pulse))
        if base is None:
            if self.kind(pulse) == 'point':
                base = ts.pulse_neutrons(pulse, self.rng, 2, 2)  # (all of them are the same neutron)
            else:
                base = ts.pulse_neutrons(pulse, self.rng, self.n_grid)
            self.base_neutrons[id(pulse)] = base
        out = base
        for c in hist:
            e = self.edge_neutrons.get((id(pulse), id(c)))
            if e is None:
                e = ts.edge_neutrons(pulse, c, self.rng, offsets=EDGE_OFFSETS)
                self.edge_neutrons[(id(pulse), id(c))] = e
            out = out.extended(e)
        return out

    # -- the central judgement -------------------------------------------------
    def judge_frame(self, frame, pulse, hist, dist, label):
        """transmitted <=> inside the union of polygons, for one returned frame."""
        ctx = self.ctx
        try:
            key = (id(pulse), tuple(id(c) for c in hist), tuple(_hex(x) for x in np.atleast_1d(dist)),
                   b''.join(np.ascontiguousarray(v.values).tobytes() for sub in frame.subframes
                            for v in (sub.time, sub.wavelength)), len(frame.subframes))
            if key in self.judged:
                # bit-identical to a frame of the same pulse behind the same choppers that was judged
                # (same pulse, same expected chopper history, same distance, same polygons: same verdict)
                ctx.count('transmission:identical_frame_judged_once')
                ctx.event('transmission:' + label)
                return
            self.judged.add(key)
            kind = self.kind(pulse)
            nt = self.neutrons(pulse, hist)
            passed, near_ch = ts.transmitted(nt.te, nt.lam, hist, BAND)
            dists = np.atleast_1d(dist)
            slices = [None] if np.ndim(dist) == 0 else list(range(len(dists)))
            for k, d in zip(slices, dists, strict=True):
                polys = _polys(frame, k)
                arr = ts.time_at(nt.te, nt.lam, d)
                tscale = max(_maxabs(polys), np.max(np.abs(arr)), LD(1e-300))
                inside, near_poly, mind = self.membership(kind, pulse, arr, nt.lam, polys, d, tscale)
                decided = ~near_ch & ~near_poly
                bad = decided & (passed != inside)
                ctx.count('neutrons_decided', int(decided.sum()))
                if kind != 'area':
                    ctx.count('neutrons_decided:degenerate_pulse', int(decided.sum()))
                    ctx.count('neutrons_decided_transmitted:degenerate_pulse', int((decided & passed).sum()))
                ctx.count('neutrons_decided_transmitted', int((decided & passed).sum()))
                ctx.count('undecided:window_edge_band', int(near_ch.sum()))
                ctx.count('undecided:polygon_edge_band', int((near_poly & ~near_ch).sum()))
                ctx.event('transmission:' + label)
                if decided.any() and polys and kind == 'area':
                    ctx.dev('closest_decided_neutron_to_polygon_edge(-log10)',
                            -float(np.log10(np.min(mind[decided]))))
                if not (decided & passed).any() and len(hist) > 0:
                    ctx.hit('all_neutrons_blocked')
                if bad.any():
                    i = int(np.flatnonzero(bad)[0])
                    direction = 'transmitted_but_outside_polygons' if passed[i] else 'blocked_but_inside_polygons'
                    case = _describe(pulse, hist, d)
                    case.update({'label': label, 'program': self.program, 'pulse_kind': kind,
                                 'neutron': {'t_emit': repr(float(nt.te[i])), 'lambda': repr(float(nt.lam[i])),
                                             't_emit_hex': _hex(nt.te[i]), 'lambda_hex': _hex(nt.lam[i]),
                                             'arrival': repr(float(arr[i])),
                                             'times_at_choppers': [repr(float(ts.time_at(nt.te[i], nt.lam[i], c.distance)))
                                                                   for c in hist],
                                             'distance_to_nearest_polygon_edge': float(mind[i])},
                                 'n_mismatch': int(bad.sum()), 'n_decided': int(decided.sum()),
                                 'polygons': [[[repr(float(x)) for x in t], [repr(float(x)) for x in w]]
                                              for t, w in polys[:6]]})
                    ctx.violation('transmission_mismatch',
                                  f'{label}: {int(bad.sum())} of {int(decided.sum())} decided neutrons {direction} '
                                  f'after {len(hist)} chopper(s)' + ('' if kind == 'area' else f' ({kind} pulse)'),
                                  case, direction=direction, where=label)
                self.judge_band(polys, pulse, hist, d, label)
        except Exception:  # noqa: BLE001
            ctx.oracle_error('C11 judge_frame ' + label)

    def judge_band(self, polys, pulse, hist, d, label):
        """Every vertex wavelength inside the source band up to rounding."""
        ctx = self.ctx
        tol = LD(8 * EPS * max(1, len(hist)))
        worst = LD(0)
        for _, w in polys:
            if w.size:
                worst = max(worst, np.max((pulse.l0 - w) / pulse.l0), np.max((w - pulse.l1) / pulse.l1))
        ctx.dev('vertex_outside_band[eps]', float(worst / EPS))
        ctx.event('wavelength_band')
        if worst > tol:
            case = _describe(pulse, hist, d)
            case['label'] = label
            ctx.violation('vertex_outside_wavelength_band',
                          f'{label}: vertex wavelength {float(worst / EPS):.3g} eps outside the source band '
                          f'(allowed {float(tol / EPS):.3g})', case, where=label)

    # -- from_source_pulse -------------------------------------------------------
    def on_source(self, ev):
        ctx = self.ctx
        a = ev.args
        if ev.exc is not None:
            ctx.violation('from_source_pulse_raised', f'{type(ev.exc).__name__}: {ev.exc}',
                          {'args': {k: repr(v) for k, v in a.items()}})
            return
        try:
            pulse = ts.Pulse(_scalar(a['time_min'], 's'), _scalar(a['time_max'], 's'),
                             _scalar(a['wavelength_min'], 'angstrom'), _scalar(a['wavelength_max'], 'angstrom'))
            f0 = ev.result.frames[0]
            polys = _polys(f0)
            ok = len(ev.result.frames) == 1 and len(polys) == 1 and polys[0][0].size == 4
            if ok:
                t, w = polys[0]
                want_t = np.array([pulse.t0, pulse.t1, pulse.t1, pulse.t0])
                want_w = np.array([pulse.l0, pulse.l0, pulse.l1, pulse.l1])
                err = max(np.max(np.abs(t - want_t)) / max(abs(pulse.t1), LD(1e-300)),
                          np.max(np.abs(w - want_w) / want_w))
                ctx.dev('source_rectangle_relerr[eps]', float(err / EPS))
                ok = err <= 4 * EPS and _scalar(f0.distance, 'm') == 0
            ctx.event('from_source_pulse')
            if not ok:
                ctx.violation('source_rectangle', 'initial frame is not the pulse rectangle at distance 0',
                              _describe(pulse, (), LD(0)))
            self.ghost[id(f0)] = Ghost(f0, pulse, (), True, LD(0), id(f0), False, _maxabs(polys), ())
        except Exception:  # noqa: BLE001
            ctx.oracle_error('C11 on_source')

    # -- Frame.propagate_to ---------------------------------------------------------
    def on_propagate(self, ev):
        ctx = self.ctx
        me = ev.args['self']
        g = self.g(me)
        if g is None:
            ctx.count('untracked_frame:propagate_to')
            return
        if ev.exc is not None:
            ctx.violation('propagate_to_raised', f'Frame.propagate_to raised {type(ev.exc).__name__}: {ev.exc}',
                          _describe(g.pulse, g.hist, g.dist), exc=type(ev.exc).__name__)
            return
        try:
            res = ev.result
            dist = _in(ev.args['distance'], 'm')
            dist = LD(dist) if dist.ndim == 0 else dist
            if np.ndim(g.dist) != 0:
                ctx.count('propagate_from_distance_range:not_judged')
                return
            if np.ndim(dist) >= 2:
                self.on_propagate_nd(ev, me, g, dist)
                return
            old = _polys(me)
            delta = np.atleast_1d(dist) - g.dist
            # reference shear in long double, 64 eps forward bound
            worst = 0.0
            same_w = len(res.subframes) == len(me.subframes)
            if same_w:
                for (t0, w0), sub in zip(old, res.subframes, strict=True):
                    t1 = _in(sub.time, 's')
                    w1 = _in(sub.wavelength, 'angstrom')
                    if not np.array_equal(w1, w0):
                        same_w = False
                        break
                    exp = t0[None, :] + delta[:, None] * ts.alpha() * w0[None, :]
                    got = t1 if t1.ndim == 2 else t1[None, :]
                    if t1.ndim == 2 and sub.time.dims[0] == sub.wavelength.dims[0]:
                        got = t1.T
                    if got.shape != exp.shape:
                        same_w = False
                        break
                    bound = 64 * EPS * (np.abs(t0)[None, :] + (np.abs(np.atleast_1d(dist))[:, None] + abs(g.dist))
                                        * ts.alpha() * w0[None, :])
                    with np.errstate(divide='ignore', invalid='ignore'):
                        r = np.where(bound > 0, np.abs(got - exp) / bound, np.where(got == exp, 0, np.inf))
                    if r.size:
                        worst = max(worst, float(np.max(r)))
            ctx.event('shear')
            ctx.dev('shear_error[units of the 64 eps bound]', worst)
            case = _describe(g.pulse, g.hist, dist)
            case['from_distance_m'] = repr(float(g.dist))
            if not same_w:
                ctx.violation('propagate_changed_shape', 'propagate_to changed wavelengths, vertex or subframe count',
                              case)
                return
            if worst > 1.0:
                ctx.violation('shear', f'propagate_to: vertex time off by {worst:.3g} x (64 eps bound) from '
                              't + (d_new - d_old) lambda m_n/h', case, monitor='shear')
            if _in(res.distance, 'm').shape != np.shape(dist) or np.any(_in(res.distance, 'm') != dist):
                ctx.violation('frame_distance', 'propagate_to result does not carry the requested distance', case)
            forward = bool(np.all(np.atleast_1d(dist) >= g.dist))
            if not forward:
                ctx.hit('backward_propagation')
            root = g.root if g.via_prop else id(me)
            mx = max(g.maxabs_t, _maxabs(_polys_flat(res)))
            ng = Ghost(res, g.pulse, g.hist, g.monotone and forward, dist, root, True, mx, g.ids)
            self.ghost[id(res)] = ng
            same = False
            if np.ndim(dist) == 0:
                same = self.judge_same_target(ng)
            else:
                ctx.hit('distance_range_propagation')
            if same:
                # bit-identical to a frame with the same history that was judged already
                ctx.count('transmission:identical_frame_judged_once')
            else:
                self.judge_frame(res, g.pulse, g.hist, dist, 'propagate_to')
        except Exception:  # noqa: BLE001
            ctx.oracle_error('C11 on_propagate')

    def on_propagate_nd(self, ev, me, g, dist):
        """Frame.propagate_to with an array of distances of two or more dimensions (one distance per pixel
        of a detector bank): the answer holds, entry by entry, the frame sheared to that distance."""
        ctx = self.ctx
        res = ev.result
        ddims = tuple(ev.args['distance'].dims)
        flat = dist.ravel()
        case = _describe(g.pulse, g.hist, flat)
        case.update({'from_distance_m': repr(float(g.dist)), 'distance_dims': list(ddims),
                     'distance_shape': list(dist.shape)})
        old = _polys(me)
        views = _entry_views(res, ddims, dist.shape)
        ctx.event('shear')
        ctx.event('shear:distances_of_two_or_more_dimensions')
        ok = views is not None and len(res.subframes) == len(me.subframes)
        worst = 0.0
        if ok:
            for k, view in enumerate(views):
                for (t0, w0), sub in zip(old, view.subframes, strict=True):
                    t1 = _in(sub.time, 's')
                    w1 = _in(sub.wavelength, 'angstrom')
                    if t1.shape != t0.shape or not np.array_equal(w1, w0):
                        ok = False
                        break
                    exp = t0 + (flat[k] - g.dist) * ts.alpha() * w0
                    bound = 64 * EPS * (np.abs(t0) + (abs(flat[k]) + abs(g.dist)) * ts.alpha() * w0)
                    with np.errstate(divide='ignore', invalid='ignore'):
                        r = np.where(bound > 0, np.abs(t1 - exp) / bound, np.where(t1 == exp, 0, np.inf))
                    if r.size:
                        worst = max(worst, float(np.max(r)))
                if not ok:
                    break
        if not ok:
            ctx.violation('propagate_changed_shape', 'propagate_to(array of distances) changed wavelengths, vertex '
                          'or subframe count, or the times are not laid out entry by entry', case)
            return
        ctx.dev('shear_error[units of the 64 eps bound]', worst)
        if worst > 1.0:
            ctx.violation('shear', f'propagate_to: vertex time off by {worst:.3g} x (64 eps bound) from '
                          't + (d_new - d_old) lambda m_n/h', case, monitor='shear')
        rd = _in(res.distance, 'm')
        if rd.shape != dist.shape or np.any(rd != dist):
            ctx.violation('frame_distance', 'propagate_to result does not carry the requested distance', case)
        forward = bool(np.all(flat >= g.dist))
        if not forward:
            ctx.hit('backward_propagation')
        root = g.root if g.via_prop else id(me)
        mx = max(g.maxabs_t, _maxabs(_polys_flat(res)))
        self.ghost[id(res)] = Ghost(res, g.pulse, g.hist, g.monotone and forward, dist, root, True, mx, g.ids)
        ctx.hit('distance_range_propagation')
        for k, view in enumerate(views):
            self.judge_frame(view, g.pulse, g.hist, LD(flat[k]), 'propagate_to')

    def judge_same_target(self, ng):
        """Frames reached from the same frame by propagate_to chains ending at the same
        distance are equal (1e-12 of the largest time on the way)."""
        ctx = self.ctx
        if self.in_redo:
            return False  # (the workload has overwritten the arrays of the frames obtained before: probe_alias)
        key = (ng.root, _hex(ng.dist))
        first = self.same_target.get(key)
        if first is None:
            self.same_target[key] = ng
            return False
        if first.frame is ng.frame:
            return True
        a, b = _polys(first.frame), _polys(ng.frame)
        scale = max(first.maxabs_t, ng.maxabs_t)
        ok = len(a) == len(b)
        worst = 0.0
        if ok:
            for (ta, wa), (tb, wb) in zip(a, b, strict=True):
                if ta.shape != tb.shape or not np.array_equal(wa, wb):
                    ok = False
                    break
                if ta.size and scale > 0:
                    worst = max(worst, float(np.max(np.abs(ta - tb)) / scale))
        ctx.event('two_step')
        ctx.dev('two_step_vs_one_step[rel]', worst)
        if not ok or worst > TOL_SAME:
            case = _describe(ng.pulse, ng.hist, ng.dist)
            ctx.violation('two_step_differs', f'propagate_to chains to the same distance differ by {worst:.3g} '
                          f'(allowed {TOL_SAME:g}) or in shape', case)
            return False
        return ok and worst == 0.0  # same root => same pulse and chopper history

    # -- Frame.chop -------------------------------------------------------------------
    def on_chop(self, ev):
        ctx = self.ctx
        me = ev.args['self']
        ch = ev.args['chopper']
        g = self.g(me)
        if g is None:
            ctx.count('untracked_frame:chop')
            return
        try:
            m = self.model(ch)
        except Exception:  # noqa: BLE001
            ctx.oracle_error('C11 chopper model')
            return
        case = _describe(g.pulse, (*g.hist, m), m.distance)
        case['from_distance_m'] = [repr(float(x)) for x in np.atleast_1d(g.dist)]
        if ev.exc is not None:
            if isinstance(ev.exc, ValueError) and np.ndim(g.dist) == 0 and m.distance < g.dist:
                ctx.count('refused:chopper_behind_frame')  # documented refusal
                return
            ctx.violation('chop_raised', f'Frame.chop raised {type(ev.exc).__name__}: {ev.exc}', case,
                          exc=type(ev.exc).__name__)
            return
        try:
            res = ev.result
            # the distance the frame itself reports (float64; the chopper's distance converted by the
            # code) is the observable; it must be the chopper distance up to the unit conversion
            d_obs = _scalar(res.distance, 'm')
            # bitwise when no unit conversion is involved, else up to the rounding of the conversion
            same_unit = res.distance.unit == ch.distance.unit
            ctx.event('chop_frame_distance')
            if abs(d_obs - m.distance) > (0 if same_unit else 4 * EPS * m.distance):
                case['reported_frame_distance_m'] = repr(float(d_obs))
                ctx.violation('frame_distance', 'chop result is not at the chopper distance '
                              f'(frame {float(d_obs)!r} m, chopper {float(m.distance)!r} m, frame before the call '
                              f'{[float(x) for x in np.atleast_1d(g.dist)]} m)', case)
            self.judge_cut_of_propagated(me, g, m, res, case)
            hist = (*g.hist, m)
            mx = max(g.maxabs_t, _maxabs(_polys(res)))
            forward = d_obs >= g.dist
            self.ghost[id(res)] = Ghost(res, g.pulse, hist, g.monotone and bool(forward), d_obs, id(res),
                                        False, mx, (*g.ids, id(ch)))
            if d_obs == g.dist:
                ctx.hit('chop_from_frame_at_chopper_distance')
            self.judge_frame(res, g.pulse, hist, d_obs, 'chop')
        except Exception:  # noqa: BLE001
            ctx.oracle_error('C11 on_chop')

    def judge_cut_of_propagated(self, me, g, m, res, case):
        """Clipping a convex polygon at vertical lines keeps vertices and adds points on edges: every
        vertex of the chopped frame lies on the boundary of a polygon of the frame the call started from,
        sheared (long double) to the chopper's distance.  Sharper than the neutron test for choppers that
        are nearly at the frame position (a skipped propagation moves vertices by delta_d lambda m_n/h)."""
        ctx = self.ctx
        if np.ndim(g.dist) != 0:
            return
        old = [(t, w) for t, w in _polys(me) if t.ndim == 1 and t.size]
        new = [(t, w) for t, w in _polys(res) if t.ndim == 1 and t.size]
        if not old or not new:
            return
        delta = m.distance - g.dist
        sheared = [(t + delta * ts.alpha() * w, w) for t, w in old]
        tscale = max(_maxabs(sheared), _maxabs(new), LD(1e-300))
        lscale = max(np.max(np.abs(w)) for _, w in sheared)
        worst = LD(0)
        for rt, rw in new:
            dd = np.min(np.stack([ts.boundary_distance(rt, rw, p, tscale, lscale) for p in sheared]), axis=0)
            worst = max(worst, np.max(dd))
        ctx.event('chop_vertices_on_propagated_frame')
        ctx.dev('chop_vertex_off_propagated_frame_boundary', float(worst))
        if worst > TOL_SAME:
            ctx.violation('chop_vertex_off_propagated_frame',
                          f'a vertex of the chopped frame is {float(worst):.3g} (normalised) away from the boundary '
                          f'of the frame propagated by {float(delta)!r} m to the chopper (allowed {TOL_SAME:g})', case)

    # -- _chop: clip geometry -------------------------------------------------------------
    def on_clip(self, ev):
        ctx = self.ctx
        if ev.exc is not None:
            return  # reported by the Frame.chop monitor
        try:
            sub = ev.args['frame']
            T = _scalar(ev.args['time'], 's')
            lower = bool(ev.args['close_to_open'])
            t = _in(sub.time, 's')
            w = _in(sub.wavelength, 'angstrom')
            if t.ndim != 1:
                return
            ins = t >= T if lower else t <= T
            res = ev.result
            ctx.event('_chop')
            case = {'time': [repr(float(x)) for x in t], 'wavelength': [repr(float(x)) for x in w],
                    'cut_at': repr(float(T)), 'keeps': 't >= cut' if lower else 't <= cut'}
            tscale = max(np.max(np.abs(t)), abs(T), LD(1e-300))
            margin = (t - T if lower else T - t) / tscale  # > 0: on the transmitted side
            if res is None:
                # a polygon that only touches the cut (measure zero) may be dropped or kept
                if (margin > BAND).any():
                    ctx.violation('clip_dropped_polygon', '_chop returned None although a vertex is clearly inside',
                                  case)
                return
            rt = _in(res.time, 's')
            rw = _in(res.wavelength, 'angstrom')
            case['result_time'] = [repr(float(x)) for x in rt]
            case['result_wavelength'] = [repr(float(x)) for x in rw]
            if (margin < -BAND).all():
                ctx.violation('clip_invented_polygon', '_chop returned a polygon although every vertex is clearly '
                              'outside', case)
                return
            lscale = np.max(np.abs(w))
            # (a) nothing on the wrong side of the cut
            excess = np.max((T - rt) if lower else (rt - T)) / tscale
            ctx.dev('clip_wrong_side[eps]', float(max(excess, 0) / EPS))
            if excess > 4 * EPS:
                ctx.violation('clip_wrong_side', f'_chop output has a vertex {float(excess):.3g} (relative) on the '
                              'blocked side of the cut', case, keeps=case['keeps'])
                return
            # (b) every output vertex lies on the boundary of the input polygon
            d = ts.boundary_distance(rt, rw, (t, w), tscale, lscale)
            ctx.dev('clip_vertex_off_input_boundary', float(np.max(d)))
            if np.max(d) > BAND:
                ctx.violation('clip_vertex_off_boundary', f'_chop output vertex is {float(np.max(d)):.3g} '
                              '(normalised) away from the boundary of the clipped polygon', case)
                return
            # (c) input vertices clearly inside are kept
            clear = margin > BAND
            if clear.any():
                dd = np.sqrt(((t[clear, None] - rt[None, :]) / tscale) ** 2
                             + ((w[clear, None] - rw[None, :]) / lscale) ** 2).min(axis=1)
                if np.max(dd) > 0:
                    ctx.violation('clip_lost_vertex', '_chop dropped or moved an input vertex that is inside', case)
                    return
            # mechanism fact (not judged): interpolation on a constant-wavelength edge is not exact
            n = len(t)
            for i in range(n):
                j = (i + 1) % n
                if ins[i] != ins[j] and w[i] == w[j]:
                    ctx.count('observed:cut_through_constant_wavelength_edge')
                    on_cut = rt == T
                    if not np.any(on_cut & (rw == w[i])):
                        ctx.count('observed:interpolated_wavelength_differs_on_constant_edge')
        except Exception:  # noqa: BLE001
            ctx.oracle_error('C11 on_clip')

    def on_is_regular(self, ev):
        if ev.exc is None:
            self.ctx.event('is_regular')
            if not ev.result:
                self.irregular_seen += 1

    # -- bounds / subbounds -----------------------------------------------------------------
    def _expected_bounds(self, frame):
        """Per subframe (tmin, tmax, wmin, wmax) from the observed vertices; tmin/tmax are
        arrays over the distance axis when the frame holds a range of distances."""
        out = []
        for sub in frame.subframes:
            t = _in(sub.time, 's')
            w = _in(sub.wavelength, 'angstrom')
            vdim = sub.wavelength.dims[0]
            ax = sub.time.dims.index(vdim)
            out.append((t.min(axis=ax), t.max(axis=ax), w.min(), w.max()))
        return out

    def on_subbounds(self, ev):
        ctx = self.ctx
        me = ev.args['self']
        g = self.g(me)
        if g is None:
            ctx.count('untracked_frame:subbounds')
            return
        if not me.subframes:
            ctx.count('empty_frame:subbounds_not_judged')
            return
        case = _describe(g.pulse, g.hist, g.dist)
        case['program'] = self.program
        if ev.exc is not None:
            try:
                cause, detail = irregularity_cause(me)
            except Exception:  # noqa: BLE001
                ctx.oracle_error('C11 irregularity_cause')
                return
            case['irregular_subframe'] = detail
            if not g.monotone and isinstance(ev.exc, NotImplementedError):
                # after a backward propagate_to the extreme time and wavelength need not coincide
                # (the statement about regularity is only meaningful for neutrons flying forward)
                ctx.count('backward_propagation:irregular_subframe_not_judged')
                return
            ctx.event('subbounds')
            ctx.violation('subbounds_raised',
                          f'Frame.subbounds raised {type(ev.exc).__name__} for a frame produced by chop/propagate_to '
                          f'after {len(g.hist)} chopper(s) (cause: {cause})', case,
                          exc=type(ev.exc).__name__, cause=cause)
            return
        try:
            exp = self._expected_bounds(me)
            res = ev.result
            ok = True
            for name, lo_i, hi_i, unit in (('time', 0, 1, 's'), ('wavelength', 2, 3, 'angstrom')):
                v = res[name]
                if 'subframe' not in v.dims or 'bound' not in v.dims or v.sizes['bound'] != 2 \
                        or v.sizes['subframe'] != len(exp):
                    ok = False
                    break
                for k, e in enumerate(exp):
                    lo = _in(v['subframe', k]['bound', 0], unit)
                    hi = _in(v['subframe', k]['bound', 1], unit)
                    if not (np.array_equal(lo, np.asarray(e[lo_i])) and np.array_equal(hi, np.asarray(e[hi_i]))):
                        ok = False
            ctx.event('subbounds')
            if not ok:
                ctx.violation('subbounds_value', 'subbounds() differs from min/max over the vertices', case)
        except Exception:  # noqa: BLE001
            ctx.oracle_error('C11 on_subbounds')

    def on_bounds(self, ev):
        ctx = self.ctx
        me = ev.args['self']
        g = self.g(me)
        if g is None:
            ctx.count('untracked_frame:bounds')
            return
        if not me.subframes:
            ctx.count('empty_frame:bounds_not_judged')
            return
        case = _describe(g.pulse, g.hist, g.dist)
        if ev.exc is not None:
            ctx.event('bounds')
            ctx.violation('bounds_raised', f'Frame.bounds raised {type(ev.exc).__name__}: {ev.exc}', case,
                          exc=type(ev.exc).__name__)
            return
        try:
            exp = self._expected_bounds(me)
            tlo = np.min(np.stack([np.asarray(e[0]) for e in exp]), axis=0)
            thi = np.max(np.stack([np.asarray(e[1]) for e in exp]), axis=0)
            wlo = min(e[2] for e in exp)
            whi = max(e[3] for e in exp)
            res = ev.result
            t, w = res['time'], res['wavelength']
            ok = ('bound' in t.dims and 'bound' in w.dims
                  and np.array_equal(_in(t['bound', 0], 's'), tlo) and np.array_equal(_in(t['bound', 1], 's'), thi)
                  and np.array_equal(_in(w['bound', 0], 'angstrom'), np.asarray(wlo))
                  and np.array_equal(_in(w['bound', 1], 'angstrom'), np.asarray(whi)))
            ctx.event('bounds')
            if not ok:
                ctx.violation('bounds_value', 'bounds() is not the hull of the per-subframe bounds', case)
        except Exception:  # noqa: BLE001
            ctx.oracle_error('C11 on_bounds')

    # -- FrameSequence ------------------------------------------------------------------------
    def on_seq_chop(self, ev):
        ctx = self.ctx
        seq = ev.args['self']
        given = ev.args['choppers']  # the object the caller handed in (read when the call started)
        h = self.handed.get(id(given))
        if h is not None and h[0] is given:
            # any iterable, possibly one that can be walked only once: the harness recorded its content
            form, chs = h[1], list(h[2])
        elif isinstance(given, list | tuple):
            form, chs = type(given).__name__, list(given)
        else:
            ctx.count('FrameSequence.chop:content_of_iterable_unknown:not_judged')
            return
        g = self.g(seq.frames[-1]) if seq.frames else None
        if g is None:
            ctx.count('untracked_frame:FrameSequence.chop')
            return
        try:
            ms = [self.model(c) for c in chs]
        except Exception:  # noqa: BLE001
            ctx.oracle_error('C11 chopper model')
            return
        case = _describe(g.pulse, (*g.hist, *ms), g.dist)
        case['listed_order_distances_m'] = [repr(float(m.distance)) for m in ms]
        case['choppers_handed_in_as'] = form
        case['program'] = self.program
        if ev.exc is not None:
            if isinstance(ev.exc, ValueError) and any(m.distance < g.dist for m in ms):
                ctx.count('refused:chopper_behind_frame')
                return
            ctx.event('FrameSequence.chop')
            ctx.violation('sequence_chop_raised', f'FrameSequence.chop({form}) raised {type(ev.exc).__name__}: '
                          f'{ev.exc}', case, exc=type(ev.exc).__name__, iterable=iterable_kind(form))
            return
        try:
            res = ev.result
            n0 = len(seq.frames)
            ok = len(res.frames) == n0 + len(chs) and all(a is b for a, b in zip(seq.frames, res.frames[:n0]))
            what = 'result does not extend the sequence by one frame per chopper'
            if ok:
                want = sorted(float(m.distance) for m in ms)
                got = [float(_scalar(f.distance, 'm')) for f in res.frames[n0:]]
                if len(got) != len(want) or any(abs(a - b) > 4 * EPS * b for a, b in zip(got, want, strict=True)):
                    ok, what = False, f'frame distances {got} are not the sorted chopper distances {want}'
            if ok and chs:
                gl = self.g(res.frames[-1])
                if gl is None or sorted(gl.ids[len(g.ids):]) != sorted(id(c) for c in chs):
                    ok, what = False, 'the last frame did not go through exactly the listed choppers (trace)'
            ctx.event('FrameSequence.chop')
            ctx.event('FrameSequence.chop:' + iterable_kind(form))
            if not ok:
                ctx.violation('sequence_chop_structure', f'FrameSequence.chop({form} of {len(chs)} choppers): ' + what,
                              case, iterable=iterable_kind(form))
                # the clause of the property itself: the last frame of the result against the choppers
                # that were handed in (not against the ones the trace saw being applied)
                last = res.frames[-1]
                gl = self.g(last)
                if gl is not None and np.ndim(gl.dist) == 0:
                    want_hist = (*g.hist, *sorted(ms, key=lambda m: m.distance))
                    self.judge_frame(last, g.pulse, want_hist, gl.dist, 'FrameSequence.chop')
        except Exception:  # noqa: BLE001
            ctx.oracle_error('C11 on_seq_chop')

    def recheck(self, frames, after, call, fields=('distance', 'time', 'wavelength')):
        """Frames obtained EARLIER still report, bit for bit, what they reported when they were returned
        (and judged): called by the workload after it wrote in place into an argument of the call that
        produced them, into the result of a later call, or into a variable it reuses between calls."""
        ctx = self.ctx
        for f in frames:
            g = self.g(f)
            if g is None or g.snap is None:
                ctx.count('untracked_frame:recheck')
                continue
            now = _snap(f)
            ctx.event('earlier_frame_rechecked')
            bad = [k for k in fields if now is None or now[k] != g.snap[k]]
            if bad:
                case = _describe(g.pulse, g.hist, g.dist)
                case.update({'program': self.program, 'after': after, 'fields_changed': bad,
                             'distance_when_returned': repr(np.frombuffer(g.snap['distance'][3],
                                                                          dtype=g.snap['distance'][1]).tolist()),
                             'distance_now': None if now is None else repr(
                                 np.frombuffer(now['distance'][3], dtype=now['distance'][1]).tolist())})
                ctx.violation('earlier_frame_changed',
                              f'a frame returned earlier by {call} changed ({", ".join(bad)}) after {after}',
                              case, call=call, field=bad[0])

    def on_seq_propagate(self, ev):
        ctx = self.ctx
        seq = ev.args['self']
        g = self.g(seq.frames[-1]) if seq.frames else None
        if g is None:
            ctx.count('untracked_frame:FrameSequence.propagate_to')
            return
        case = _describe(g.pulse, g.hist, g.dist)
        case['program'] = self.program
        if ev.exc is not None:
            ctx.violation('sequence_propagate_raised',
                          f'FrameSequence.propagate_to raised {type(ev.exc).__name__}: {ev.exc}', case,
                          exc=type(ev.exc).__name__)
            return
        try:
            res = ev.result
            n0 = len(seq.frames)
            ok = len(res.frames) == n0 + 1 and all(a is b for a, b in zip(seq.frames, res.frames[:n0]))
            dd = _in(ev.args['distance'], 'm')
            scalar = dd.ndim == 0 and np.ndim(g.dist) == 0
            d = _scalar(ev.args['distance'], 'm')
            if ok:
                gl = self.g(res.frames[-1])
                ok = gl is not None and gl.via_prop and gl.hist == g.hist and \
                    (gl.dist == d if scalar else np.array_equal(np.atleast_1d(gl.dist), np.atleast_1d(dd)))
            ctx.event('FrameSequence.propagate_to')
            if scalar:
                # the place of the new distance among the frames the sequence holds (any order is allowed:
                # behind all frames, in front of the last one, between two choppers, at an existing one)
                held = [x.dist for x in (self.g(f) for f in seq.frames) if x is not None and np.ndim(x.dist) == 0]
                if d < g.dist:
                    ctx.event('FrameSequence.propagate_to:backward')
                if any(d == x for x in held[:-1]):
                    ctx.event('FrameSequence.propagate_to:to_the_distance_of_an_earlier_frame')
            if not ok:
                ctx.violation('sequence_propagate_structure',
                              'FrameSequence.propagate_to did not append the last frame propagated to the distance',
                              case)
                # the clause itself: the frame the call returns as the last one of the sequence holds the
                # neutrons behind the choppers applied so far, at the requested distance
                if scalar and res.frames:
                    self.judge_frame(res.frames[-1], g.pulse, g.hist, d, 'FrameSequence.propagate_to')
        except Exception:  # noqa: BLE001
            ctx.oracle_error('C11 on_seq_propagate')

    def on_getitem(self, ev):
        ctx = self.ctx
        item = ev.args.get('item')
        seq = ev.args['self']
        if isinstance(item, int) and not isinstance(item, bool):
            # sequence[i]: the i-th frame the sequence holds (result[-1]: the frame the last call added)
            if ev.exc is None:
                ctx.event('getitem:index')
                if not (-len(seq.frames) <= item < len(seq.frames)) or ev.result is not seq.frames[item]:
                    ctx.violation('getitem_index', f'sequence[{item}] is not the frame at that place of the sequence',
                                  {'index': item, 'n_frames': len(seq.frames)})
            return
        if not isinstance(item, sc.Variable):
            return
        gs = [self.g(f) for f in seq.frames]
        if not gs or any(x is None for x in gs):
            ctx.count('untracked_frame:getitem')
            return
        try:
            dd = _in(item, 'm')
            if dd.size == 0:
                ctx.count('getitem:no_distance_requested:not_judged')
                return
            # (an array of distances: the preconditions are those of its smallest entry)
            d = LD(dd.min())
            ds = [x.dist for x in gs]
            if any(np.ndim(x) for x in ds) or d < ds[0]:
                ctx.count('getitem:unsorted_sequence_not_judged')
                return
            # Any order of PROPAGATED frames is judged (backward steps, a look between two choppers, a
            # distance that exists already): the neutrons at d went through the choppers at <= d.  That has
            # a meaning when every chopper was added downstream of all frames the sequence held by then;
            # a chopper placed upstream of a position the beam was already propagated to is not judged.
            run_max = ds[0]
            for x, dist in zip(gs[1:], ds[1:], strict=True):
                if not x.via_prop and dist < run_max:
                    ctx.count('getitem:chopper_upstream_of_an_earlier_frame:not_judged')
                    return
                run_max = max(run_max, dist)
            non_monotonic = any(b < a for a, b in zip(ds, ds[1:], strict=False))
            full = max(gs, key=lambda x: len(x.hist)).hist
            if any(x.hist != full[:len(x.hist)] for x in gs):
                ctx.count('getitem:frames_of_different_cascades:not_judged')
                return
            if dd.ndim > 0:
                self.getitem_array(ev, gs, full, item, dd)
                return
            if any(abs(c.distance - d) <= BAND * d for c in full):
                ctx.count('undecided:getitem_at_chopper_distance')
                if ev.exc is not None:
                    ctx.event('getitem')
                    ctx.violation('getitem_raised', f'sequence[distance] at a chopper position raised '
                                  f'{type(ev.exc).__name__}: {ev.exc}', {'distance': d}, exc=type(ev.exc).__name__)
                return
            hist = tuple(c for c in full if c.distance <= d)
            case = _describe(gs[0].pulse, hist, d)
            if ev.exc is not None:
                ctx.event('getitem')
                ctx.violation('getitem_raised', f'sequence[distance] raised {type(ev.exc).__name__}: {ev.exc}', case,
                              exc=type(ev.exc).__name__)
                return
            ctx.event('getitem')
            if non_monotonic:
                ctx.event('getitem:non_monotonic_sequence')
            case['program'] = self.program
            self.judge_frame(ev.result, gs[0].pulse, hist, d, 'getitem')
        except Exception:  # noqa: BLE001
            ctx.oracle_error('C11 on_getitem')

    def getitem_array(self, ev, gs, full, item, dd):
        """sequence[distances] with an ARRAY of distances (one per monitor / detector pixel; any number of
        dimensions, any order, any length).  The lookup is documented for a distance; a refusal (any
        exception) is counted.  An ANSWER is judged entry by entry exactly like the lookup of that entry
        alone: the polygons at entry k are the neutrons behind the choppers at <= distance k."""
        ctx = self.ctx
        ctx.event('getitem:array_of_distances')
        if ev.exc is not None:
            ctx.count('refused:lookup_by_array_of_distances')
            ctx.count('refused:lookup_by_array_of_distances:' + type(ev.exc).__name__)
            return
        ctx.event('getitem:array_of_distances:answered')
        res = ev.result
        flat = dd.ravel()
        case = _describe(gs[0].pulse, full, flat)
        case.update({'program': self.program, 'distance_dims': list(item.dims), 'distance_shape': list(dd.shape)})
        views = _entry_views(res, tuple(item.dims), dd.shape) if hasattr(res, 'subframes') else None
        if views is None:
            ctx.violation('getitem_array_structure', 'sequence[array of distances] returned something that does not '
                          'hold one set of polygons per requested distance', case)
            return
        rd = _in(res.distance, 'm')
        # (bitwise when no unit conversion is involved, else up to the rounding of the conversion)
        slack = 0 if res.distance.unit == item.unit else 4 * EPS
        if rd.shape != dd.shape or np.any(np.abs(rd - dd) > slack * np.abs(dd)):
            ctx.violation('frame_distance', 'sequence[array of distances]: the result does not carry the requested '
                          'distances', case)
        for k, view in enumerate(views):
            d = LD(flat[k])
            if any(abs(c.distance - d) <= BAND * d for c in full):
                ctx.count('undecided:getitem_at_chopper_distance')
                continue
            hist = tuple(c for c in full if c.distance <= d)
            ctx.event('getitem:array_of_distances:entry')
            self.judge_frame(view, gs[0].pulse, hist, d, 'getitem:array_of_distances')

    # -- harness-driven comparison of two chop orders ----------------------------------------------
    def judge_permutation(self, seq_a, seq_b, n0, cond, kind='order_dependence',
                          text='FrameSequence.chop depends on the listed order of the choppers', only_last=False,
                          event='permutation'):
        """Frames of two FrameSequence.chop runs over the same choppers: listed in different order /
        handed in as different kinds of iterable (kind 'order_dependence'), or applied by one chop call and
        by a sequence of chop / propagate_to calls (kind 'call_sequence_dependence'; ``only_last``: the
        sequences have different lengths, the final frames are compared)."""
        ctx = self.ctx
        try:
            tol = max(TOL_SAME, 64 * EPS * cond)
            worst = 0.0
            ok = only_last or len(seq_a.frames) == len(seq_b.frames)
            what = 'different number of frames'
            compared = 0
            if ok:
                pairs = ([(seq_a.frames[-1], seq_b.frames[-1])] if only_last
                         else zip(seq_a.frames[n0:], seq_b.frames[n0:], strict=True))
                for fa, fb in pairs:
                    ga, gb = self.g(fa), self.g(fb)
                    if ga is None or gb is None:
                        continue
                    if sorted(ga.ids) != sorted(gb.ids):
                        if only_last:
                            ok, what = False, 'the final frames did not go through the same choppers (trace)'
                            break
                        continue  # equal-distance choppers applied in the other order: compare later frames
                    if np.ndim(ga.dist) != 0 or ga.dist != gb.dist:
                        continue
                    # subframes of zero area (a window edge that only touches the polygon) carry no
                    # neutrons: whether they are reported may depend on the order, they are not compared
                    pa, pb = _polys(fa), _polys(fb)
                    sc_t = max(_maxabs(pa), _maxabs(pb), LD(1e-300))
                    na, nb = len(pa), len(pb)
                    # (frames of a pulse without extent in one direction consist of segments: there the
                    # subframes that carry no neutrons are the ones without length)
                    size = _area if self.kind(ga.pulse) == 'area' else _extent
                    pa = [p for p in pa if size(p, sc_t, ga.pulse.l1) > BAND]
                    pb = [p for p in pb if size(p, sc_t, ga.pulse.l1) > BAND]
                    ctx.count('permutation:zero_area_subframes_ignored', na - len(pa) + nb - len(pb))
                    compared += 1
                    if (len(pa) == 0) != (len(pb) == 0):
                        ok, what = False, 'one order blocks everything, the other does not'
                        break
                    if not pa:
                        continue
                    scale_t = max(_maxabs(pa), _maxabs(pb))
                    va = (np.concatenate([t for t, _ in pa]), np.concatenate([w for _, w in pa]))
                    vb = (np.concatenate([t for t, _ in pb]), np.concatenate([w for _, w in pb]))
                    h = float(ts.hausdorff_vertices(va, vb, scale_t, ga.pulse.l1))
                    worst = max(worst, h)
            if compared:
                ctx.event(event)
                ctx.dev('permuted_order_vertex_distance[normalised]', worst)
            if not ok or worst > tol:
                g = self.g(seq_a.frames[-1])
                case = _describe(g.pulse, g.hist, g.dist) if g else {}
                case['program'] = self.program
                ctx.violation(kind, text + ': '
                              + (what if not ok else f'vertices differ by {worst:.3g} (allowed {tol:.3g})'), case)
        except Exception:  # noqa: BLE001
            ctx.oracle_error('C11 judge_permutation')


def _area(poly, tscale, lscale):
    """Area of a polygon in the normalised plane (shoelace)."""
    x = poly[0] / LD(tscale)
    y = poly[1] / LD(lscale)
    return abs(np.sum(x * np.roll(y, -1) - np.roll(x, -1) * y)) / 2


def _extent(poly, tscale, lscale):
    """Largest extent of a polygon in the normalised plane."""
    return max(np.ptp(poly[0]) / LD(tscale), np.ptp(poly[1]) / LD(lscale))


# ----------------------------------------- the ways Python offers to hand over a collection ---
class _UserSequence:
    """Old sequence protocol only: __len__ and __getitem__ (no __iter__)."""

    def __init__(self, items):
        self._items = list(items)

    def __len__(self):
        return len(self._items)

    def __getitem__(self, i):
        return self._items[i]


class _UserIterable:
    """__iter__ only; a fresh iterator per call."""

    def __init__(self, items):
        self._items = list(items)

    def __iter__(self):
        return iter(list(self._items))


class _UserIterator:
    """An iterator object: __iter__ returns self, can be walked once."""

    def __init__(self, items):
        self._items = list(items)
        self._k = 0

    def __iter__(self):
        return self

    def __next__(self):
        if self._k >= len(self._items):
            raise StopIteration
        self._k += 1
        return self._items[self._k - 1]


def _generator_function(items):
    yield from items


def _identity(x):
    return x


def _always(x):
    return True


def _make_iterable(form, items):
    import collections
    import itertools

    items = list(items)
    if form == 'list':
        return list(items)
    if form == 'tuple':
        return tuple(items)
    if form == 'dict_values':
        return {f'chopper{k}': c for k, c in enumerate(items)}.values()
    if form == 'deque':
        return collections.deque(items)
    if form == 'user_sequence':
        return _UserSequence(items)
    if form == 'user_iterable':
        return _UserIterable(items)
    if form == 'generator_expression':
        return (c for c in items)
    if form == 'dict_items_generator':
        return (c for name, c in {f'chopper{k}': c for k, c in enumerate(items)}.items() if name != 'unused')
    if form == 'generator_function':
        return _generator_function(items)
    if form == 'filter':
        return filter(_always, items)
    if form == 'map':
        return map(_identity, items)
    if form == 'list_iterator':
        return iter(items)
    if form == 'tuple_iterator':
        return iter(tuple(items))
    if form == 'reversed':
        return reversed(items[::-1])
    if form == 'itertools_chain':
        return itertools.chain(items[:1], items[1:])
    if form == 'zip_generator':
        return (c for _, c in zip(range(len(items)), items, strict=True))
    if form == 'user_iterator':
        return _UserIterator(items)
    raise ValueError(form)


ITERABLE_FORMS = {
    'list': 'sequence', 'tuple': 'sequence', 'deque': 'sequence', 'user_sequence': 'sequence',
    'dict_values': 'reiterable', 'user_iterable': 'reiterable',
    'generator_expression': 'one_shot', 'dict_items_generator': 'one_shot', 'generator_function': 'one_shot',
    'filter': 'one_shot', 'map': 'one_shot', 'list_iterator': 'one_shot', 'tuple_iterator': 'one_shot',
    'reversed': 'one_shot', 'itertools_chain': 'one_shot', 'zip_generator': 'one_shot', 'user_iterator': 'one_shot',
}


FORCED += ['iterable:' + f for f in ITERABLE_FORMS]


def iterable_kind(form):
    return ITERABLE_FORMS.get(form, 'sequence')


def _polys_flat(frame):
    """Polygons with a possible distance axis flattened (only used for magnitudes)."""
    out = []
    for sub in frame.subframes:
        out.append((_in(sub.time, 's').ravel(), _in(sub.wavelength, 'angstrom')))
    return out


def _entry_views(frame, ddims, shape):
    """A frame that holds one polygon set per entry of an array of distances (dims ``ddims``, any number of
    them), as one view per entry (C order): objects with .subframes[k].time (1-d, along the vertex axis)
    and .wavelength.  None when a subframe's times are not laid out entry by entry."""
    out = []
    for idx in np.ndindex(*shape):
        subs = []
        for sub in frame.subframes:
            t = sub.time
            if any(d not in t.dims or t.sizes[d] != n for d, n in zip(ddims, shape, strict=True)):
                return None
            for d, i in zip(ddims, idx, strict=True):
                t = t[d, int(i)]
            if t.dims != sub.wavelength.dims:
                return None
            subs.append(SimpleNamespace(time=t, wavelength=sub.wavelength))
        out.append(SimpleNamespace(subframes=subs))
    return out


def irregularity_cause(frame):
    """Why is some subframe irregular?  Mechanism facts from the data:
    'wavelength_ulp_split' if the extreme wavelength sits at another vertex only because
    wavelengths that should be equal differ by <= 4 ulp; 'time_ulp_split' likewise for
    times; 'geometry' otherwise; 'none' if every subframe is regular."""
    for k, sub in enumerate(frame.subframes):
        t = np.asarray(sub.time.values, dtype=np.float64)
        w = np.asarray(sub.wavelength.values, dtype=np.float64)
        if t.ndim != 1:
            gmin = t == t.min()
            gmax = t == t.max()
            tmin_v = gmin.any(axis=0) if sub.time.dims[-1] == sub.wavelength.dims[0] else gmin.any(axis=1)
            tmax_v = gmax.any(axis=0) if sub.time.dims[-1] == sub.wavelength.dims[0] else gmax.any(axis=1)
            tt = None
        else:
            tmin_v, tmax_v, tt = t == t.min(), t == t.max(), t
        reg = (tmin_v & (w == w.min())).any() and (tmax_v & (w == w.max())).any()
        if reg:
            continue
        detail = {'index': k, 'time': [repr(float(x)) for x in t.ravel()],
                  'wavelength': [repr(float(x)) for x in w],
                  'wavelength_hex': [float(x).hex() for x in w]}
        wl = w <= w.min() * (1 + 4 * EPS)
        wh = w >= w.max() * (1 - 4 * EPS)
        if (tmin_v & wl).any() and (tmax_v & wh).any():
            return 'wavelength_ulp_split', detail
        if tt is not None:
            span = max(abs(tt.max()), abs(tt.min()))
            tl = tt <= tt.min() + 4 * EPS * span
            th = tt >= tt.max() - 4 * EPS * span
            if (tl & wl).any() and (th & wh).any():
                return 'time_ulp_split', detail
        return 'geometry', detail
    return 'none', {}


# ------------------------------------------------------------------ workload ---
T_UNITS = ['s', 'ms', 'us']
L_UNITS = ['angstrom', 'nm']
D_UNITS = ['m', 'mm', 'cm']


def _var(x_si, unit, si_unit):
    f = float(si.lookup(sc.Unit(unit))[0]) / float(si.lookup(sc.Unit(si_unit))[0])
    return sc.scalar(float(x_si) / f, unit=unit)


def _dist_var(rng, d_m, unit=None):
    r = rng.random()
    if unit in (None, 'm') and r < 0.2 and float(d_m).is_integer():
        return sc.scalar(int(d_m), unit='m')
    if unit is None:
        unit = 'm' if r < 0.6 else D_UNITS[int(rng.integers(0, 3))]
    return _var(d_m, unit, 'm')


def _extents(frame):
    ext = []
    for sub in frame.subframes:
        t = np.asarray(sub.time.values, dtype=np.float64)
        ext.append((float(t.min()), float(t.max()), t))
    return ext


def make_windows(rng, ctx, pre, fallback, forced_cls=None):
    """Windows built from the vertex times observed at the chopper position (frame ``pre``)."""
    ext = _extents(pre)
    n = int(rng.integers(1, 5))
    opens, closes, classes = [], [], []
    for k in range(n):
        if ext:
            if rng.random() < 0.5:
                ta, tb = min(e[0] for e in ext), max(e[1] for e in ext)
            else:
                e = ext[int(rng.integers(0, len(ext)))]
                ta, tb = e[0], e[1]
        else:
            ta, tb = fallback
        w = tb - ta if tb > ta else max(fallback[1] - fallback[0], 1e-4)
        cls = WINDOW_CLASSES[int(rng.integers(0, len(WINDOW_CLASSES)))]
        if rng.random() < 0.03:
            cls = 'zero_width'
        if forced_cls and k == 0:
            cls = forced_cls
        if cls == 'touches_vertex' and not ext:
            cls = 'misses'
        u = rng.uniform
        if cls == 'cuts_low':
            o, c = ta - u(0.05, 1) * w, ta + u(0.05, 0.95) * w
        elif cls == 'cuts_high':
            o, c = ta + u(0.05, 0.95) * w, tb + u(0.05, 1) * w
        elif cls == 'cuts_both':
            o = ta + u(0.05, 0.6) * w
            c = o + u(0.05, 0.9) * (tb - o if tb > o else w)
        elif cls == 'contains':
            o, c = ta - u(0.01, 1) * w, tb + u(0.01, 1) * w
        elif cls == 'misses':
            if rng.random() < 0.5:
                c = ta - u(0.05, 1) * w
                o = c - u(0.1, 1) * w
            else:
                o = tb + u(0.05, 1) * w
                c = o + u(0.1, 1) * w
        elif cls == 'zero_width':
            # a window without duration (open == close): inside the frame, or at an observed vertex time
            if ext and rng.random() < 0.3:
                e = ext[int(rng.integers(0, len(ext)))]
                o = c = float(e[2].ravel()[int(rng.integers(0, e[2].size))])
            else:
                o = c = ta + u(0.05, 0.95) * w
        else:  # touches_vertex: an edge equals an observed vertex time bit for bit
            allv = np.concatenate([e[2] for e in ext])
            e = ext[int(rng.integers(0, len(ext)))]
            tv = float(e[2][int(rng.integers(0, len(e[2])))])
            variant = int(rng.integers(0, 5))
            if variant == 0:
                o, c = tv, tv + u(0.05, 1.5) * w
            elif variant == 1:
                o, c = tv - u(0.05, 1.5) * w, tv
            elif variant == 2:
                tv2 = float(allv[int(rng.integers(0, len(allv)))])
                o, c = min(tv, tv2), max(tv, tv2)
            elif variant == 3:
                o, c = float(allv.min()) - u(0.05, 1) * w, float(allv.min())
            else:
                o, c = float(allv.max()), float(allv.max()) + u(0.05, 1) * w
        if k > 0 and cls != 'zero_width' and rng.random() < 0.2 and closes[-1] < c:
            o = closes[-1]  # window starting exactly where the previous one ends
            ctx.hit('adjacent_windows')
        if not o <= c:
            o, c = c, o
        opens.append(o)
        closes.append(c)
        classes.append(cls)
        ctx.hit('window:' + cls)
    return opens, closes, classes


DIST_MODES = ['forward', 'at_frame', 'equal_prev', 'near_above', 'near_below', 'source']


def _value_in(var, unit):
    """float value of a distance Variable expressed in ``unit`` (harness only)."""
    if str(var.unit) == unit:
        return float(var.value)
    return float(_scalar(var, 'm') / si.factor(sc.Unit(unit)))


def run_cascade(cc, mon, ctx, rng, forced):
    """One generated cascade: direct Frame calls, then the same choppers in situ."""
    prog = mon.program
    tu = T_UNITS[int(rng.integers(0, 3))]
    lu = L_UNITS[int(rng.integers(0, 2))]
    t0 = 0.0 if rng.random() < 0.5 else float(rng.uniform(0, 1e-3))
    dur = float(rng.uniform(1e-4, 5e-3))
    l0 = float(rng.uniform(0.1, 10.0))
    band = float(rng.uniform(0.5, 20.0))
    long_tof = bool(forced.get('long'))
    if long_tof:
        # cold neutrons, short pulse, far choppers: time of flight >> emission time, so that a distance
        # error delta_d shifts arrival times by ~ (delta_d / d) relative, far outside the 1e-9 band
        t0, dur = 0.0, float(rng.uniform(1e-4, 3e-3))
        l0, band = float(rng.uniform(2.0, 8.0)), float(rng.uniform(1.0, 10.0))
    # pulse rectangles without extent: monochromatic, instantaneous, a single point; nearly so (1..8 ulp)
    pk = forced.get('pulse')
    if pk is None and not long_tof and not forced and rng.random() < 0.08:
        pk = PULSE_CLASSES[int(rng.integers(0, len(PULSE_CLASSES)))]
    if pk is not None:
        if pk in ('instant', 'point'):
            dur = 0.0
        if pk in ('mono', 'point'):
            band = 0.0
        if pk in ('near_instant', 'near_point') and t0 == 0.0:
            t0 = float(rng.uniform(1e-4, 1e-3))  # (an ulp needs a magnitude)
    args = [_var(t0, tu, 's'), _var(t0 + dur, tu, 's'), _var(l0 * 1e-10, lu, 'm'), _var((l0 + band) * 1e-10, lu, 'm')]
    if pk is not None:
        def ulps_above(v):
            x = float(v.value)
            for _ in range(int(rng.integers(1, 9))):
                x = float(np.nextafter(x, np.inf))
            return sc.scalar(x, unit=v.unit)
        if pk in ('near_instant', 'near_point'):
            args[1] = ulps_above(args[0])
            dur = 0.0
        if pk in ('near_mono', 'near_point'):
            args[3] = ulps_above(args[2])
            band = 0.0
        ctx.hit('pulse:' + pk)
    prog.append(['from_source_pulse', [repr(a.value) + ' ' + str(a.unit) for a in args]])
    seq0 = cc.FrameSequence.from_source_pulse(*args)
    cur = seq0.frames[0]
    if mon.g(cur) is None:
        return None
    n_ch = forced.get('n_choppers')
    if n_ch is None:
        n_ch = int(rng.choice([0, 1, 2, 3, 4, 5], p=[0.06, 0.2, 0.24, 0.2, 0.15, 0.15]))
    if n_ch == 0:
        ctx.hit('zero_choppers')
    if n_ch == 5:
        ctx.hit('five_choppers')
    choppers, all_classes, flags = [], set(), set()
    if pk is not None:
        flags.add('pulse:' + pk)
    d_cur = 0.0
    dists_used = [0.0]
    # FrameSequence.chop sorts Variables: one distance unit per chopper list (propagate_to units vary)
    ch_unit = 'm' if rng.random() < 0.5 else D_UNITS[int(rng.integers(0, 3))]
    if forced.get('unit'):
        ch_unit = forced['unit']
    n_near = 0

    def relsep():
        """Relative separation of 'nearly equal' distances, 1e-12 .. 1e-4 (log-uniform; in the forced
        cascades a ladder over the shards, so that every decade occurs in every run)."""
        nonlocal n_near
        n_near += 1
        lad = forced.get('ladder')
        if lad is None:
            return 10.0 ** float(rng.uniform(-12.0, -4.0))
        return 10.0 ** (-12.0 + 8.0 * ((lad + 5 * (n_near - 1)) % 16) / 15.0)

    def bounds_of(frame):
        for fn in (frame.bounds, frame.subbounds):
            try:
                fn()
            except Exception:  # noqa: BLE001,S110  (judged by the monitors through PY_UNWIND)
                pass

    def pick_forward(lo, hi=150.0):
        lo = max(lo, 20.0 if long_tof else 1.0)
        if lo >= hi:
            return lo
        x = float(rng.uniform(lo, min(hi, lo + rng.choice([2.0, 20.0, 150.0]))))
        r = rng.random()
        if r < 0.25:
            x = round(x, 1)
        elif r < 0.4:
            x = float(round(x))
        if x < lo:
            x += 1.0
        while any(0 < abs(x - d) < 0.01 for d in dists_used):
            x += 0.013
        return x

    def propagate(x, unit=None):
        nonlocal cur, d_cur
        dv = x if isinstance(x, sc.Variable) else _dist_var(rng, x, unit)
        x = float(_scalar(dv, 'm'))
        prog.append(['propagate_to', repr(dv.value) + ' ' + str(dv.unit)])
        new = cur.propagate_to(dv)
        if rng.random() < 0.5:
            # a second route to the same distance (judged by the same-target monitor)
            a = float(rng.uniform(min(d_cur, x), max(d_cur, x))) if rng.random() < 0.7 else float(rng.uniform(0, 150))
            prog.append(['propagate_to x2', repr(a), repr(dv.value) + ' ' + str(dv.unit)])
            cur.propagate_to(sc.scalar(a, unit='m')).propagate_to(dv)
        cur = new
        d_cur = float(_scalar(cur.distance, 'm'))
        dists_used.append(d_cur)
        bounds_of(cur)

    def near(base, sign):
        """A distance Variable in the chopper unit next to ``base`` (a Variable): relative separation
        1e-12..1e-4, or exactly one ulp when everything is float64 metres; next to 0: 1e-12..1e-3 m."""
        v = _value_in(base, ch_unit)
        if v == 0.0:
            if sign < 0:
                return None
            return _var(10.0 ** float(rng.uniform(-12.0, -3.0)), ch_unit, 'm')
        all_m = ch_unit == 'm' and str(base.unit) == 'm' and str(cur.distance.unit) == 'm'
        want_ulp = forced.get('ulp') if 'ulp' in forced else rng.random() < 0.15
        if all_m and want_ulp:
            ctx.hit('one_ulp_apart')
            flags.add('ulp')
            return sc.scalar(float(np.nextafter(v, np.inf if sign > 0 else -np.inf)), unit='m')
        return sc.scalar(v * (1.0 + sign * relsep()), unit=ch_unit)

    modes = forced.get('modes') or []
    fwin = forced.get('windows') or []
    steps = n_ch
    for k in range(steps):
        # optional propagation before the chopper
        r = rng.random()
        if forced.get('no_prop'):
            pass
        elif r < 0.3:
            propagate(pick_forward(d_cur + 0.01))
            flags.add('prop')
        elif r < 0.36 and d_cur > 2:
            propagate(float(rng.uniform(0.0, d_cur - 0.5)))  # backward (acceptance-diagram style)
            flags.add('backward')
        # chopper distance: at the current frame distance (same Variable, bit for bit; 0 for the source
        # frame), equal to an earlier chopper (same Variable), next to the frame or to an earlier chopper
        # (double-disk choppers: relative separation 1e-12..1e-4 or one ulp), just *behind* the frame
        # (documented refusal), or further on by >= 0.01 m
        mode = modes[k] if k < len(modes) else None
        if mode is None:
            r = rng.random()
            mode = ('at_frame' if r < 0.15 else 'near_above' if r < 0.27 else 'near_below' if r < 0.30
                    else 'equal_prev' if r < 0.34 else 'forward')
            if forced.get('equal') and k == 1:
                mode = 'equal_prev'
        ahead = [c.distance for c in choppers if float(_scalar(c.distance, 'm')) >= d_cur]
        dv = None
        at_frame = False
        if mode == 'at_frame' and d_cur == 0.0 and k >= len(modes) and rng.random() < 0.7:
            mode = 'forward'  # (a chopper at the source position stays a rare case in random cascades)
        if mode in ('at_frame', 'source') and d_cur == 0.0:
            dv = sc.scalar(0.0, unit=ch_unit)
            ctx.hit('chopper_at_source_distance')
            flags.add('source')
        elif mode == 'at_frame' and str(cur.distance.unit) == ch_unit:
            dv = cur.distance.copy()
            at_frame = True
        elif mode == 'equal_prev' and ahead:
            dv = ahead[int(rng.integers(0, len(ahead)))].copy()
        elif mode == 'near_above':
            cands = [*ahead, cur.distance]
            dv = near(cands[int(rng.integers(0, len(cands)))], +1)
            ctx.hit('near_distance_choppers')
            flags.add('near')
        elif mode == 'near_below' and d_cur > 0:
            dv = near(cur.distance, -1)
            flags.add('behind')
        if dv is None:
            mode = 'forward'
            dv = _dist_var(rng, pick_forward(d_cur + 0.01), ch_unit)
            while any(0 < abs(float(_scalar(dv, 'm')) - x) < 0.01 for x in dists_used):
                dv = _dist_var(rng, float(_scalar(dv, 'm')) + 0.013, ch_unit)
        d = float(_scalar(dv, 'm'))
        if any(sc.identical(c.distance, dv) for c in choppers):
            ctx.hit('equal_distance_choppers')
            flags.add('equal')
        if pk is not None and d == 0.0:
            ctx.hit('degenerate_pulse:chopper_at_source_distance')
        if mode == 'forward' and (forced.get('prop_near') or rng.random() < 0.08):
            # propagate to just in front of the chopper, chop from there
            xb = sc.scalar(_value_in(dv, 'm') * (1.0 - relsep()), unit='m')
            if float(xb.value) > d_cur:
                propagate(xb)
                ctx.hit('propagate_near_then_chop')
                flags.add('prop_near')
        # the frame at the chopper position, observed: its vertex times define the windows
        pre = cur.propagate_to(dv)
        if at_frame:
            ctx.hit('propagate_to_chopper_distance')
        fc = fwin[k] if k < len(fwin) else (forced.get('window') if k == 0 else None)
        o, c, classes = make_windows(rng, ctx, pre, (t0 + d * 2.5e-4 * l0, t0 + dur + d * 2.5e-4 * (l0 + band)), fc)
        all_classes.update(classes)
        if pk is not None:
            for cl in classes:
                ctx.hit('degenerate_pulse:window:' + cl)
        ch = cc.Chopper(distance=dv, time_open=sc.array(dims=['slit'], values=o, unit='s'),
                        time_close=sc.array(dims=['slit'], values=c, unit='s'))
        choppers.append(ch)
        prog.append(['chop', mode, repr(dv.value) + ' ' + str(dv.unit), [repr(x) for x in o], [repr(x) for x in c],
                     classes])
        if mode == 'near_below':
            # the chopper is (slightly) in front of the frame: Frame.chop refuses with ValueError; it
            # still takes part in the FrameSequence.chop runs below, where it is sorted into place
            try:
                cur.chop(ch)
            except ValueError:
                ctx.hit('chopper_slightly_behind_frame')
            dists_used.append(d)
            continue
        start = pre if rng.random() < 0.3 else cur
        cur = start.chop(ch)
        d_cur = float(_scalar(cur.distance, 'm'))
        dists_used += [d, d_cur]
        bounds_of(cur)
    # propagate to a detector position (sometimes to a range of distances)
    if rng.random() < 0.75 or n_ch == 0:
        propagate(pick_forward(d_cur + 0.01))
        flags.add('prop')
    if forced.get('range') or rng.random() < 0.1:
        xs = sorted(float(x) for x in rng.uniform(max(d_cur, 1.0), 160.0, size=3))
        prog.append(['propagate_to range', [repr(x) for x in xs]])
        fr = cur.propagate_to(sc.array(dims=['distance'], values=xs, unit='m'))
        bounds_of(fr)
        flags.add('range')
    if forced.get('refusal') and d_cur > 2:
        try:
            cur.chop(cc.Chopper(distance=sc.scalar(d_cur / 2, unit='m'),
                                time_open=sc.array(dims=['slit'], values=[0.0], unit='s'),
                                time_close=sc.array(dims=['slit'], values=[1.0], unit='s')))
        except ValueError:
            pass

    # ---- in situ: the same choppers through FrameSequence.chop, listed and permuted ----
    forms = list(ITERABLE_FORMS)

    def hand(chs, form=None):
        """The choppers as the kind of iterable ``form`` (random: a list half of the time); what it
        contains is recorded for the FrameSequence.chop monitor (an iterator cannot be looked into)."""
        if form is None:
            form = 'list' if rng.random() < 0.5 else forms[int(rng.integers(0, len(forms)))]
        it = _make_iterable(form, chs)
        mon.handed[id(it)] = (it, form, list(chs))
        ctx.hit('iterable:' + form)
        prog.append(['FrameSequence.chop(' + form + ')', [repr(c.distance.value) + ' ' + str(c.distance.unit)
                                                          for c in chs]])
        return it

    def shuffled(chs):
        return [chs[i] for i in rng.permutation(len(chs))]

    if choppers:
        prog.append(['FrameSequence.chop', 'listed + permuted'])
        seq_a = seq0.chop(hand(choppers, 'list' if forced.get('iterables') else None))
        perm = list(rng.permutation(len(choppers)))
        if len(choppers) > 1 and perm == list(range(len(choppers))):
            perm = perm[::-1]
        seq_b = seq0.chop(hand([choppers[i] for i in perm]))
        ds = sorted({float(_scalar(c.distance, 'm')) for c in choppers})
        cond = 1.0
        for i, a in enumerate(ds):
            for b in ds[i + 1:]:
                cond = max(cond, b / (b - a))
        n0 = len(seq0.frames)
        mon.judge_permutation(seq_a, seq_b, n0, cond)
        if forced.get('iterables'):
            # every kind of iterable Python offers, each in its own order
            for form in forms:
                mon.judge_permutation(seq_a, seq0.chop(hand(shuffled(choppers), form)), n0, cond,
                                      event='permutation:iterable_forms')
            for form in ('list', 'tuple', 'generator_expression', 'list_iterator', 'user_iterator'):
                seq_a.chop(hand([], form))  # nothing to apply: the monitor demands an unchanged frame list
                ctx.hit('iterable:empty')
        # any sequence of chop / propagate_to calls: the choppers in two (three) calls, split by distance
        srt = sorted(choppers, key=lambda c: float(_scalar(c.distance, 'm')))
        n_split = 0
        if len(srt) >= 2 and forced.get('iterables'):
            n_split = 5
        elif len(srt) >= 2 and rng.random() < 0.3:
            n_split = 1
        txt = 'a sequence of FrameSequence.chop / propagate_to calls differs from one chop call with all choppers'
        for j in range(n_split):
            k = 1 + (j % (len(srt) - 1)) if forced.get('iterables') else int(rng.integers(1, len(srt)))
            f1, f2 = [('list', 'generator_expression'), ('generator_expression', 'list'),
                      ('filter', 'list_iterator'), ('tuple', 'user_iterator'),
                      ('dict_values', 'map')][j] if forced.get('iterables') else (None, None)
            if j % 2 == 0 or len(srt) < 3:
                two = seq0.chop(hand(shuffled(srt[:k]), f1)).chop(hand(shuffled(srt[k:]), f2))
                mon.judge_permutation(seq_a, two, n0, cond, kind='call_sequence_dependence', text=txt,
                                      event='call_sequence')
                ctx.hit('program:chop_then_chop')
            else:
                # three calls with a propagate_to in between (to the next chopper, or to half way)
                da, db = (float(_scalar(c.distance, 'm')) for c in (srt[k - 1], srt[k]))
                mid = srt[k].distance.copy() if (rng.random() < 0.5 and ch_unit == 'm') else \
                    sc.scalar(da + (db - da) / 2, unit='m')
                prog.append(['FrameSequence.propagate_to', repr(mid.value) + ' ' + str(mid.unit)])
                three = seq0.chop(hand(shuffled(srt[:k]), f1)).propagate_to(mid).chop(hand(shuffled(srt[k:]), f2))
                mon.judge_permutation(seq_a, three, n0, cond, kind='call_sequence_dependence', text=txt,
                                      only_last=True, event='call_sequence')
                ctx.hit('program:chop_propagate_chop')
        for f in seq_a.frames[1:]:
            bounds_of(f)
        x = pick_forward(ds[-1] + 0.01) if ds[-1] < 149 else ds[-1] + 1.0
        seq_c = seq_a.propagate_to(_dist_var(rng, x, 'm'))
        bounds_of(seq_c.frames[-1])
        for _ in range(2):
            q = float(rng.uniform(0.5, x))
            while any(abs(q - d) < 0.01 for d in ds):
                q += 0.013
            seq_c[_dist_var(rng, q)]
        # between and just behind choppers that are nearly at one position
        close = [(a, b) for a, b in zip(ds, ds[1:], strict=False) if b - a < 0.01]
        for a, b in close[:3]:
            seq_c[sc.scalar(a + (b - a) / 2, unit='m')]
            seq_c[sc.scalar(b * (1.0 + relsep()), unit='m')]
        # exact frame distances: the source itself and a chopper position (values there are undecided for
        # the neutrons that only this chopper blocks, but the lookup must work)
        try:
            seq_c[sc.scalar(0.0, unit='m')]
            seq_c[seq_c.frames[1].distance.copy()]
            seq_c[seq_c.frames[-1].distance.copy()]
            ctx.hit('getitem at an exact frame distance')
        except Exception:  # noqa: BLE001  judged by the monitor
            pass
        if forced.get('seq_prop') or rng.random() < 0.15:
            # sequence.propagate_to(position of the first chopper, exactly or just in front of it), then
            # all choppers, then lookups behind the choppers
            first = min(choppers, key=lambda c: float(_scalar(c.distance, 'm')))
            if ch_unit == 'm' and rng.random() < 0.5:
                dp = first.distance.copy()
            else:
                dp = sc.scalar(ds[0] * (1.0 - relsep()), unit='m')
            prog.append(['FrameSequence.propagate_to + chop', repr(dp.value) + ' ' + str(dp.unit)])
            seq_p = seq0.propagate_to(dp).chop(hand(choppers))
            ctx.hit('sequence_propagate_then_chop')
            flags.add('seq_prop')
            for a in (ds[0], ds[-1]):
                seq_p[sc.scalar(a * (1.0 + relsep()) if a > 0 else 1e-3, unit='m')]
            seq_p[sc.scalar(ds[-1] + float(rng.uniform(0.5, 20.0)), unit='m')]
    else:
        seq_c = seq0.propagate_to(_dist_var(rng, pick_forward(1.0), 'm'))
        seq_c[sc.scalar(0.5, unit='m')]
    sig = (n_ch, tuple(sorted(all_classes)), tuple(sorted(flags)), tu, lu, ch_unit)
    return sig, (n_ch == 0 and not flags)


def _arr(x):
    return sc.array(dims=['slit'], values=[float(v) for v in x], unit='s')


def run_mutable(cc, mon, ctx, rng, forced):
    """Frame, FrameSequence and Chopper are mutable dataclasses: public fields of live objects are
    reassigned (or, for the window arrays, changed in place) between calls, one Chopper object is used at
    several frames, in several sequences and in a second cascade with another pulse.  The monitors read
    the fields when the call returns: every call is judged against the values current at that call."""
    prog = mon.program
    u = rng.uniform

    def source():
        t0 = 0.0 if rng.random() < 0.5 else float(u(0, 1e-3))
        dur, l0, band = float(u(1e-4, 5e-3)), float(u(0.5, 8.0)), float(u(1.0, 10.0))
        tu = T_UNITS[int(rng.integers(0, 3))]
        args = (_var(t0, tu, 's'), _var(t0 + dur, tu, 's'), _var(l0 * 1e-10, 'angstrom', 'm'),
                _var((l0 + band) * 1e-10, 'angstrom', 'm'))
        prog.append(['from_source_pulse', [repr(a.value) + ' ' + str(a.unit) for a in args]])
        return cc.FrameSequence.from_source_pulse(*args), (t0, t0 + dur + 0.04 * (l0 + band))

    def windows(pre, fallback, cls):
        o, c, _ = make_windows(rng, ctx, pre, fallback, cls)
        return _arr(o), _arr(c)

    def bounds_of(frame):
        for fn in (frame.bounds, frame.subbounds):
            try:
                fn()
            except Exception:  # noqa: BLE001,S110  (judged by the monitors)
                pass

    def step(what, ch):
        prog.append([what, repr(ch.distance.value) + ' ' + str(ch.distance.unit),
                     [repr(float(x)) for x in ch.time_open.values], [repr(float(x)) for x in ch.time_close.values]])

    seq0, fb = source()
    src = seq0.frames[0]
    if mon.g(src) is None:
        return None
    d1 = float(u(5.0, 40.0))
    dv1 = sc.scalar(d1, unit='m')
    o, c = windows(src.propagate_to(dv1), fb, 'cuts_both')
    ch = cc.Chopper(distance=dv1, time_open=o, time_close=c)
    step('chop', ch)
    f1 = src.chop(ch)
    # the same Chopper object at another frame, nothing changed
    step('chop (same object, other frame)', ch)
    src.propagate_to(sc.scalar(d1 * float(u(0.2, 0.9)), unit='m')).chop(ch)
    ctx.hit('mutable:same_chopper_at_two_frames')
    # distance reassigned (far behind, or a double-disk distance behind), windows kept
    d2 = d1 + float(u(0.5, 30.0)) if rng.random() < 0.6 else d1 * (1.0 + 10.0 ** float(u(-9.0, -4.0)))
    ch.distance = sc.scalar(d2, unit='m')
    step('chopper.distance = ...; chop', ch)
    f2 = f1.chop(ch)
    ctx.hit('mutable:reassigned_chopper_distance')
    bounds_of(f2)
    # distance and both window arrays reassigned
    d3 = d2 + float(u(0.5, 30.0))
    dv3 = sc.scalar(d3, unit='m')
    o, c = windows(f2.propagate_to(dv3), fb, 'cuts_low')
    ch.distance, ch.time_open, ch.time_close = dv3, o, c
    step('chopper.distance, time_open, time_close = ...; chop', ch)
    f3 = f2.chop(ch)
    ctx.hit('mutable:reassigned_chopper_windows')
    bounds_of(f3)
    # window values changed in place (same Variable objects): n windows across the frame at d4
    d4 = d3 + float(u(0.5, 30.0))
    dv4 = sc.scalar(d4, unit='m')
    ext = _extents(f3.propagate_to(dv4))
    ta, tb = (min(e[0] for e in ext), max(e[1] for e in ext)) if ext else fb
    n = len(ch.time_open.values)
    w = (tb - ta) if tb > ta else 1e-3
    ch.distance = dv4
    ch.time_open.values = np.array([ta + w * (k + u(0.1, 0.4)) / n for k in range(n)])
    ch.time_close.values = np.array([ta + w * (k + u(0.5, 0.9)) / n for k in range(n)])
    step('chopper.time_open.values[:] = ...; chop', ch)
    f4 = f3.chop(ch)
    ctx.hit('mutable:chopper_windows_changed_in_place')
    bounds_of(f4)
    # Frame fields reassigned without changing what the frame means (a fresh distance Variable, the
    # subframes in another order), then used
    f4.distance = sc.scalar(float(f4.distance.value), unit='m')
    f4.subframes = list(reversed(f4.subframes))
    prog.append(['frame.distance = copy; frame.subframes = reversed; propagate_to'])
    f5 = f4.propagate_to(sc.scalar(d4 + float(u(0.5, 20.0)), unit='m'))
    ctx.hit('mutable:reassigned_frame_fields')
    bounds_of(f4)
    bounds_of(f5)
    # FrameSequence: chop with [other, ch], then change ch and chop again with the same object; lookups
    d5 = d4 + float(u(1.0, 20.0))
    o, c = windows(src.propagate_to(dv1), fb, 'cuts_both')
    ch.distance, ch.time_open, ch.time_close = sc.scalar(d1, unit='m'), o, c
    o, c = windows(src.chop(ch).propagate_to(sc.scalar(d5, unit='m')), fb, 'cuts_high')
    other = cc.Chopper(distance=sc.scalar(d5, unit='m'), time_open=o, time_close=c)
    step('FrameSequence.chop([other, chopper])', ch)
    seq1 = seq0.chop([other, ch])
    d6 = d5 + float(u(0.5, 20.0))
    dv6 = sc.scalar(d6, unit='m')
    o, c = windows(seq1.frames[-1].propagate_to(dv6), fb, 'cuts_both')
    ch.distance, ch.time_open, ch.time_close = dv6, o, c
    step('chopper changed; FrameSequence.chop([chopper])', ch)
    seq2 = seq1.chop([ch])
    for q in (float(u(d1 + 0.02, d5 - 0.01)), float(u(d5 + 0.02, d6 - 0.01)), d6 + float(u(0.5, 20.0))):
        seq2[sc.scalar(q, unit='m')]
    # the frame list of a live sequence reassigned (last frame dropped): later calls start from the
    # current last frame
    seq2.frames = seq2.frames[:-1]
    prog.append(['sequence.frames = sequence.frames[:-1]; chop, propagate_to, [distance]'])
    seq3 = seq2.chop([ch]).propagate_to(sc.scalar(d6 + float(u(0.5, 20.0)), unit='m'))
    seq3[sc.scalar(float(u(d5 + 0.02, d6 - 0.01)), unit='m')]
    seq2[sc.scalar(d6 + 1.0, unit='m')]
    ctx.hit('mutable:reassigned_sequence_frames')
    # the same Chopper objects in a second cascade with another pulse
    seq_b, _ = source()
    seq_b2 = seq_b
    if mon.g(seq_b.frames[0]) is not None:
        step('second pulse: FrameSequence.chop([chopper, other]); Frame.chop(chopper)', ch)
        seq_b2 = seq_b.chop([ch, other])
        seq_b2[sc.scalar(d6 + float(u(0.5, 20.0)), unit='m')]
        ch.distance = sc.scalar(float(u(1.0, 5.0)), unit='m')
        fb1 = seq_b.frames[0].chop(ch)
        bounds_of(fb1)
        ctx.hit('mutable:chopper_reused_in_second_cascade')
    return ('mutable', len(f4.subframes) > 0, len(seq_b2.frames[-1].subframes) > 0), False


# ------------------------------------- non-monotonic sequences of propagate / chop / lookup ---
def _source(cc, mon, rng):
    u = rng.uniform
    t0 = 0.0 if rng.random() < 0.5 else float(u(0, 1e-3))
    dur, l0, band = float(u(1e-4, 5e-3)), float(u(0.5, 8.0)), float(u(1.0, 10.0))
    tu = T_UNITS[int(rng.integers(0, 3))]
    lu = L_UNITS[int(rng.integers(0, 2))]
    args = [_var(t0, tu, 's'), _var(t0 + dur, tu, 's'), _var(l0 * 1e-10, lu, 'm'), _var((l0 + band) * 1e-10, lu, 'm')]
    mon.program.append(['from_source_pulse', [repr(a.value) + ' ' + str(a.unit) for a in args]])
    return cc.FrameSequence.from_source_pulse(*args), args, (t0, t0 + dur + 0.04 * (l0 + band))


def _bounds_of(frame):
    for fn in (frame.bounds, frame.subbounds):
        try:
            fn()
        except Exception:  # noqa: BLE001,S110  (judged by the monitors)
            pass


def _cascade(cc, mon, ctx, rng, seq0, fb, n_ch, unit, classes, gap=(3.0, 25.0)):
    """n_ch choppers, each further on by ``gap`` metres, first window of the given class (built from the
    vertex times observed at the chopper position); applied one by one with Frame.chop."""
    cur = seq0.frames[0]
    d = 0.0
    choppers, frames = [], []
    for k in range(n_ch):
        d += float(rng.uniform(*gap))
        dv = _var(d, unit, 'm')
        o, c, _ = make_windows(rng, ctx, cur.propagate_to(dv.copy()), fb, classes[k % len(classes)])
        ch = cc.Chopper(distance=dv, time_open=_arr(o), time_close=_arr(c))
        mon.program.append(['chop', repr(dv.value) + ' ' + str(dv.unit), [repr(x) for x in o], [repr(x) for x in c]])
        cur = cur.chop(ch)
        choppers.append(ch)
        frames.append(cur)
    return choppers, frames


def run_nonmonotone(cc, mon, ctx, rng, forced):
    """'Any sequence of chop / propagate calls': the distances of FrameSequence.propagate_to / chop /
    sequence[distance] calls in NON-MONOTONIC order -- to the detector and then back to a monitor in front of
    it, to a position between two choppers that were applied already, to a distance at which the sequence
    holds a frame already (a chopper, the source), continuing from such sequences with propagate_to, chop
    and lookups.  Every frame a call returns (the last one of the sequence; the one a lookup yields) is
    judged by the simulator with the choppers at <= that distance."""
    prog = mon.program
    u = rng.uniform
    seq0, _, fb = _source(cc, mon, rng)
    if mon.g(seq0.frames[0]) is None:
        return None
    n_ch = 2 + int(rng.integers(0, 2))
    unit = 'm' if rng.random() < 0.6 else D_UNITS[int(rng.integers(0, 3))]
    classes = [['cuts_both', 'contains', 'cuts_high'], ['cuts_low', 'cuts_both', 'contains'],
               ['contains', 'cuts_high', 'cuts_both']][int(rng.integers(0, 3))]
    choppers, _ = _cascade(cc, mon, ctx, rng, seq0, fb, n_ch, unit, classes)
    ds = [float(_scalar(c.distance, 'm')) for c in choppers]
    seq = seq0.chop(list(choppers))

    def dvar(x):
        # (metres: sequence[distance] compares the distances of the frames with the requested one in m)
        return _dist_var(rng, x, 'm')

    def look(s, q):
        prog.append(['sequence[distance]', repr(q)])
        try:
            return s[_dist_var(rng, q)]
        except Exception:  # noqa: BLE001  judged by the monitor
            return None

    def step(s, x, what):
        dv = x if isinstance(x, sc.Variable) else dvar(x)
        prog.append(['FrameSequence.propagate_to (' + what + ')', repr(dv.value) + ' ' + str(dv.unit)])
        out = s.propagate_to(dv)
        _bounds_of(out[-1])
        return out

    # (A) to the detector, then back to a monitor in front of it; one step to the monitor
    far = ds[-1] + float(u(5.0, 40.0))
    near = float(u(ds[-1] + 0.5, far - 0.5))
    near_v = dvar(near)
    s_far = step(seq, far, 'detector')
    s1 = step(s_far, near_v.copy(), 'back to a monitor')
    step(seq, near_v.copy(), 'monitor in one step')
    ctx.hit('sequence:backward_second_step')
    for q in (u(near + 0.01, far - 0.01), far + u(0.5, 10.0), u(ds[-1] + 0.01, near - 0.01),
              u(ds[0] + 0.02, ds[1] - 0.02), u(0.01, ds[0] - 0.02)):
        look(s1, float(q))
    s1[near_v.copy()]
    ctx.hit('sequence:lookup_after_backward_step')
    # (B) continuing from there: forward again (to a distance that exists / a new one), one more chopper
    step(s1, s_far[-1].distance.copy(), 'forward again, to the distance of an earlier frame')
    s1c = step(s1, far + float(u(0.5, 10.0)), 'forward again')
    look(s1c, float(u(near + 0.01, far - 0.01)))
    ctx.hit('sequence:continue_after_backward_step')
    d4 = far + float(u(11.0, 30.0))
    dv4 = _var(d4, unit, 'm')
    o, c, _ = make_windows(rng, ctx, s1[-1].propagate_to(dv4.copy()), fb, 'cuts_both')
    ch4 = cc.Chopper(distance=dv4, time_open=_arr(o), time_close=_arr(c))
    prog.append(['FrameSequence.chop after a backward step', repr(dv4.value) + ' ' + str(dv4.unit),
                 [repr(x) for x in o], [repr(x) for x in c]])
    s1d = s1.chop([ch4])
    _bounds_of(s1d[-1])
    for q in (u(far + 0.01, d4 - 0.01), d4 + u(0.5, 10.0), u(near + 0.01, far - 0.01)):
        look(s1d, float(q))
    ctx.hit('sequence:chop_after_backward_step')
    # (C) a look at the beam between two choppers that were both applied
    k = int(rng.integers(0, n_ch - 1))
    mid = float(u(ds[k] + 0.5, ds[k + 1] - 0.5))
    mid_v = dvar(mid)
    s2 = step(seq, mid_v.copy(), 'between two choppers')
    s2[mid_v.copy()]
    for q in (u(ds[k] + 0.01, mid - 0.01), u(mid + 0.01, ds[k + 1] - 0.01), ds[-1] + u(0.5, 10.0)):
        look(s2, float(q))
    s2b = step(s2, ds[-1] + float(u(0.5, 30.0)), 'on to the detector')
    look(s2b, float(u(mid + 0.01, ds[k + 1] - 0.01)))
    ctx.hit('sequence:propagate_between_choppers')
    # (D) to a distance at which the sequence holds a frame already: a chopper that is not the last one,
    # the last one, the source
    j = int(rng.integers(0, n_ch - 1))
    s3 = step(seq, seq[1 + j].distance.copy(), 'to the distance of an earlier chopper')
    for q in (ds[j] * (1.0 + 10.0 ** float(u(-7.0, -3.0))), u(ds[j] + 0.01, ds[j + 1] - 0.01),
              ds[-1] + u(0.5, 10.0)):
        look(s3, float(q))
    s4 = step(seq, seq[-1].distance.copy(), 'to the distance of the last chopper')
    look(s4, ds[-1] + float(u(0.5, 10.0)))
    s5 = step(seq, sc.scalar(0.0, unit='m'), 'to the distance of the source')
    for q in (u(0.01, ds[0] - 0.02), u(ds[0] + 0.02, ds[1] - 0.02), ds[-1] + u(0.5, 10.0)):
        look(s5, float(q))
    s5[sc.scalar(0.0, unit='m')]
    ctx.hit('sequence:propagate_to_existing_distance')
    for s in (s1, s2, s3, s5):
        s[-1]
        s[len(s) - 1]
    seq[0]
    return ('non_monotonic', n_ch, unit, tuple(classes), len(seq[-1].subframes) > 0), False


# ------------------------------------------------- arrays of distances where a distance is documented ---
ARRAY_LOOKUP_CLASSES = ['straddling_all_choppers', 'straddling_the_last_chopper', 'all_behind_the_last_chopper',
                        'unsorted', 'length_1', 'length_2', 'two_dimensional', 'other_unit',
                        'sequence_with_propagated_frames']
ARRAY_PROPAGATE_CLASSES = ['Frame:two_dimensional', 'Frame:straddling_later_choppers', 'Frame:unsorted',
                           'Frame:length_1', 'Frame:other_unit', 'Frame:in_front_of_and_behind_the_frame',
                           'FrameSequence:one_dimensional', 'FrameSequence:two_dimensional',
                           'FrameSequence:unsorted', 'FrameSequence:length_1']


def run_arrays(cc, mon, ctx, rng, forced):
    """ARRAYS of distances (one per monitor / detector pixel) where the documentation speaks of a distance:
    sequence[distances], FrameSequence.propagate_to(distances), Frame.propagate_to(distances) -- entries on
    both sides of choppers, all behind the last one, unsorted, of length 1 and 2, two-dimensional, in
    another unit.  A lookup may be refused (counted); whatever is ANSWERED is judged entry by entry by the
    simulator with the choppers at <= that entry's distance (lookup) / with the choppers the propagated frame
    went through (propagate_to), and every entry is looked up alone as well."""
    prog = mon.program
    u = rng.uniform
    seq0, _, fb = _source(cc, mon, rng)
    if mon.g(seq0.frames[0]) is None:
        return None
    n_ch = 2 + int(rng.integers(0, 2))
    unit = 'm' if rng.random() < 0.6 else D_UNITS[int(rng.integers(0, 3))]
    classes = [['cuts_both', 'cuts_high', 'cuts_low'], ['cuts_low', 'cuts_both', 'cuts_high'],
               ['cuts_high', 'cuts_both', 'cuts_both']][int(rng.integers(0, 3))]
    choppers, _ = _cascade(cc, mon, ctx, rng, seq0, fb, n_ch, unit, classes, gap=(4.0, 25.0))
    ds = [float(_scalar(c.distance, 'm')) for c in choppers]
    seq = seq0.chop(list(choppers))
    far = ds[-1] + float(u(8.0, 40.0))
    seq_d = seq.propagate_to(_dist_var(rng, far, 'm'))
    front = float(u(0.05, ds[0] - 0.05))
    between = [float(u(ds[k] + 0.05, ds[k + 1] - 0.05)) for k in range(n_ch - 1)]
    behind = sorted(float(x) for x in u(ds[-1] + 0.05, far - 0.05, size=2))
    beyond = far + float(u(0.5, 20.0))
    dim_names = ['distance', 'detector_number', 'pixel', 'x']

    def arr(xs, dims=None, dunit='m'):
        a = np.asarray(xs, dtype=float)
        if dims is None:
            dims = [dim_names[int(rng.integers(0, len(dim_names)))]] if a.ndim == 1 else ['row', 'column'][:a.ndim]
        f = float(si.lookup(sc.Unit(dunit))[0])
        return sc.array(dims=dims, values=a / f, unit=dunit)

    def look(s, var, cls):
        """The array lookup, then every entry alone (same float64 value, same unit)."""
        prog.append(['sequence[array of distances] (' + cls + ')', list(var.dims), repr(var.values.tolist()),
                     str(var.unit)])
        try:
            s[var.copy()]
        except Exception:  # noqa: BLE001,S110  (a refusal: counted by the monitor)
            pass
        for x in var.values.ravel():
            try:
                s[sc.scalar(float(x), unit=var.unit)]
            except Exception:  # noqa: BLE001,S110  (judged by the monitor)
                pass
        ctx.hit('lookup_by_array:' + cls)

    everywhere = [front, *between, behind[0], beyond]
    look(seq, arr(everywhere), 'straddling_all_choppers')
    look(seq, arr([between[-1], behind[1]]), 'straddling_the_last_chopper')
    look(seq, arr([behind[0], behind[1], beyond]), 'all_behind_the_last_chopper')
    perm = [everywhere[i] for i in rng.permutation(len(everywhere))]
    if perm[0] == min(perm):
        perm = perm[::-1]  # (neither the first nor the last entry is special: both orders occur over the shards)
    look(seq, arr(perm), 'unsorted')
    look(seq, arr([beyond, front]), 'length_2')
    for x in (front, between[0], behind[0]):
        look(seq, arr([x]), 'length_1')
    grid = [[front, behind[1]], [between[0], beyond]] if rng.random() < 0.5 else \
        [[beyond, between[-1]], [behind[0], front]]
    look(seq, arr(grid), 'two_dimensional')
    look(seq, arr([[behind[0], behind[1], beyond]]), 'two_dimensional')
    look(seq, arr(everywhere, dunit=['mm', 'cm'][int(rng.integers(0, 2))]), 'other_unit')
    # the sequence holds propagated frames as well (detector behind the choppers; a monitor between two)
    look(seq_d, arr([between[0], behind[0], beyond]), 'sequence_with_propagated_frames')
    seq_m = seq.propagate_to(sc.scalar(between[0], unit='m'))
    look(seq_m, arr([beyond, front, between[0] + 0.01]), 'sequence_with_propagated_frames')

    # propagate_to with arrays: the frame behind the first chopper / the last frame of the sequence
    def prop(obj, var, cls, bounds=True):
        prog.append([cls.split(':')[0] + '.propagate_to(array of distances)', list(var.dims),
                     repr(var.values.tolist()), str(var.unit)])
        out = obj.propagate_to(var)
        if bounds:
            _bounds_of(out[-1] if isinstance(out, cc.FrameSequence) else out)
        ctx.hit('propagate_to_array:' + cls)
        return out

    f1 = seq[1]
    d1 = ds[0]
    later = [d1 + 0.05, *between, behind[0], beyond]
    prop(f1, arr([[later[0], later[-1]], [later[1], later[-2]]]), 'Frame:two_dimensional', bounds=False)
    prop(f1, arr([[x] for x in later[:3]]), 'Frame:two_dimensional', bounds=False)
    prop(f1, arr(later), 'Frame:straddling_later_choppers')
    prop(f1, arr(later[::-1]), 'Frame:unsorted')
    prop(f1, arr([later[1]]), 'Frame:length_1')
    prop(f1, arr(later, dunit=['mm', 'cm'][int(rng.integers(0, 2))]), 'Frame:other_unit')
    prop(f1, arr([front, later[1]]), 'Frame:in_front_of_and_behind_the_frame')
    prop(seq, arr([behind[0], behind[1], beyond]), 'FrameSequence:one_dimensional')
    prop(seq, arr([[behind[0], beyond], [behind[1], far]]), 'FrameSequence:two_dimensional', bounds=False)
    prop(seq, arr([beyond, behind[0], far]), 'FrameSequence:unsorted')
    prop(seq, arr([behind[1]]), 'FrameSequence:length_1')
    return ('arrays_of_distances', n_ch, unit, tuple(classes), len(seq[-1].subframes) > 0), False


# ------------------------------------------- aliasing of results and arguments (write and check) ---
def _poke(v, arr):
    if v.ndim == 0:
        v.value = np.asarray(arr).reshape(()).item()
    else:
        v.values = arr


def _frame_items(frame):
    out = [('distance', frame.distance)]
    for sub in frame.subframes:
        out.append(('time', sub.time))
        out.append(('wavelength', sub.wavelength))
    return out


_PROPAGATE_CALLS = ('Frame.propagate_to', 'FrameSequence.propagate_to', 'sequence[distance]')
_CHOP_CALLS = ('Frame.chop', 'FrameSequence.chop')


def probe_alias(mon, ctx, call, before, new_frames, args, inputs=(), redo=None):
    """After ``call`` returned ``new_frames``: write in place into every array of the result, into every
    argument Variable (``args``: name -> Variable) and into every array of the frames that were arguments
    (``inputs``), one at a time, and look which OTHER arrays (of all frames the trace has seen in this
    cascade, of the arguments) changed with it; the written array is restored each time.  Sharing that
    involves the result is a violation (``before``: the frames the trace knew before the call -- frames the
    call made on the way and did not return are nobody's), except the documented pass-through of the data classes, which is
    counted: Frame.propagate_to stores the distance Variable it is given and passes the wavelength Variable
    of each subframe on (only times are sheared); the frame chop returns carries the chopper's distance
    Variable when no unit conversion is needed.  Then the arrays of the result that are its own are left
    overwritten, the call is repeated with the very same arguments and must give the original result."""
    try:
        new_ids = {id(f) for f in new_frames}
        in_ids = {id(f) for f in inputs}
        uni = []  # (owner, field, Variable)
        for i, f in enumerate(new_frames):
            uni += [(('new', i), fld, v) for fld, v in _frame_items(f)]
        for gid, g in mon.ghost.items():
            if gid not in new_ids and gid in before:
                uni += [(('input' if gid in in_ids else 'old', gid), fld, v) for fld, v in _frame_items(g.frame)]
        for name, v in args.items():
            uni.append((('arg', name), name, v))
        views = [np.asarray(v.values) for _, _, v in uni]  # live views of the buffers
        base = [a.copy() for a in views]

        owner_of = np.repeat(np.arange(len(views)), [a.size for a in views])
        flat = lambda: np.concatenate([a.ravel().astype(np.float64) for a in views])  # noqa: E731
        flat0 = flat()

        def differing(skip=-1):
            return {int(j) for j in np.unique(owner_of[flat() != flat0]) if j != skip}

        targets = [i for i, (o, _, _) in enumerate(uni) if o[0] in ('new', 'arg', 'input')]
        changed = {}
        for ti in targets:
            v = uni[ti][2]
            try:
                _poke(v, base[ti] + 1)
            except Exception:  # noqa: BLE001  (a read-only variable: nothing can be written through it)
                ctx.count('alias_probe:array_not_writable')
                continue
            hit = np.array_equal(np.asarray(v.values), base[ti] + 1)
            now = differing(skip=ti)
            _poke(v, base[ti])
            if not hit:
                ctx.count('alias_probe:write_without_effect')
                continue
            changed[ti] = now
        if differing():
            ctx.inconclusive_because('alias probe could not restore the arrays it wrote to')
            return
        ctx.event('alias_probe:' + call)
        ctx.count('alias_probe:arrays_written', len(changed))
        # groups of arrays that share memory, seen from the result
        pairs = set()
        for ti, ch in changed.items():
            for j in ch:
                a, b = uni[ti], uni[j]
                if a[0][0] == 'new' or b[0][0] == 'new':
                    pairs.add((ti, j) if a[0][0] == 'new' else (j, ti))

        def partners(i):
            return {j for (a, j) in pairs if a == i} | {a for (a, j) in pairs if j == i}

        for i, j in sorted(pairs):
            (own_i, fld_i, _), (own_j, fld_j, _) = uni[i], uni[j]
            if own_j[0] == 'new' and j < i and (j, i) in pairs:
                continue  # both arrays belong to the result: reported once
            with_what = ('argument:' + ('chopper.' + fld_j.split('.')[-1] if fld_j.startswith('chopper') else fld_j)
                         if own_j[0] == 'arg' else
                         'frame_the_call_started_from.' + fld_j if own_j[0] == 'input' else
                         'earlier_frame.' + fld_j if own_j[0] == 'old' else
                         ('another_frame_of_the_result.' if own_j != own_i else 'another_array_of_the_same_frame.')
                         + fld_j)
            known = None
            if call in _PROPAGATE_CALLS and fld_i == 'wavelength' and fld_j == 'wavelength' \
                    and own_j[0] in ('input', 'old'):
                known = 'propagated_frame_passes_the_wavelength_variable_on'
            elif call in _PROPAGATE_CALLS[:2] and fld_i == 'distance':
                arg_shared = any(uni[x][0] == ('arg', 'distance') for x in partners(i))
                if arg_shared and (own_j[0] == 'arg' or fld_j == 'distance'):
                    known = 'propagated_frame_stores_the_distance_variable_it_is_given'
            elif call in _CHOP_CALLS and fld_i == 'distance':
                arg_shared = any(uni[x][0][0] == 'arg' and uni[x][1].endswith('.distance') for x in partners(i))
                if arg_shared and ((own_j[0] == 'arg' and fld_j.endswith('.distance')) or fld_j == 'distance'):
                    known = 'chopped_frame_carries_the_distance_variable_of_the_chopper'
            if known:
                ctx.count('observed:shared_memory:' + known)
                continue
            f = new_frames[own_i[1]]
            g = mon.g(f)
            case = _describe(g.pulse, g.hist, g.dist) if g else {}
            case.update({'program': mon.program, 'call': call, 'result_array': fld_i, 'shares_memory_with': with_what,
                         'frame_of_the_result': own_i[1], 'other_frame': (
                             _describe(mon.ghost[own_j[1]].pulse, mon.ghost[own_j[1]].hist, mon.ghost[own_j[1]].dist)
                             if own_j[0] in ('old', 'input') else None),
                         'other_frame_made_by': (('propagate_to' if mon.ghost[own_j[1]].via_prop else 'chop / source')
                                                 if own_j[0] in ('old', 'input') else None)})
            ctx.violation('result_shares_memory',
                          f'{call}: the {fld_i} array of the returned frame shares memory with {with_what}: an '
                          'in-place write to one changes the other', case, call=call, field=fld_i,
                          shares_with=with_what.split('.')[0])
        if redo is None:
            return
        # arrays the result owns alone are overwritten and left so while the call is repeated
        own = [ti for ti in targets if uni[ti][0][0] == 'new' and ti in changed and not changed[ti]]
        want = [_snap(f) for f in new_frames]
        saved = {ti: base[ti] for ti in own}
        for ti in own:
            _poke(uni[ti][2], saved[ti] + 1)
        mon.in_redo = True
        try:
            again = redo()
        finally:
            mon.in_redo = False
            for ti in own:
                _poke(uni[ti][2], saved[ti])
        ctx.event('repeated_call_after_overwriting_the_result')
        got = [_snap(f) for f in again]
        if got != want:
            g = mon.g(new_frames[-1])
            case = _describe(g.pulse, g.hist, g.dist) if g else {}
            case.update({'program': mon.program, 'call': call})
            ctx.violation('repeated_call_differs',
                          f'{call} repeated on the very same arguments, after the caller overwrote the arrays of the '
                          'first result, does not give the first result again', case, call=call)
    except Exception:  # noqa: BLE001
        ctx.oracle_error('C11 probe_alias ' + call)


_FRESH_PROGRAM = r"""
def program(cc, sc, np, p):
    f = float.fromhex

    def dump(frame):
        return {"distance": [float(x).hex() for x in np.atleast_1d(frame.distance.values)],
                "unit": str(frame.distance.unit),
                "subframes": [[[float(x).hex() for x in s.time.values.ravel()],
                               [float(x).hex() for x in s.wavelength.values.ravel()]] for s in frame.subframes]}

    def group(dg):
        return {k: [float(x).hex() for x in dg[k].values.ravel()] for k in ("time", "wavelength")}

    def chopper(c):
        return cc.Chopper(distance=sc.scalar(f(c["d"]), unit=c["unit"]),
                          time_open=sc.array(dims=["slit"], values=[f(x) for x in c["open"]], unit="s"),
                          time_close=sc.array(dims=["slit"], values=[f(x) for x in c["close"]], unit="s"))

    out = {}
    first = p["first"]
    if first == "propagate_times":
        out["first"] = [float(x).hex() for x in cc.propagate_times(
            sc.array(dims=["vertex"], values=[f(x) for x in p["pt"][0]], unit="s"),
            sc.array(dims=["vertex"], values=[f(x) for x in p["pt"][1]], unit="angstrom"),
            sc.scalar(f(p["pt"][2]), unit="m")).values]
    elif first == "Frame.chop":
        fr = cc.Frame(distance=sc.scalar(0.0, unit="m"), subframes=[cc.Subframe(
            time=sc.array(dims=["vertex"], values=[f(x) for x in p["pt"][0]], unit="s"),
            wavelength=sc.array(dims=["vertex"], values=[f(x) for x in p["pt"][1]], unit="angstrom"))])
        out["first"] = dump(fr.chop(chopper(p["choppers"][0])))
    seq = cc.FrameSequence.from_source_pulse(*[sc.scalar(f(v), unit=u) for v, u in p["pulse"]])
    seq = seq.chop([chopper(c) for c in p["choppers"]])
    out["frames"] = [dump(x) for x in seq.frames]
    seq = seq.propagate_to(sc.scalar(f(p["detector"]), unit="m"))
    out["detector"] = dump(seq[-1])
    out["lookup"] = dump(seq[sc.scalar(f(p["lookup"]), unit="m")])
    out["bounds"] = group(seq[-1].bounds())
    out["subbounds"] = group(seq[-1].subbounds())
    return out
"""
_FRESH_SCRIPT = ('import json, sys\nimport numpy as np\nimport scipp as sc\nprint("READY", flush=True)\n'
                 'from scippneutron.tof import chopper_cascade as cc\n' + _FRESH_PROGRAM
                 + '\nprint("RESULT " + json.dumps(program(cc, sc, np, json.loads(sys.argv[1]))), flush=True)\n')
FRESH_FIRST_CALLS = ('from_source_pulse', 'propagate_times', 'Frame.chop')


def run_fresh_interpreter(cc, mon, ctx, rng, which):
    """The first call of an entry point in a fresh interpreter that imported nothing but scipp, numpy and the
    module of the entry point gives, bit for bit, what the same calls give in this (long-running, fully
    imported) process, where the monitors judge them."""
    import json
    import os
    import subprocess
    import sys
    u = rng.uniform
    hx = lambda x: float(x).hex()  # noqa: E731
    t0, dur, l0, band = float(u(0, 1e-3)), float(u(5e-4, 4e-3)), float(u(0.5, 6.0)), float(u(2.0, 10.0))
    pulse = [(hx(t0), 's'), (hx(t0 + dur), 's'), (hx(l0), 'angstrom'), (hx(l0 + band), 'angstrom')]
    a = float(ts.alpha())
    d1, d2 = float(u(4.0, 12.0)), float(u(15.0, 30.0))
    c1 = {'d': hx(d1), 'unit': 'm', 'open': [hx(t0 + a * d1 * (l0 + 0.2 * band))],
          'close': [hx(t0 + dur + a * d1 * (l0 + 0.8 * band))]}
    c2 = {'d': hx(d2), 'unit': 'm', 'open': [hx(t0 + a * d2 * (l0 + 0.3 * band))],
          'close': [hx(t0 + dur / 2 + a * d2 * (l0 + 0.6 * band))]}
    rect_t = [hx(t0), hx(t0 + dur), hx(t0 + dur), hx(t0)]
    rect_w = [hx(l0), hx(l0), hx(l0 + band), hx(l0 + band)]
    p = {'first': which, 'pulse': pulse, 'choppers': [c1, c2], 'detector': hx(d2 + float(u(5.0, 40.0))),
         'lookup': hx(float(u(d1 + 0.5, d2 - 0.5))), 'pt': [rect_t, rect_w, hx(d1)]}
    mon.program.append(['fresh interpreter', p])
    env = dict(os.environ)
    env['PYTHONPATH'] = os.pathsep.join(x for x in sys.path if x)
    try:
        r = subprocess.run([sys.executable, '-c', _FRESH_SCRIPT, json.dumps(p)], env=env,  # noqa: S603
                           capture_output=True, text=True, timeout=300, check=False)
    except Exception:  # noqa: BLE001
        ctx.oracle_error('C11 fresh interpreter could not be started')
        return
    if 'READY' not in r.stdout:
        ctx.inconclusive_because('fresh interpreter could not import scipp / numpy: ' + r.stderr[-400:])
        return
    # the same program in this process (judged by the monitors on the way)
    ns = {}
    exec(compile(_FRESH_PROGRAM, '<C11 fresh-interpreter program>', 'exec'), ns)  # noqa: S102
    here = ns['program'](cc, sc, np, p)
    ctx.event('fresh_interpreter:' + which)
    line = [x for x in r.stdout.splitlines() if x.startswith('RESULT ')]
    if r.returncode != 0 or not line:
        ctx.violation('fresh_interpreter_failed',
                      f'first call ({which}) in an interpreter that imported only scipp, numpy and '
                      f'scippneutron.tof.chopper_cascade failed: {r.stderr.strip().splitlines()[-1:]}',
                      {'program': p, 'stderr': r.stderr[-1500:]}, first=which)
        return
    there = json.loads(line[0][len('RESULT '):])
    if there != here:
        diff = [k for k in here if there.get(k) != here[k]]
        ctx.violation('fresh_interpreter_differs',
                      f'first call in a fresh interpreter differs from the call in the worker process in {diff}',
                      {'program': p, 'fresh': {k: there.get(k) for k in diff}, 'worker': {k: here[k] for k in diff}},
                      first=which)


def run_alias(cc, mon, ctx, rng, forced):
    """Axes 'aliasing of result and arguments' and 'in-place modification between two calls' on every entry
    point that returns a frame: after each call the arrays of the result, of the arguments and of the frame
    the call started from are written in place (and restored) and all frames obtained so far are looked at
    again; distance Variables, chopper fields and pulse arguments are advanced in place (``pos += step``)
    between two calls with the very same objects; operand sizes that coincide with internal sizes."""
    prog = mon.program
    u = rng.uniform
    seq0, pargs, fb = _source(cc, mon, rng)
    src = seq0.frames[0]
    if mon.g(src) is None:
        return None
    probe_alias(mon, ctx, 'from_source_pulse', set(), [src],
                dict(zip(('time_min', 'time_max', 'wavelength_min', 'wavelength_max'), pargs, strict=True)),
                redo=lambda: [cc.FrameSequence.from_source_pulse(*pargs).frames[0]])
    unit = ('m', 'm', 'mm', 'cm')[int(forced.get('variant', 0)) % 4]
    # windows of every class; the second chopper has a window that contains a whole subframe
    classes = [['cuts_both', 'contains', 'cuts_high'], ['cuts_low', 'contains', 'touches_vertex'],
               ['cuts_high', 'contains', 'misses'], ['contains', 'cuts_both', 'cuts_low']][int(forced.get('variant', 0)) % 4]
    cur = src
    d = 0.0
    choppers = []
    held = [src]
    for k in range(3):
        d += float(u(3.0, 25.0))
        if k == 1:
            # Frame.propagate_to (to in front of the chopper)
            dp = _dist_var(rng, d - float(u(0.5, 2.0)))
            prog.append(['propagate_to', repr(dp.value) + ' ' + str(dp.unit)])
            mark = set(mon.ghost)
            nxt = cur.propagate_to(dp)
            probe_alias(mon, ctx, 'Frame.propagate_to', mark, [nxt], {'distance': dp}, inputs=[cur],
                        redo=lambda cur=cur, dp=dp: [cur.propagate_to(dp)])
            held.append(nxt)
            cur = nxt
        dv = _var(d, unit, 'm')
        o, c, cl = make_windows(rng, ctx, cur.propagate_to(dv.copy()), fb, classes[k])
        ch = cc.Chopper(distance=dv, time_open=_arr(o), time_close=_arr(c))
        prog.append(['chop', repr(dv.value) + ' ' + str(dv.unit), [repr(x) for x in o], [repr(x) for x in c], cl])
        mark = set(mon.ghost)
        nxt = cur.chop(ch)
        probe_alias(mon, ctx, 'Frame.chop', mark, [nxt],
                    {'chopper.distance': ch.distance, 'chopper.time_open': ch.time_open,
                     'chopper.time_close': ch.time_close}, inputs=[cur],
                    redo=lambda cur=cur, ch=ch: [cur.chop(ch)])
        _bounds_of(nxt)
        held.append(nxt)
        choppers.append(ch)
        cur = nxt
    ctx.hit('alias:frame_calls_probed')
    # the same through the sequence
    mark = set(mon.ghost)
    clist = list(choppers)  # (the very same list object is handed in again after a chopper was moved in place)
    seq = seq0.chop(clist)
    n0 = len(seq0.frames)
    cargs = {}
    for i, ch in enumerate(choppers):
        cargs.update({f'chopper{i}.distance': ch.distance, f'chopper{i}.time_open': ch.time_open,
                      f'chopper{i}.time_close': ch.time_close})
    probe_alias(mon, ctx, 'FrameSequence.chop', mark, seq.frames[n0:], cargs, inputs=seq0.frames,
                redo=lambda: seq0.chop(list(choppers)).frames[n0:])
    held += seq.frames[n0:]
    det = _dist_var(rng, d + float(u(2.0, 30.0)), 'm')
    prog.append(['FrameSequence.propagate_to', repr(det.value) + ' ' + str(det.unit)])
    mark = set(mon.ghost)
    seq_d = seq.propagate_to(det)
    probe_alias(mon, ctx, 'FrameSequence.propagate_to', mark, [seq_d[-1]], {'distance': det}, inputs=[seq[-1]],
                redo=lambda: [seq.propagate_to(det)[-1]])
    held.append(seq_d[-1])
    ds = [float(_scalar(ch.distance, 'm')) for ch in choppers]
    for lu in ('m', 'mm'):
        q = _var(float(u(ds[1] + 0.02, ds[2] - 0.02)), lu, 'm')
        prog.append(['sequence[distance]', repr(q.value) + ' ' + str(q.unit)])
        mark = set(mon.ghost)
        fr = seq_d[q]
        probe_alias(mon, ctx, 'sequence[distance]', mark, [fr], {'distance': q}, inputs=seq_d.frames,
                    redo=lambda q=q: [seq_d[q]])
        held.append(fr)
    ctx.hit('alias:sequence_calls_probed')
    mon.recheck(held, 'writing into and restoring results and arguments', 'the calls of the cascade')
    # the groups bounds() / subbounds() return are the caller's: writing into them leaves the frames alone
    for fr in (src, cur, seq_d[-1]):
        for fn in (fr.bounds, fr.subbounds):
            try:
                dg = fn()
            except Exception:  # noqa: BLE001  (judged by the monitors)
                continue
            for name in ('time', 'wavelength'):
                _poke(dg[name], np.asarray(dg[name].values) + 1)
        mon.recheck([fr], 'the caller wrote into the groups bounds() and subbounds() returned', 'Frame.bounds')
    ctx.hit('alias:bounds_results_written')

    # ---- in-place modification between two calls with the very same objects -----------------------
    # a scan along the beam line: one position variable, advanced in place, looked up each time
    for pos, st in ((sc.scalar(float(u(ds[0] + 0.05, ds[0] + 0.5)), unit='m'), sc.scalar(float(u(0.1, 0.5)), unit='m')),
                    (sc.scalar(int(np.ceil(ds[2])) + 1, unit='m'), sc.scalar(2, unit='m')),
                    (_var(float(u(ds[1] + 0.05, ds[1] + 0.5)), 'mm', 'm'), sc.scalar(float(u(100.0, 500.0)), unit='mm'))):
        got = []
        for _ in range(3):
            prog.append(['scan: sequence[pos]; pos += step', repr(pos.value) + ' ' + str(pos.unit)])
            got.append(seq_d[pos])
            pos += st
            mon.recheck(got, 'the caller advanced its position variable in place (pos += step)', 'sequence[distance]')
        held += got
    ctx.hit('inplace:lookup_distance_advanced')
    # Frame.propagate_to / FrameSequence.propagate_to with one distance variable advanced in place: each
    # call is judged (by the monitors) for the contents at that call; the polygons of earlier results stay
    pos, st = sc.scalar(d + float(u(0.5, 5.0)), unit='m'), sc.scalar(float(u(0.5, 5.0)), unit='m')
    got = []
    for k in range(4):
        prog.append(['scan: propagate_to(pos); pos += step', repr(pos.value)])
        got.append(cur.propagate_to(pos) if k % 2 == 0 else seq.propagate_to(pos)[-1])
        pos += st
        mon.recheck(got, 'the caller advanced the distance variable in place', 'propagate_to',
                    fields=('time', 'wavelength'))
    ctx.hit('inplace:propagate_distance_advanced')
    # a chopper moved and re-timed in place, applied again to the same frame
    base = held[1 if len(held) > 1 else 0]
    ch = choppers[0]
    got = [base.chop(ch)] if float(_scalar(base.distance, 'm')) <= ds[0] else []
    start = src
    got.append(start.chop(ch))
    for _ in range(2):
        shift = float(u(0.2, 2.0))
        ch.distance += _var(shift, unit, 'm')
        dt = sc.scalar(shift * float(ts.alpha()) * float(u(1.0, 8.0)), unit='s')
        ch.time_open += dt
        ch.time_close += dt
        prog.append(['chopper.distance += ...; time_open += ...; time_close += ...; chop',
                     repr(ch.distance.value) + ' ' + str(ch.distance.unit),
                     [repr(float(x)) for x in ch.time_open.values], [repr(float(x)) for x in ch.time_close.values]])
        got.append(start.chop(ch))
        mon.recheck(got, 'the caller moved and re-timed the chopper in place', 'Frame.chop',
                    fields=('time', 'wavelength'))
    s_again = seq0.chop(clist)
    _bounds_of(s_again[-1])
    ctx.hit('inplace:chopper_fields_advanced')
    # the pulse arguments changed in place, from_source_pulse called again with the same objects
    first = [src]
    pargs[1] += (pargs[1] - pargs[0]) * 0.5
    pargs[3] += sc.scalar(1.0, unit=pargs[3].unit, dtype=pargs[3].dtype) * float(u(0.1, 2.0))
    prog.append(['pulse arguments changed in place; from_source_pulse', [repr(a.value) for a in pargs]])
    seq_n = cc.FrameSequence.from_source_pulse(*pargs)
    mon.recheck(first, 'the caller changed the pulse arguments in place', 'from_source_pulse')
    if mon.g(seq_n.frames[0]) is not None:
        seq_n.chop(list(choppers[1:]))[sc.scalar(ds[2] + float(u(3.0, 20.0)), unit='m')]
    ctx.hit('inplace:pulse_arguments_changed')

    # ---- operand sizes that coincide with sizes used internally ---------------------------------------
    # a range of N distances with N = number of vertices of a subframe (the 'vertex' axis of the very
    # arrays that are broadcast against the distances), one below, one above, 2 (the 'bound' axis), 1
    fr = seq_d[-2]
    nv = len(fr.subframes[0].time.values) if fr.subframes else 4
    d_last = float(_scalar(fr.distance, 'm'))
    for n in sorted({1, 2, nv - 1, nv, nv + 1}):
        if n < 1:
            continue
        xs = sorted(float(x) for x in u(d_last + 0.5, d_last + 60.0, size=n))
        prog.append(['propagate_to range', n, [repr(x) for x in xs]])
        _bounds_of(fr.propagate_to(sc.array(dims=['distance'], values=xs, unit='m')))
    ctx.hit('size:distance_range_as_long_as_the_vertex_axis')
    if forced.get('fresh'):
        run_fresh_interpreter(cc, mon, ctx, rng, forced['fresh'])
        ctx.hit('fresh_interpreter')
    return ('alias', unit, tuple(classes), len(cur.subframes) > 0), False


# -------------------------------------------------------------------- driver ---
def plan(tier, seed):
    n = 24 if tier == 'quick' else 625
    return [{'cascades': n} for _ in range(16)]


def requirements(tier):
    ev = {'from_source_pulse': 100, 'transmission:chop': 300, 'transmission:propagate_to': 300,
          'transmission:getitem': 100, 'shear': 300, '_chop': 1000, 'is_regular': 300,
          'subbounds': 300, 'bounds': 300, 'two_step': 50, 'permutation': 50, 'wavelength_band': 500,
          'FrameSequence.chop': 100, 'FrameSequence.propagate_to': 100,
          'chop_frame_distance': 300, 'chop_vertices_on_propagated_frame': 300,
          'FrameSequence.chop:sequence': 50, 'FrameSequence.chop:reiterable': 30, 'FrameSequence.chop:one_shot': 150,
          'permutation:iterable_forms': 200, 'call_sequence': 50,
          'transmission_along_line:mono': 50, 'transmission_along_line:instant': 50, 'transmission_at_point': 50,
          'FrameSequence.propagate_to:backward': 30, 'FrameSequence.propagate_to:to_the_distance_of_an_earlier_frame': 30,
          'getitem:non_monotonic_sequence': 150, 'getitem:index': 100,
          'alias_probe:from_source_pulse': 16, 'alias_probe:Frame.propagate_to': 16, 'alias_probe:Frame.chop': 48,
          'alias_probe:FrameSequence.chop': 16, 'alias_probe:FrameSequence.propagate_to': 16,
          'alias_probe:sequence[distance]': 32, 'earlier_frame_rechecked': 300,
          'repeated_call_after_overwriting_the_result': 100,
          'getitem:array_of_distances': 150, 'shear:distances_of_two_or_more_dimensions': 40,
          **{'fresh_interpreter:' + w: 1 for w in FRESH_FIRST_CALLS}}
    return {'events': ev, 'forced': FORCED,
            'counters': {'neutrons_decided': 200000, 'neutrons_decided_transmitted': 5000,
                         'observed:cut_through_constant_wavelength_edge': 50,
                         'neutrons_decided:degenerate_pulse': 20000,
                         'neutrons_decided_transmitted:degenerate_pulse': 1000,
                         'alias_probe:arrays_written': 1000,
                         'observed:shared_memory:propagated_frame_passes_the_wavelength_variable_on': 16,
                         'observed:shared_memory:propagated_frame_stores_the_distance_variable_it_is_given': 16,
                         'observed:shared_memory:chopped_frame_carries_the_distance_variable_of_the_chopper': 8}}


# forced structure of the first cascades of every shard (so that every class is reached in every run)
_FORCED_PLAN = [
    {'n_choppers': 0}, {'n_choppers': 5}, {'n_choppers': 2, 'equal': True, 'window': 'touches_vertex'},
    {'n_choppers': 3, 'window': 'misses', 'range': True}, {'n_choppers': 2, 'window': 'contains', 'refusal': True},
    {'n_choppers': 1, 'window': 'cuts_both'}, {'n_choppers': 2, 'window': 'cuts_low'},
    {'n_choppers': 2, 'window': 'cuts_high'},
    # choppers (nearly) at one position; 'ladder' (added in run) spreads the relative separations
    # 1e-12..1e-4 over the shards.  Double disk: B just behind A, cold neutrons, both cut the frame
    {'n_choppers': 2, 'modes': ['forward', 'near_above'], 'windows': ['cuts_both', 'cuts_both'], 'long': True,
     'ulp': False, 'no_prop': True, 'close': True},
    # propagate to just in front of a chopper and chop from there; a chopper just in front of the frame
    # (refused by Frame.chop, sorted into place by FrameSequence.chop); a third disk next to the second
    {'n_choppers': 4, 'modes': ['forward', 'near_below', 'near_above', 'near_above'],
     'windows': ['cuts_high', 'cuts_low', 'cuts_both', 'contains'], 'long': True, 'ulp': False, 'prop_near': True,
     'seq_prop': True, 'close': True},
    # a chopper at the source position (0 m), one next to it, one an ulp behind an ordinary one (metres)
    {'n_choppers': 4, 'modes': ['source', 'near_above', 'forward', 'near_above'], 'unit': 'm', 'ulp': True,
     'windows': ['cuts_both', 'cuts_low', 'cuts_both', 'cuts_high'], 'no_prop': True, 'seq_prop': True,
     'close': True},
    # fields of live Chopper / Frame / FrameSequence objects reassigned between calls
    {'mutable': True},
    # the choppers handed to FrameSequence.chop as every kind of iterable; one chop call against
    # sequences of chop / propagate_to calls
    {'n_choppers': 3, 'iterables': True, 'modes': ['forward', 'forward', 'forward'],
     'windows': ['cuts_both', 'cuts_low', 'cuts_high']},
    # pulse rectangles without extent (2 of the 6 classes per slot, alternating over the shards), first
    # chopper at the source position
    {'n_choppers': 3, 'pulse_slot': 0, 'modes': ['source', 'forward', 'forward'],
     'windows': ['contains', 'cuts_both', 'cuts_high']},
    {'n_choppers': 3, 'pulse_slot': 1, 'modes': ['source', 'forward', 'forward'],
     'windows': ['cuts_low', 'contains', 'cuts_both']},
    {'n_choppers': 3, 'pulse_slot': 2, 'modes': ['source', 'forward', 'forward'],
     'windows': ['cuts_low', 'touches_vertex', 'zero_width']},
    # FrameSequence.propagate_to / chop / sequence[distance] with distances in non-monotonic order
    {'nonmonotone': True},
    # aliasing of results and arguments, in-place modification between two calls, coinciding sizes, first
    # call in a fresh interpreter
    {'alias': True},
    # arrays of distances where a distance is documented: sequence[distances], propagate_to(distances)
    {'arrays': True},
]


def run(shard, ctx):
    from scippneutron.tof import chopper_cascade as cc

    bad = si.self_test() + ts.self_test()
    if bad:
        ctx.inconclusive_because('oracle self-test failed: ' + '; '.join(bad))
        return
    mon = Monitors(ctx)
    tr = Tracer()
    tr.watch(cc.FrameSequence.from_source_pulse, 'from_source_pulse', on_return=mon.on_source)
    tr.watch(cc.Frame.propagate_to, 'Frame.propagate_to', on_return=mon.on_propagate)
    tr.watch(cc.Frame.chop, 'Frame.chop', on_return=mon.on_chop)
    tr.watch(cc._chop, '_chop', on_return=mon.on_clip)
    tr.watch(cc.Subframe.is_regular, 'Subframe.is_regular', on_return=mon.on_is_regular)
    tr.watch(cc.Frame.bounds, 'Frame.bounds', on_return=mon.on_bounds)
    tr.watch(cc.Frame.subbounds, 'Frame.subbounds', on_return=mon.on_subbounds)
    tr.watch(cc.FrameSequence.chop, 'FrameSequence.chop', on_return=mon.on_seq_chop)
    tr.watch(cc.FrameSequence.propagate_to, 'FrameSequence.propagate_to', on_return=mon.on_seq_propagate)
    tr.watch(cc.FrameSequence.__getitem__, 'FrameSequence.__getitem__', on_return=mon.on_getitem)
    with tr:
        only = os.environ.get('RV_C11_ONLY')  # (debugging aid: run the cascades with these indices only)
        for k in range(shard['cascades']):
            if only and str(k) not in only.split(','):
                continue
            rng = np.random.Generator(np.random.PCG64([shard['seed'], shard['index'], k]))
            mon.reset(rng)
            forced = dict(_FORCED_PLAN[k]) if k < len(_FORCED_PLAN) else {}
            if k >= len(_FORCED_PLAN) and k % 25 == 24:
                forced = {'mutable': True}  # (thorough tier: every 25th cascade)
            if k >= 25 and k % 25 == 23:
                forced = {'nonmonotone': True}
            if k >= 25 and k % 25 == 22:
                forced = {'alias': True}
            if k >= 25 and k % 25 == 21:
                forced = {'arrays': True}
            if forced.get('alias'):
                forced['variant'] = int(shard['seed']) + int(shard['index']) + k
                if k < len(_FORCED_PLAN) and int(shard['index']) < 4:
                    # (a handful of fresh interpreters per run; shard 0 is one of them)
                    forced['fresh'] = FRESH_FIRST_CALLS[(int(shard['seed']) + int(shard['index']))
                                                        % len(FRESH_FIRST_CALLS)]
            if forced.get('close'):
                forced['ladder'] = int(shard['seed']) + 3 * int(shard['index']) + 7 * k
            if 'pulse_slot' in forced:
                forced['pulse'] = PULSE_CLASSES[(2 * forced['pulse_slot'] + (int(shard['seed']) + int(shard['index'])) % 2)
                                                % len(PULSE_CLASSES)]
            before = ctx.n_violations
            out = None
            try:
                out = (run_mutable if forced.get('mutable') else run_nonmonotone if forced.get('nonmonotone')
                       else run_alias if forced.get('alias') else run_arrays if forced.get('arrays')
                       else run_cascade)(cc, mon, ctx, rng, forced)
            except Exception as e:  # noqa: BLE001
                # exceptions of the code under test were already judged by the monitor of the call
                # that raised (PY_UNWIND); anything else is a harness problem
                if ctx.n_violations == before:
                    import traceback
                    ctx.inconclusive_because('harness error in cascade: ' + traceback.format_exc(limit=6)[-1500:])
                else:
                    ctx.count('cascade_aborted_after_violation')
                del e
            if ctx.n_violations > before:
                ctx.count('cascades_with_a_violation')
            if out is not None:
                ctx.case(out[0], trivial=out[1])
            else:
                ctx.case(('aborted',), trivial=True)
            if k < 1 or ctx.n_violations > before:
                ctx.sample({'shard': shard['index'], 'cascade': k, 'program': mon.program})
    ctx.extra['watched_call_counts'] = dict(tr.counts)


# ------------------------------------------------------------ known findings ---
def _const_edge_drift(v):
    k = v.get('keys', {})
    return (v.get('kind') == 'subbounds_raised' and k.get('exc') == 'NotImplementedError'
            and k.get('cause') == 'wavelength_ulp_split')


FINDING_PREDICATES = {'chopper_cascade.constant_wavelength_edge_interpolation': _const_edge_drift}
