"""C13 SQW content is what was supplied: pixels, run metadata, histogram metadata.

Artefact monitor on the return of ``SqwBuilder.create``: the bytes just written are
decoded by the independent decoder (``rv.oracle.sqwdec``) and compared, field by
field, with the plain numbers / strings that were supplied to the builder, converted
to the units of the format with the independent SI table in 80-bit arithmetic.

Reader differential: every block is then read back with ``Sqw.read_data_block``; the
returned models must carry the same numbers, strings and shapes as the decoded bytes
(= what was supplied), and no returned Variable may be labelled with a unit whose
physical dimension differs from the dimension the value was written in
(``unit=None`` is "unlabelled", not wrong).

The workload (cases, supplied values, driver, writer trace) is the one of C12.
"""

from __future__ import annotations

import datetime as _dt
import io
import math
import os
import shutil
import tempfile
import warnings
from fractions import Fraction

import numpy as np

from rv.oracle import si
from rv.oracle import sqwdec as D
from rv.props import c12 as W
from rv.trace import Tracer

ID = 'C13'
LEVEL = 'exploration'
RULE = (
    'same files as C12 (all 326 builder programs, pixel-count x chunk-size grid, 1..20 runs in '
    'direct / indirect / mixed mode, string sweep, row-selection x dtype-plan grid over the public '
    'keywords rows/row_units/n_dims/title/byteorder, metadata unit/dtype classes, array-size ladder, '
    'BytesIO and real files, real paths that already hold a file, second create() of one builder, and the '
    'argument-form classes of C12: masked pixels (all N pixels stored, data_range over all N), variances on '
    'coordinates / metadata, numpy / enum / subclass stand-ins for int / str / bool, calling conventions, stand-in '
    'targets and model subclasses, second use after a failure, reader results fed back; text not in Unicode '
    'normal form in every string field and in file names; streams that are not empty when create() runs (the zero '
    'histogram lies over non-zero bytes); the same model objects modified in place between two builds); '
    'reader: between Sqw.open and read_data_block the NAME of a real file changes its meaning (working directory '
    'changed after opening by a relative name, directory entry replaced / removed / renamed, symbolic link '
    're-pointed, hard link removed): every number must come from the file that was opened; results of the reader '
    'are written into in place, the file and a second read must not be affected; '
    'supplied values: float64 rows over 1e-30..1e29 of either sign with '
    'forced {0, -0.0, float64 / float32 denormals, float32-exact, float32 halfway} in any convertible '
    'input unit, and (class extreme) finite float64 over 1e-320..1e300, i.e. beyond both ends of the float32 '
    'range, with forced {largest finite float32 and its float64 neighbours, the overflow threshold '
    '2^128(1-2^-25) and its neighbours, 2^128, 1e39, 1e300, smallest float32 denormal, its rounding ties, '
    'the normal/denormal boundary, values rounding to zero}, also placed so that only the CONVERTED value '
    'crosses the end of the range (conversion factor > 1 and < 1, default and non-default declared units), '
    'in coordinates, signal and variances; '
    'input unit, float32 / int32 / int64 rows in the declared unit of the row, every row of one dtype, '
    'extra per-pixel coordinates; energies / angles / axis quantities as float64, float32 or integers '
    'in meV|ueV|eV, deg|rad, 1/angstrom|1/nm, or already in the written unit and dtype (then the same '
    'objects are used for a second build to the other kind of target); lattice in angstrom or nm. '
    'distinct = C12 signature x value class'
)
ASSUMPTIONS = [
    'field names and layout of the serialised models are those of the Horace classes the '
    'documentation names (main_header_cl, dnd_metadata/line_axes/line_proj, pix_metadata, '
    'IX_experiment, IX_null_inst/IX_source, IX_sample, unique_*_container)',
    'written units per field: alatt angstrom, angdeg deg, u/v/w and q-axes 1/angstrom, energies meV, '
    'goniometer angles rad with angular_is_degree=false, source frequency as supplied (Hz)',
    'the rows of the pixel block are the rows the rows keyword selects, in that order, converted to the '
    'units of row_units; data_range has one (min, max) pair per selected row; a second build from the '
    'same model objects must store the same supplied values',
    '"rounded once to float32": the correctly rounded IEEE (round-to-nearest-even) float32 of the exactly '
    'converted value: +-inf from the overflow threshold 2^128(1-2^-25) on, denormals and zero at the small end. '
    'A row supplied in its declared unit must hold exactly that value; a converted row must be at least as close '
    'to the exact value as the correctly rounded float32 up to 2^-50 relative for the float64 conversion step '
    '(within that band around the overflow threshold inf and the largest finite float32 are both accepted)',
    'supplied values are finite and their converted value is below the float64 maximum',
]
TECHNIQUE = ('runtime artefact monitor on SqwBuilder.create + independent SQW decoder compared with the '
             'supplied models (80-bit unit conversion); reader differential incl. unit-dimension monitor')
LEVEL_TEXT = ('exploration: every file of the C12 workload is decoded independently and every stored number, '
              'string and shape is compared with what was supplied; every block is read back with the '
              "package's reader and compared, including the physical dimension of every unit label; held "
              'on the files produced, not a proof')
LEVEL_NOTE = ('trusted: rv/oracle/sqwdec.py, the independent SI table (cross-checked against scipp at start-up), '
              'numpy long double; scipp only as container of the inputs and of the reader results')
DESIGN_REF = 'DESIGN.md section 4, C13'
TIMEOUT_S = {'quick': 900, 'thorough': 3 * 3600}

LD = np.longdouble
EPS64 = float(np.finfo(np.float64).eps)
TOL64 = 8 * EPS64          # float64 unit conversion (one multiplication, pi/180 factor)
SLACK_CONV = LD(2.0) ** -50
# float32 range: largest finite value; round-to-nearest-even overflow threshold 2^128 (1 - 2^-25)
# (an exact value of at least this magnitude rounds to +-inf); smallest normal value
F32MAX = np.float32(np.finfo(np.float32).max)
F32_OVERFLOW = LD(2.0) ** 128 - LD(2.0) ** 103
F32_TINY = LD(2.0) ** -126

DIM_NAMES = {
    (1, 0, 0, 0, 0): 'length', (-1, 0, 0, 0, 0): '1/length', (2, 1, -2, 0, 0): 'energy',
    (0, 0, 0, 1, 0): 'angle', (0, 0, -1, 0, 0): 'frequency', (0, 0, 0, 0, 0): 'dimensionless',
}

_UNIT_CACHE: dict = {}


def unit_info(name):
    """(exact SI factor, dimension name) of a unit given by name, from the independent table."""
    import scipp as sc

    if name in (None, 'count', 'count**2', 'counts'):
        return Fraction(1), 'counts' if name else 'none'
    hit = _UNIT_CACHE.get(name)
    if hit is None:
        f, d = si.lookup(sc.Unit(name))
        hit = (f, DIM_NAMES.get(tuple(d), str(tuple(d))))
        _UNIT_CACHE[name] = hit
    return hit


def dim_of_scipp_unit(unit):
    """Dimension name of a scipp unit object (KeyError if not in the table)."""
    f, d = si.lookup(unit)
    return DIM_NAMES.get(tuple(d), str(tuple(d))), f


def conv_exact(values, from_unit, to_unit):
    """values [from_unit] expressed in to_unit, long double."""
    v = np.asarray(values).astype(LD)
    if from_unit == to_unit or from_unit is None or to_unit is None:
        return v
    r = unit_info(from_unit)[0] / unit_info(to_unit)[0]
    return v * si.ld(r.numerator) / si.ld(r.denominator)


def close64(got, want_ld, tol=TOL64):
    got = np.asarray(got).astype(LD)
    want_ld = np.asarray(want_ld).astype(LD)
    if got.shape != want_ld.shape:
        return False, math.inf
    if got.size == 0:
        return True, 0.0
    err = np.abs(got - want_ld)
    bound = LD(tol) * np.abs(want_ld) + LD(5e-324)
    bad = ~(err <= bound)
    with np.errstate(divide='ignore', invalid='ignore'):
        rel = np.where(want_ld != 0, err / np.abs(want_ld), np.where(err == 0, LD(0), LD(np.inf)))
    return not bool(np.any(bad)), float(np.max(rel))


# ----------------------------------------------------------- content judge ---
class Judge:
    """Collects disagreements of one file; one violation per (block, field)."""

    def __init__(self, ctx, case, extra_keys=None):
        self.ctx = ctx
        self.case = W.case_summary(case)
        self.seen = set()
        self.extra = extra_keys or {}

    def bad(self, kind, block, field, what, **keys):
        k = (kind, block, field)
        if k in self.seen:
            return
        self.seen.add(k)
        self.ctx.violation(kind, f'{block} {field}: {what}', self.case, block=block, field=field,
                           **{**self.extra, **keys})

    # -- decoded-node comparisons
    def get(self, block, st, name):
        node = st.get(name) if st is not None else None
        if node is None:
            self.bad('content_missing_field', block, name, 'field not present in the stored struct',
                     mechanism='missing_field')
        return node

    def text(self, block, st, name, want):
        node = self.get(block, st, name)
        if node is None:
            return
        self.ctx.event('content:string')
        try:
            got = node.text()
        except D.DecodeError as e:
            self.bad('content_string', block, name, f'not a string: {e}', mechanism='string')
            return
        if got != want:
            self.bad('content_string', block, name,
                     f'stored {got[:60]!r} (len {len(got)}), supplied {want[:60]!r} (len {len(want)})',
                     mechanism=_string_mechanism(node, want))

    def num(self, block, st, name, want_ld, shape=None, tol=TOL64, mech='value', **keys):
        """Numeric field == want (long double, row-major) with numpy shape ``shape``."""
        node = self.get(block, st, name)
        if node is None:
            return None
        self.ctx.event('content:number')
        try:
            got = node.array()
        except D.DecodeError as e:
            self.bad('content_value', block, name, f'not numeric: {e}', mechanism='type')
            return None
        if node.tag != 'f64':
            self.bad('content_value', block, name, f'stored as {node.tag}, expected f64', mechanism='type')
            return None
        want_ld = np.asarray(want_ld, dtype=LD)
        if shape is None:
            shape = want_ld.shape
        if tuple(got.shape) != tuple(shape):
            self.bad('content_shape', block, name,
                     f'stored shape {tuple(reversed(got.shape))} (column-major), expected '
                     f'{tuple(reversed(shape))}', mechanism='shape', **keys)
            return got
        ok, rel = close64(got, want_ld.reshape(shape), tol)
        self.ctx.dev(f'content.relerr.{block.split("[")[0]}.{name}', rel if math.isfinite(rel) else 1e300)
        if not ok:
            self.bad('content_value', block, name,
                     f'stored {np.ravel(got)[:6].tolist()} expected {np.ravel(want_ld).astype(float)[:6].tolist()}',
                     mechanism=mech, **keys)
        return got

    def logical(self, block, st, name, want):
        node = self.get(block, st, name)
        if node is None:
            return
        self.ctx.event('content:logical')
        if node.tag != 'logical' or list(node.value) != list(want):
            self.bad('content_value', block, name, f'stored {node.tag} {node.value}, expected {list(want)}',
                     mechanism='logical')


def _string_mechanism(node, want):
    """A stored string that is the supplied UTF-8 cut after len(characters) bytes (the rest of
    the block happened to decode): the length field counted characters."""
    raw = node.value[0] if node.value else b''
    enc = want.encode('utf-8')
    if len(enc) > len(want) and len(raw) == len(want) and enc.startswith(raw):
        return 'string_length_in_characters'
    return 'string'


def _struct_of(j, block, node):
    try:
        return node.struct()
    except D.DecodeError as e:
        j.bad('content_structure', block, '', f'not a single struct: {e}', mechanism='structure')
        return None


def expected_path_strings(case, target):
    if isinstance(target, io.BytesIO):
        return 'in_memory', '', ''
    p = os.fspath(target)
    return p, os.path.basename(p), os.path.dirname(p)


def judge_main_header(j, f, case, spec, target):
    b = f.blocks.get(('', 'main_header'))
    if b is None or not b.ok:
        return
    blk = 'main_header'
    st = _struct_of(j, blk, b.value)
    if st is None:
        return
    full, _, _ = expected_path_strings(case, target)
    j.text(blk, st, 'serial_name', 'main_header_cl')
    j.text(blk, st, 'full_filename', full)
    j.text(blk, st, 'title', spec['title'])
    nfiles = case['nruns'] if 'pix' in case['program'] else 0
    j.num(blk, st, 'nfiles', [float(nfiles)], tol=0)
    node = j.get(blk, st, 'creation_date')
    if node is not None:
        try:
            _dt.datetime.fromisoformat(node.text())
        except (ValueError, D.DecodeError) as e:
            j.bad('content_string', blk, 'creation_date', f'not an ISO 8601 time stamp: {e}',
                  mechanism='date')


def judge_expdata(j, f, case, spec):
    b = f.blocks.get(('experiment_info', 'expdata'))
    if b is None or not b.ok:
        return
    blk = 'expdata'
    st = _struct_of(j, blk, b.value)
    if st is None:
        return
    j.text(blk, st, 'serial_name', 'IX_experiment')
    arr = j.get(blk, st, 'array_dat')
    if arr is None:
        return
    exps = spec['experiments']
    if arr.tag != 'struct' or len(arr.value) != len(exps):
        j.bad('content_shape', blk, 'array_dat',
              f'{len(arr.value) if arr.tag == "struct" else arr.tag} experiment records for {len(exps)} runs',
              mechanism='n_runs')
        return
    j.ctx.event('content:runs', len(exps))
    for i, (e, s) in enumerate(zip(exps, arr.value, strict=True)):
        bi = f'expdata[{i}]' if i < 2 else 'expdata[i>=2]'
        j.text(bi, s, 'filename', e['filename'])
        j.text(bi, s, 'filepath', e['filepath'])
        j.num(bi, s, 'run_id', [float(e['run_id'] + 1)], tol=0, mech='run_id_base')
        j.num(bi, s, 'emode', [1.0 if e['emode'] == 'direct' else 2.0], tol=0)
        efix = conv_exact(np.atleast_1d(e['efix']['values']), e['efix']['unit'], 'meV')
        j.num(bi, s, 'efix', efix, mech='energy_unit', emode=e['emode'])
        en = np.asarray(e['en']['values'])
        if e['emode'] == 'direct':
            en2 = en.reshape(1, -1)
        else:
            en2 = en if e['en']['dims'][0] == 'detector' else en.T
        j.num(bi, s, 'en', conv_exact(en2, e['en']['unit'], 'meV'), mech='energy_unit',
              emode=e['emode'])
        for a in ('psi', 'omega', 'dpsi', 'gl', 'gs'):
            j.num(bi, s, a, conv_exact([e[a]['values']], e[a]['unit'], 'rad'), mech='angle_unit',
                  supplied_unit=e[a]['unit'])
        j.num(bi, s, 'u', np.asarray(e['u'], dtype=LD), tol=0)
        j.num(bi, s, 'v', np.asarray(e['v'], dtype=LD), tol=0)
        j.logical(bi, s, 'angular_is_degree', [False])


def _container(j, blk, f, name, baseclass, n_idx):
    b = f.blocks.get(name)
    if b is None or not b.ok:
        return None
    st = _struct_of(j, blk, b.value)
    if st is None:
        return None
    j.text(blk, st, 'serial_name', 'unique_references_container')
    j.text(blk, st, 'stored_baseclass', baseclass)
    inner = j.get(blk, st, 'unique_objects')
    if inner is None:
        return None
    ist = _struct_of(j, blk, inner)
    if ist is None:
        return None
    j.text(blk, ist, 'serial_name', 'unique_objects_container')
    j.text(blk, ist, 'baseclass', baseclass)
    j.num(blk, ist, 'idx', np.ones(n_idx, dtype=LD), tol=0, mech='idx_base')
    objs = j.get(blk, ist, 'unique_objects')
    if objs is None:
        return None
    if objs.tag != 'cell':
        j.bad('content_structure', blk, 'unique_objects', f'stored as {objs.tag}, expected cell',
              mechanism='structure')
        return None
    return objs.value


def judge_instruments(j, f, case, spec):
    nfiles = case['nruns'] if 'pix' in case['program'] else 0
    objs = _container(j, 'instruments', f, ('experiment_info', 'instruments'), 'IX_inst', nfiles)
    if objs is None:
        return
    blk = 'instruments'
    if len(objs) != 1:
        j.bad('content_shape', blk, 'unique_objects', f'{len(objs)} unique objects, expected one shared',
              mechanism='n_unique')
        return
    st = _struct_of(j, blk, objs[0])
    if st is None:
        return
    i = spec['instrument']
    j.text(blk, st, 'serial_name', 'IX_null_inst')
    j.text(blk, st, 'name', i['name'])
    src = j.get(blk, st, 'source')
    if src is not None:
        sst = _struct_of(j, blk, src)
        if sst is not None:
            j.text(blk, sst, 'serial_name', 'IX_source')
            j.text(blk + '.source', sst, 'name', i['source']['name'])
            j.text(blk + '.source', sst, 'target_name', i['source']['target_name'])
            j.num(blk + '.source', sst, 'frequency', [LD(i['source']['frequency']['values'])], tol=0)


def judge_samples(j, f, case, spec):
    nfiles = case['nruns'] if 'pix' in case['program'] else 0
    objs = _container(j, 'samples', f, ('experiment_info', 'samples'), 'IX_samp', nfiles)
    if objs is None:
        return
    blk = 'samples'
    if len(objs) != 1:
        j.bad('content_shape', blk, 'unique_objects', f'{len(objs)} unique objects, expected one shared',
              mechanism='n_unique')
        return
    st = _struct_of(j, blk, objs[0])
    if st is None:
        return
    s = spec['sample']
    j.text(blk, st, 'serial_name', 'IX_sample')
    j.text(blk, st, 'name', s['name'])
    j.num(blk, st, 'alatt', conv_exact(s['alatt']['values'], s['alatt']['unit'], 'angstrom'),
          mech='length_unit')
    j.num(blk, st, 'angdeg', conv_exact(s['angdeg']['values'], s['angdeg']['unit'], 'deg'),
          mech='angle_unit')


def judge_detpar(j, f):
    objs = _container(j, 'detpar', f, ('', 'detpar'), 'IX_detector_array', 0)
    if objs is not None and len(objs) != 0:
        j.bad('content_shape', 'detpar', 'unique_objects', f'{len(objs)} objects in the empty container',
              mechanism='n_unique')


Q_UNITS = ('1/angstrom', '1/angstrom', '1/angstrom', 'meV')


def judge_dnd(j, f, case, spec, target):
    d = spec['dnd']
    b = f.blocks.get(('data', 'metadata'))
    if b is not None and b.ok:
        blk = 'data/metadata'
        st = _struct_of(j, blk, b.value)
        if st is not None:
            j.text(blk, st, 'serial_name', 'dnd_metadata')
            node = j.get(blk, st, 'creation_date_str')
            if node is not None:
                try:
                    _dt.datetime.fromisoformat(node.text())
                except (ValueError, D.DecodeError) as e:
                    j.bad('content_string', blk, 'creation_date_str', f'not ISO 8601: {e}', mechanism='date')
            axn, prn = j.get(blk, st, 'axes'), j.get(blk, st, 'proj')
            a = d['axes']
            ast = _struct_of(j, blk, axn) if axn is not None else None
            if ast is not None:
                ab = 'axes'
                _, fname, fpath = expected_path_strings(case, target)
                j.text(ab, ast, 'serial_name', 'line_axes')
                j.text(ab, ast, 'filename', fname)
                j.text(ab, ast, 'filepath', fpath)
                j.text(ab, ast, 'title', a['title'])
                _labels(j, ab, ast, a['label'])
                j.num(ab, ast, 'img_scales', np.array(
                    [conv_exact(x['values'], x['unit'], u) for x, u in zip(a['img_scales'], Q_UNITS, strict=True)],
                    dtype=LD), mech='axis_unit')
                j.num(ab, ast, 'img_range', np.array(
                    [conv_exact(x['values'], x['unit'], u) for x, u in zip(a['img_range'], Q_UNITS, strict=True)],
                    dtype=LD), shape=(4, 2), mech='axis_unit')
                j.num(ab, ast, 'nbins_all_dims', np.array(a['n_bins_all_dims'], dtype=LD), tol=0)
                j.logical(ab, ast, 'single_bin_defines_iax', a['single_bin_defines_iax'])
                j.num(ab, ast, 'dax', np.array(a['dax'], dtype=LD) + 1, tol=0, mech='index_base')
                j.num(ab, ast, 'offset', np.array(
                    [conv_exact(x['values'], x['unit'], u) for x, u in zip(a['offset'], Q_UNITS, strict=True)],
                    dtype=LD), mech='axis_unit')
                j.logical(ab, ast, 'changes_aspect_ratio', [a['changes_aspect_ratio']])
            p = d['proj']
            pst = _struct_of(j, blk, prn) if prn is not None else None
            if pst is not None:
                pb = 'proj'
                j.text(pb, pst, 'serial_name', 'line_proj')
                j.num(pb, pst, 'alatt', conv_exact(p['alatt']['values'], p['alatt']['unit'], 'angstrom'),
                      mech='length_unit')
                j.num(pb, pst, 'angdeg', conv_exact(p['angdeg']['values'], p['angdeg']['unit'], 'deg'),
                      mech='angle_unit')
                j.num(pb, pst, 'offset', np.array(
                    [conv_exact(x['values'], x['unit'], u) for x, u in zip(p['offset'], Q_UNITS, strict=True)],
                    dtype=LD), mech='axis_unit')
                j.text(pb, pst, 'title', p['title'])
                _labels(j, pb, pst, p['label'])
                for k in ('u', 'v'):
                    j.num(pb, pst, k, conv_exact(p[k]['values'], p[k]['unit'], '1/angstrom'), mech='q_unit')
                if p['w'] is None:
                    j.num(pb, pst, 'w', np.zeros(0, dtype=LD))
                else:
                    j.num(pb, pst, 'w', conv_exact(p['w']['values'], p['w']['unit'], '1/angstrom'),
                          mech='q_unit')
                j.logical(pb, pst, 'nonorthogonal', [p['non_orthogonal']])
                j.text(pb, pst, 'type', p['type'])
    b = f.blocks.get(('data', 'nd_data'))
    if b is not None and b.ok:
        blk = 'data/nd_data'
        j.ctx.event('content:histogram')
        if case.get('_prefill') is not None:
            j.ctx.event('content:histogram_in_a_stream_that_was_not_empty')
        v = b.value
        nb = tuple(d['axes']['n_bins_all_dims'])
        if tuple(v['lengths']) != nb:
            j.bad('content_shape', blk, 'shape', f'histogram lengths {v["lengths"]}, declared bins {nb}',
                  mechanism='histogram_shape')
        elif np.any(v['values'] != 0) or np.any(v['errors'] != 0) or np.any(v['counts'] != 0):
            j.bad('content_value', blk, 'values', 'empty histogram is not all zero', mechanism='histogram_zero')


def _labels(j, blk, st, want):
    node = j.get(blk, st, 'label')
    if node is None:
        return
    j.ctx.event('content:string')
    if node.tag != 'cell' or len(node.value) != len(want):
        j.bad('content_shape', blk, 'label', f'stored {node.tag}{node.shape}, expected {len(want)} strings',
              mechanism='label')
        return
    for i, (n, w) in enumerate(zip(node.value, want, strict=True)):
        try:
            got = n.text()
        except D.DecodeError as e:
            j.bad('content_string', blk, 'label', f'label {i} is not a string: {e}', mechanism='string')
            return
        if got != w:
            j.bad('content_string', blk, 'label', f'label {i} stored {got[:40]!r}, supplied {w[:40]!r}',
                  mechanism=_string_mechanism(n, w))
            return


def expected_rows(spec):
    """(exactly converted long-double rows, raw rows) of the selected pixel rows, in the
    declared order and declared units (keywords rows / row_units, default: the nine rows)."""
    out, raw = [], []
    px = spec['pix']
    for name, unit in zip(px['row_names'], px['row_units'], strict=True):
        r = px['rows'][name]
        raw.append(np.asarray(r['values']))
        out.append(conv_exact(r['values'], r['unit'], unit))
    return out, raw


def judge_pixels(j, f, case, spec, buf, trace, full_filename):
    ctx = j.ctx
    n = spec['pix']['n']
    names, units = spec['pix']['row_names'], spec['pix']['row_units']
    nr = len(names)
    d = next((x for x in f.descriptors if x.name == ('pix', 'data_wrap')), None)
    rows_exact, rows_raw = expected_rows(spec)
    row_keys = {'rows': 'nine' if nr == 9 else 'other'}
    # ---- pixel metadata
    b = f.blocks.get(('pix', 'metadata'))
    if b is not None and b.ok:
        blk = 'pix/metadata'
        st = _struct_of(j, blk, b.value)
        if st is not None:
            j.text(blk, st, 'serial_name', 'pix_metadata')
            j.text(blk, st, 'full_filename', full_filename)
            j.num(blk, st, 'npix', [float(n)], tol=0)
            if n >= 1:
                want = np.array([[r.min(), r.max()] for r in rows_exact], dtype=LD)
                node = j.get(blk, st, 'data_range')
                if node is not None:
                    try:
                        got = node.array()
                    except D.DecodeError:
                        got = None
                    ctx.event('content:data_range')
                    mk = W.forms_of(case).get('masks')
                    if mk:
                        # every pixel is in the file, flagged or not: the range is the range of all N
                        ctx.event('content:data_range_of_masked_pixels')
                        ctx.hit('data_range:masks=' + mk)
                    if got is None or got.shape != (nr, 2):
                        j.bad('content_shape', blk, 'data_range',
                              f'stored shape {node.shape}, expected (2, {nr}) column-major', mechanism='shape',
                              **row_keys)
                    else:
                        err = np.abs(got.astype(LD) - want)
                        bound = LD(1.2e-7) * np.abs(want) + LD(1.5e-45)
                        if np.any(~(err <= bound)):
                            i = int(np.argmax(~(err <= bound).all(axis=1)))
                            mech = 'data_range'
                            dts = sorted({spec['pix']['rows'][k]['dtype'] for k in names})
                            # the stored 8-byte items are the bit patterns of the integer (min, max)
                            if node.tag == 'f64' and np.array_equal(
                                    np.asarray(got, dtype=np.float64).view(np.int64).astype(LD), want):
                                mech = 'f64_tag_integer_items'
                            j.bad('pix_metadata', blk, 'data_range',
                                  f'row {names[i]}: stored [{got[i, 0]!r}, {got[i, 1]!r}], converted rows span '
                                  f'[{float(want[i, 0])!r}, {float(want[i, 1])!r}] (row dtypes {dts})',
                                  mechanism=mech, **row_keys)
            else:
                ctx.count('undecided:data_range_of_zero_pixels')
    # ---- pixel block, leniently (whatever part of it is in the file)
    if d is None:
        return
    bo = f.byteorder
    end = min(d.position + d.size, len(buf))
    cur = D.Cursor(buf, d.position, end, bo)
    try:
        nrows, npix = cur.u32(), cur.u64()
    except D.DecodeError as e:
        j.bad('pixels_missing', 'pix/data_wrap', 'head', f'pixel block head not in the file: {e}',
              mechanism=W.pix_mechanism(trace, d.size))
        return
    ctx.event('content:pixel_blocks')
    if nrows != nr or npix != n:
        j.bad('content_value', 'pix/data_wrap', 'head',
              f'block says {nrows} rows x {npix} pixels, supplied {nr} x {n}', mechanism='pix_head', **row_keys)
        if nrows != nr:
            return
    avail = min(npix, n, (end - cur.pos) // (4 * nr))
    data = cur.array('f4', avail * nr).reshape(avail, nr)
    if avail < n:
        j.bad('pixels_missing', 'pix/data_wrap', 'pixels',
              f'{n - avail} of {n} pixels are not in the file (chunk_size={case["chunk"] or 8192}, {nr} rows)',
              mechanism=W.pix_mechanism(trace, d.size))
    ctx.event('content:pixels', int(avail) * nr)
    by = W.forms_of(case).get('bystander')
    if by and avail:
        # the table carried further coordinates / masks that are not among the selected rows: the rows are
        # still the supplied rows (signal = values, error = variances of the DATA)
        ctx.event('content:pixels_of_a_table_with_bystanders', int(avail) * nr)
        ctx.hit('bystander:' + by)
    for i, name in enumerate(names):
        exact = rows_exact[i][:avail]
        raw = rows_raw[i][:avail]
        got = data[:, i]
        unit_in = spec['pix']['rows'][name]['unit']
        converted = bool(unit_in != units[i])
        # "rounded once to float32": the correctly rounded (IEEE round-to-nearest-even) float32 of the
        # exactly converted value -- +-inf from the overflow threshold on, denormals / zero at the small
        # end.  A row that needs no conversion must hold exactly that value.  A converted row went
        # through one float64 conversion first (2^-50 relative): the stored value must be at least as
        # close to the exact value as the correctly rounded one up to that slack, and within the slack
        # around the overflow threshold both the largest finite float32 and inf are accepted (undecided).
        slack = SLACK_CONV if converted else LD(0)
        with np.errstate(over='ignore'):
            want32 = exact.astype(np.float32)
        mag = np.abs(exact)
        must_inf = mag >= F32_OVERFLOW * (1 + slack)
        finite = mag < F32_OVERFLOW * (1 - slack) if converted else ~must_inf
        band = ~(must_inf | finite)
        g = got.astype(LD)
        ok = np.ones(exact.shape, dtype=bool)
        ok[must_inf] = got[must_inf] == want32[must_inf]           # +-inf of the sign of the value
        if converted:
            with np.errstate(invalid='ignore'):
                near = np.isfinite(got) & (np.abs(g - exact) <= np.abs(want32.astype(LD) - exact) + mag * slack)
            ok[finite] = ((got == want32) | near)[finite]
            edge = np.isinf(got) | (np.abs(got) == F32MAX)
            ok[band] = (edge & (np.sign(g) == np.sign(exact)))[band]
            if band.any():
                ctx.count('undecided:float32_overflow_threshold_after_conversion', int(band.sum()))
        else:
            ok[finite] = (got == want32)[finite]
        # classes of the float32 range actually judged
        if must_inf.any():
            ctx.event('content:pixels_beyond_float32', int(must_inf.sum()))
            if (exact[must_inf] > 0).any():
                ctx.hit('f32_overflow:+inf')
            if (exact[must_inf] < 0).any():
                ctx.hit('f32_overflow:-inf')
            if name == 'error':
                ctx.hit('f32_overflow:variance')
            if name == 'signal':
                ctx.hit('f32_overflow:signal')
            if converted and (np.abs(raw[must_inf].astype(LD)) < F32_OVERFLOW).any():
                ctx.hit('f32_overflow:only_after_unit_conversion')
        if case['values'] == 'extreme':
            if converted and (finite & (np.abs(raw.astype(LD)) >= F32_OVERFLOW)).any():
                ctx.hit('f32_finite:only_after_unit_conversion')
            if not converted and (mag == F32_OVERFLOW).any():
                ctx.hit('f32_overflow:tie_at_threshold')
            if (finite & (np.abs(want32) == F32MAX)).any():
                ctx.hit('f32_max:rounds_to_largest_finite')
            if (mag == LD(F32MAX)).any():
                ctx.hit('f32_max:exact')
            if ((mag > 0) & (want32 == 0)).any():
                ctx.hit('f32_underflow:to_zero')
            if ((want32 != 0) & (np.abs(want32.astype(LD)) < F32_TINY)).any():
                ctx.hit('f32_underflow:denormal')
        if exact.size:
            fin = finite & np.isfinite(got)
            if fin.any():
                ulps = np.abs(g[fin] - exact[fin]) / np.maximum(np.spacing(np.abs(want32[fin])).astype(LD), LD(1e-45))
                ctx.dev('pixel.err_in_float32_ulps', float(np.max(ulps)))
        if not np.all(ok):
            k = int(np.argmin(ok))
            with np.errstate(over='ignore'):
                raw32 = raw.astype(np.float32)
            mech = 'pixel_value'
            if converted and np.array_equal(got, raw32):
                mech = 'row_written_in_input_unit'
            elif np.array_equal(got.view(np.uint32).byteswap(), want32.view(np.uint32)):
                mech = 'pixel_byteorder'
            elif must_inf[k] and np.isfinite(got[k]):
                mech = 'overflow_not_inf'
            elif finite[k] and not np.isfinite(got[k]):
                mech = 'finite_value_stored_as_inf'
            elif not converted:
                mech = 'not_correctly_rounded'
            rname = name if name in W.ROWS else 'extra'
            j.bad('pixel_value', 'pix/data_wrap', rname,
                  f'pixel {k} of row {name}: stored {got[k]!r}, supplied {rows_raw[i][k]!r} {unit_in} = '
                  f'{float(exact[k])!r} {units[i]} -> float32 {want32[k]!r}',
                  mechanism=mech, converted=converted)


def judge_content(ctx, case, spec, target, buf, trace):
    bo = W.resolved(case['byteorder'])
    f = D.decode_file(buf, bo, W.base_of(case))
    if f.header_error or f.bat_error:
        ctx.violation('file_undecodable', f'header / allocation table do not decode: '
                      f'{f.header_error or f.bat_error}', W.case_summary(case), mechanism='container')
        return f
    j = Judge(ctx, case)
    # blocks that cannot be decoded hide their content
    for b in f.block_list:
        d = b.descriptor
        if b.ok or d.block_type == 'pix_data_block':
            continue
        keys = {'mechanism': 'undecodable'}
        diag = ''
        if d.block_type == 'data_block':
            sm = W.string_mechanism(buf, d, bo)
            im = None if sm else W.itemsize_mechanism(buf, d, bo)
            if sm:
                keys = {k: sm[k] for k in ('mechanism', 'site')}
            elif im:
                keys = {'mechanism': im['mechanism'], 'array': im['field']}
                diag = (f"; decodes completely if the f64-tagged array {im['path']} of shape {im['shape']} "
                        f"holds 4-byte elements")
        j.bad('block_undecodable', '/'.join(d.name), '', f'content cannot be decoded: {b.error}{diag}', **keys)
    want = W.expected_names(case['program'])
    for name in sorted(want - set(f.blocks)):
        j.bad('content_missing_block', '/'.join(name), '', 'block not in the file', mechanism='missing_block')
    prog = case['program']
    ctx.event('content:files')
    judge_main_header(j, f, case, spec, target)
    if 'pix' in prog:
        judge_expdata(j, f, case, spec)
        judge_pixels(j, f, case, spec, buf, trace, expected_path_strings(case, target)[0])
    if 'inst' in prog:
        judge_instruments(j, f, case, spec)
    if 'samp' in prog:
        judge_samples(j, f, case, spec)
    if 'det' in prog:
        judge_detpar(j, f)
    if 'dnd' in prog:
        judge_dnd(j, f, case, spec, target)
    return f


# ------------------------------------------------------- reader differential ---
WRITTEN = {
    # (block, field) -> (dimension the writer converts to, unit it writes)
    'lattice_spacing': ('length', 'angstrom'), 'lattice_angle': ('angle', 'deg'),
    'u': ('1/length', '1/angstrom'), 'v': ('1/length', '1/angstrom'), 'w': ('1/length', '1/angstrom'),
    'efix': ('energy', 'meV'), 'en': ('energy', 'meV'),
    'psi': ('angle', 'rad'), 'omega': ('angle', 'rad'), 'dpsi': ('angle', 'rad'), 'gl': ('angle', 'rad'),
    'gs': ('angle', 'rad'), 'frequency': ('frequency', 'Hz'),
}
Q_DIMS = ('1/length', '1/length', '1/length', 'energy')


class Reader:
    def __init__(self, ctx, case, extra=None):
        self.j = Judge(ctx, case, extra)
        self.ctx = ctx

    def var(self, block, field, var, stored, dim, unit, shape=None):
        """A Variable returned by the reader against the stored numbers (in ``unit``)."""
        ctx = self.ctx
        ctx.event('reader:variable')
        if var is None:
            self.j.bad('reader_value', block, field, 'reader returned None for a stored value',
                       mechanism='none')
            return
        vals = np.asarray(var.values)
        stored = np.asarray(stored, dtype=np.float64)
        want_shape = tuple(shape) if shape is not None else stored.shape
        if vals.shape != want_shape:
            self.j.bad('reader_shape', block, field, f'reader returns shape {vals.shape}, supplied / stored '
                       f'{want_shape}', mechanism='shape')
            return
        scale = LD(1)
        if var.unit is None:
            ctx.count('reader_unlabelled:' + field)
        else:
            try:
                got_dim, fac = dim_of_scipp_unit(var.unit)
            except KeyError:
                ctx.count('undecided:reader_unit_not_in_table')
                return
            ctx.event('reader:unit_dimension')
            if got_dim != dim:
                self.j.bad('reader_unit_dimension', block, field,
                           f'written as {dim} ({unit}), reader labels it {var.unit} ({got_dim})',
                           written_dim=dim, read_dim=got_dim, mechanism=f'{dim}->{got_dim}')
                return
            if dim != 'dimensionless':
                r = fac / unit_info(unit)[0]
                scale = si.ld(r.numerator) / si.ld(r.denominator)
        ok, _ = close64(vals.astype(LD) * scale, stored.reshape(want_shape).astype(LD),
                        tol=0 if scale == 1 else TOL64)
        if not ok:
            self.j.bad('reader_value', block, field,
                       f'reader returns {np.ravel(vals)[:5].tolist()} {var.unit}, stored '
                       f'{np.ravel(stored)[:5].tolist()} {unit}', mechanism='value')

    def same(self, block, field, got, want):
        self.ctx.event('reader:plain')
        if isinstance(want, np.ndarray) or isinstance(got, np.ndarray):
            g, w = np.asarray(got), np.asarray(want)
            if g.shape != w.shape:
                self.j.bad('reader_shape', block, field, f'reader returns shape {g.shape}, stored {w.shape}',
                           mechanism='shape')
            elif g.tobytes() != w.astype(g.dtype).tobytes() and not np.array_equal(g, w):
                self.j.bad('reader_value', block, field, 'reader returns different numbers', mechanism='value')
            return
        if got != want or type(got) is not type(want):
            self.j.bad('reader_value', block, field, f'reader returns {str(got)[:60]!r}, stored {str(want)[:60]!r}',
                       mechanism='value')


def _t(node):
    return node.text()


def _arr(node):
    return node.array()


def _list4(rd, block, field, got, stored, units, dims, arr_shape=None):
    if not isinstance(got, list) or len(got) != 4:
        rd.j.bad('reader_shape', block, field, f'reader returns {type(got).__name__} of '
                 f'{len(got) if hasattr(got, "__len__") else "?"}, stored 4 entries', mechanism='shape')
        return
    for i in range(4):
        rd.var(block, field, got[i], stored[i], dims[i], units[i], shape=arr_shape)


def read_back(ctx, S, sc, case, spec, target, f, buf, trace=None):
    """Sqw.read_data_block for every block vs the stored (decoded) content."""
    rd = Reader(ctx, case)
    cs = W.case_summary(case)
    bo = W.resolved(case['byteorder'])
    if isinstance(target, io.BytesIO):
        target.seek(W.base_of(case))
    form = W.REOPEN_FORMS[sum(case['vseed']) % 3]
    kw = {} if form == 'deduced' else {'byteorder': bo if form == 'str' else S.Byteorder[bo]}
    ctx.hit('reader_open:byteorder_' + form)
    fs = None if isinstance(target, io.BytesIO) else W.forms_of(case).get('reader_fs')
    fsc = FsChange(fs, target, buf, f) if fs else None
    to_open = target
    if fsc:
        try:
            to_open = fsc.name_to_open()
        except OSError:
            fsc.undo()
            ctx.oracle_error('C13 reader_fs ' + fs)
            return
    try:
        cm = S.Sqw.open(to_open, **kw)
        sqw = cm.__enter__()
    except Exception as e:  # noqa: BLE001
        if fsc:
            fsc.undo()
        ctx.violation('reader_open_raised', f'Sqw.open raised {type(e).__name__}: {e}', cs, mechanism='open')
        return
    if fsc:
        # from here on the NAME no longer leads to the file that was opened
        try:
            fsc.change()
        except OSError:
            fsc.undo()
            ctx.oracle_error('C13 reader_fs ' + fs)
            return
        rd.j.extra = {'reader_fs': fs}
        ctx.hit('reader_fs:' + fs)
    try:
        for b in f.block_list:
            d = b.descriptor
            blk = '/'.join(d.name)
            emodes = sorted({e['emode'] for e in spec['experiments']}) if d.name[1] == 'expdata' else None
            with warnings.catch_warnings(record=True) as wlist:
                warnings.simplefilter('always')
                try:
                    got = sqw.read_data_block(d.name)
                except Exception as e:  # noqa: BLE001
                    ctx.event('reader:blocks')
                    keys = {'exception': type(e).__name__, 'mechanism': 'reader'}
                    if not b.ok:
                        # the bytes are not what the table declares: writer-side cause
                        sm = W.string_mechanism(buf, d, bo) if d.block_type == 'data_block' else None
                        im = W.itemsize_mechanism(buf, d, bo) if d.block_type == 'data_block' and not sm else None
                        if d.block_type == 'pix_data_block':
                            keys['mechanism'] = W.pix_mechanism(trace, d.size)
                        elif im:
                            keys['mechanism'], keys['array'] = im['mechanism'], im['field']
                        else:
                            keys['mechanism'] = sm['mechanism'] if sm else 'stored_block_broken'
                        keys['stored_block_decodes'] = False
                    elif emodes and 'indirect' in emodes and isinstance(e, ValueError):
                        en_shapes = _indirect_en_shapes(b)
                        if any(len(s) == 2 and s[1] > 1 for s in en_shapes):
                            keys['mechanism'] = 'reader_indirect_en_2d'
                        keys['emode'] = 'indirect'
                    rd.j.bad('reader_raised', blk, '', f'read_data_block raised {type(e).__name__}: '
                             f'{str(e)[:200]}', **keys)
                    continue
            ctx.event('reader:blocks')
            unparsed = [str(w.message) for w in wlist if 'Unable to parse' in str(w.message)]
            if unparsed:
                rd.j.bad('reader_unparsed', blk, '', f'reader gives up: {unparsed[0][:200]}', mechanism='abort_parse')
                continue
            if not b.ok:
                ctx.count('reader_read_a_block_the_decoder_rejects')
                continue
            if fsc:
                ctx.event('reader:blocks_after_the_name_changed')
            try:
                _compare_block(rd, sc, case, spec, d, b, got)
            except D.DecodeError:
                ctx.count('reader_compare_skipped_unexpected_layout')
            except (AttributeError, TypeError, IndexError, KeyError) as e:
                rd.j.bad('reader_value', blk, '', f'returned object does not have the model layout: '
                         f'{type(e).__name__}: {e}', mechanism='model_layout')
        if W.forms_of(case).get('alias'):
            _alias_check(ctx, rd, sc, sqw, case, spec, target, f, buf)
    finally:
        if fsc:
            fsc.undo()
        try:
            cm.__exit__(None, None, None)
        except Exception:  # noqa: BLE001
            pass


class FsChange:
    """One change of the meaning of a file NAME between Sqw.open and read_data_block (W.READER_FS).  The
    'other file' has the same length, header and allocation table and every later byte inverted."""

    def __init__(self, how, target, buf, f):
        self.how = how
        self.path = os.path.abspath(os.fspath(target))
        self.dir, self.name = os.path.split(self.path)
        raw = np.frombuffer(bytes(buf), dtype=np.uint8).copy()
        raw[f.bat_end:] ^= 0xFF
        self.other = raw.tobytes()
        self.cwd0 = None
        self.extra = []
        self.link = None

    def _write_other(self, p):
        with open(p, 'wb') as fh:
            fh.write(self.other)
        self.extra.append(p)
        return p

    def name_to_open(self):
        if self.how.startswith('chdir'):
            self.cwd0 = os.getcwd()
            os.chdir(self.dir)
            return self.name                      # a relative name
        if self.how == 'symlink_retargeted':
            self.link = self.path + '.rl'
            os.symlink(self.path, self.link)
            self.extra.append(self.link)
            return self.link
        if self.how == 'hardlink_removed':
            self.link = self.path + '.hl2'
            os.link(self.path, self.link)
            self.extra.append(self.link)
            return self.link
        return self.path

    def change(self):
        how = self.how
        if how.startswith('chdir'):
            d2 = self.path + '.dir'
            os.makedirs(d2, exist_ok=True)
            self.extra.append(d2)
            if how == 'chdir_other_file':
                self._write_other(os.path.join(d2, self.name))
            os.chdir(d2)
        elif how == 'replaced':
            os.replace(self._write_other(self.path + '.new'), self.path)
        elif how == 'unlinked':
            os.remove(self.path)
        elif how == 'renamed':
            os.rename(self.path, self.path + '.moved')
            self.extra.append(self.path + '.moved')
        elif how == 'symlink_retargeted':
            other = self._write_other(self.path + '.other')
            os.remove(self.link)
            os.symlink(other, self.link)
        elif how == 'hardlink_removed':
            os.remove(self.link)
        else:
            raise ValueError(how)

    def undo(self):
        if self.cwd0 is not None:
            os.chdir(self.cwd0)
            self.cwd0 = None
        for p in reversed(self.extra):
            try:
                os.rmdir(p) if os.path.isdir(p) and not os.path.islink(p) else os.remove(p)
            except OSError:
                pass
        self.extra = []


def _alias_check(ctx, rd, sc, sqw, case, spec, target, f, buf):
    """What the reader returned is written into IN PLACE (where it is writable): the file keeps its bytes and a
    second read returns the stored numbers again (a result that shares memory with the stream, or that is
    handed out a second time, fails this although it was right when it was returned)."""
    rd.j.extra = {'second_read': 'after_writing_into_the_first_result'}
    for b in f.block_list:
        d = b.descriptor
        if not b.ok:
            continue
        blk = '/'.join(d.name)
        try:
            first = sqw.read_data_block(d.name)
            n = _scribble(first)
            if not n:
                continue
            ctx.event('reader:result_written_into', n)
            now = W.read_target(target)
            if now != buf:
                rd.j.bad('reader_result_aliases_file', blk, '', 'writing into the returned object changed the '
                         'bytes of the file / stream', mechanism='alias')
                return
            again = sqw.read_data_block(d.name)
        except Exception as e:  # noqa: BLE001
            if d.name == ('experiment_info', 'expdata') and any(x['emode'] == 'indirect' for x in spec['experiments']):
                continue
            rd.j.bad('reader_raised', blk, '', f'second read raised {type(e).__name__}: {str(e)[:200]}',
                     exception=type(e).__name__, mechanism='reader')
            continue
        try:
            _compare_block(rd, sc, case, spec, d, b, again)
        except D.DecodeError:
            ctx.count('reader_compare_skipped_unexpected_layout')
        except (AttributeError, TypeError, IndexError, KeyError) as e:
            rd.j.bad('reader_value', blk, '', f'returned object does not have the model layout: '
                     f'{type(e).__name__}: {e}', mechanism='model_layout')
    ctx.hit('reader:second_read_after_writing_into_the_first')
    rd.j.extra = {}


def _scribble(obj, depth=0):
    """Overwrite every writable numpy array / scipp Variable reachable from a reader result; number of
    arrays written."""
    import dataclasses

    n = 0
    if depth > 6 or obj is None or isinstance(obj, str | bytes | int | float | bool):
        return 0
    if isinstance(obj, np.ndarray):
        if obj.flags.writeable and obj.size:
            obj[...] = 77
            return 1
        return 0
    if hasattr(obj, 'values') and hasattr(obj, 'unit') and hasattr(obj, 'dims'):      # scipp Variable
        try:
            v = obj.values
            if isinstance(v, np.ndarray) and v.flags.writeable and v.size:
                v[...] = 77
                return 1
        except Exception:  # noqa: BLE001
            return 0
        return 0
    if isinstance(obj, list | tuple):
        return sum(_scribble(x, depth + 1) for x in obj[:4])
    if dataclasses.is_dataclass(obj):
        for fld in dataclasses.fields(obj):
            try:
                n += _scribble(getattr(obj, fld.name), depth + 1)
            except AttributeError:
                pass
    return n


def _indirect_en_shapes(b):
    try:
        arr = b.value.struct()['array_dat']
        return [tuple(s['en'].shape) for s in arr.value]
    except Exception:  # noqa: BLE001
        return []


def _compare_block(rd, sc, case, spec, d, b, got):
    name = d.name
    blk = '/'.join(name)
    if d.block_type == 'pix_data_block':
        rd.same(blk, 'pixels', np.asarray(got), b.value['data'])
        return
    if d.block_type == 'dnd_data_block':
        if not isinstance(got, tuple) or len(got) != 3:
            rd.j.bad('reader_shape', blk, '', 'reader does not return (values, errors, counts)', mechanism='shape')
            return
        for k, g in zip(('values', 'errors', 'counts'), got, strict=True):
            rd.same(blk, k, np.asarray(g), b.value[k])
        return
    st = b.value.struct()
    if name == ('', 'main_header'):
        rd.same(blk, 'full_filename', got.full_filename, _t(st['full_filename']))
        rd.same(blk, 'title', got.title, _t(st['title']))
        rd.same(blk, 'nfiles', got.nfiles, int(st['nfiles'].scalar()))
        if not isinstance(got.creation_date, _dt.datetime):
            rd.j.bad('reader_value', blk, 'creation_date', 'not a datetime', mechanism='value')
    elif name == ('pix', 'metadata'):
        rd.same(blk, 'full_filename', got.full_filename, _t(st['full_filename']))
        rd.same(blk, 'npix', got.npix, int(st['npix'].scalar()))
        rd.same(blk, 'data_range', np.asarray(got.data_range), _arr(st['data_range']))
    elif name == ('', 'detpar'):
        rd.same(blk, 'objects', list(got), [])
    elif name == ('experiment_info', 'instruments'):
        inner = st['unique_objects'].struct()
        n = inner['idx'].count()
        obj = inner['unique_objects'].value[0].struct() if inner['unique_objects'].value else None
        if not isinstance(got, list) or len(got) != n:
            rd.j.bad('reader_shape', blk, '', f'reader returns {len(got)} instruments, idx has {n}', mechanism='shape')
            return
        src = obj['source'].struct() if obj else None
        for g in got[:3]:
            rd.same(blk, 'name', g.name, _t(obj['name']))
            rd.same(blk, 'source.name', g.source.name, _t(src['name']))
            rd.same(blk, 'source.target_name', g.source.target_name, _t(src['target_name']))
            rd.var(blk, 'frequency', g.source.frequency, np.float64(src['frequency'].scalar()),
                   *WRITTEN['frequency'], shape=())
    elif name == ('experiment_info', 'samples'):
        inner = st['unique_objects'].struct()
        n = inner['idx'].count()
        obj = inner['unique_objects'].value[0].struct() if inner['unique_objects'].value else None
        if not isinstance(got, list) or len(got) != n:
            rd.j.bad('reader_shape', blk, '', f'reader returns {len(got)} samples, idx has {n}', mechanism='shape')
            return
        for g in got[:3]:
            rd.same(blk, 'name', g.name, _t(obj['name']))
            rd.var(blk, 'lattice_spacing', g.lattice_spacing, _arr(obj['alatt']), *WRITTEN['lattice_spacing'])
            rd.var(blk, 'lattice_angle', g.lattice_angle, _arr(obj['angdeg']), *WRITTEN['lattice_angle'])
    elif name == ('experiment_info', 'expdata'):
        recs = st['array_dat'].value
        if not isinstance(got, list) or len(got) != len(recs):
            rd.j.bad('reader_shape', blk, '', f'reader returns {len(got)} runs, stored {len(recs)}', mechanism='shape')
            return
        keep_extra = dict(rd.j.extra)
        for i, (g, s, e) in enumerate(zip(got, recs, spec['experiments'], strict=True)):
            bi = 'expdata[0]' if i == 0 else 'expdata[i>0]'
            rd.j.extra = {**keep_extra, 'emode': e['emode']}
            rd.same(bi, 'filename', g.filename, _t(s['filename']))
            rd.same(bi, 'filepath', g.filepath, _t(s['filepath']))
            rd.same(bi, 'run_id', g.run_id, int(s['run_id'].scalar()) - 1)
            rd.same(bi, 'emode', g.emode.name, 'direct' if s['emode'].scalar() == 1.0 else 'indirect')
            supplied_efix_shape = np.shape(e['efix']['values'])
            rd.var(bi, 'efix', g.efix, _arr(s['efix']).reshape(supplied_efix_shape), *WRITTEN['efix'],
                   shape=supplied_efix_shape)
            en = _arr(s['en'])
            if e['emode'] == 'direct':
                en = en.reshape(-1)
            rd.var(bi, 'en', g.en, en, *WRITTEN['en'])
            for a in ('psi', 'omega', 'dpsi', 'gl', 'gs'):
                rd.var(bi, a, getattr(g, a), np.float64(s[a].scalar()), *WRITTEN[a], shape=())
            rd.var(bi, 'u', g.u, _arr(s['u']), 'dimensionless', None)
            rd.var(bi, 'v', g.v, _arr(s['v']), 'dimensionless', None)
        rd.j.extra = keep_extra
    elif name == ('data', 'metadata'):
        a, p = st['axes'].struct(), st['proj'].struct()
        ga, gp = got.axes, got.proj
        ab, pb = 'axes', 'proj'
        rd.same(ab, 'title', ga.title, _t(a['title']))
        rd.same(ab, 'filename', ga.filename, _t(a['filename']))
        rd.same(ab, 'filepath', ga.filepath, _t(a['filepath']))
        rd.same(ab, 'label', list(ga.label), [_t(n) for n in a['label'].value])
        _list4(rd, ab, 'img_scales', ga.img_scales, _arr(a['img_scales']), Q_UNITS, Q_DIMS, arr_shape=())
        _list4(rd, ab, 'img_range', ga.img_range, _arr(a['img_range']), Q_UNITS, Q_DIMS, arr_shape=(2,))
        _list4(rd, ab, 'offset', ga.offset, _arr(a['offset']), Q_UNITS, Q_DIMS, arr_shape=())
        rd.same(ab, 'n_bins_all_dims', np.asarray(ga.n_bins_all_dims.values, dtype=np.float64),
                _arr(a['nbins_all_dims']))
        rd.same(ab, 'single_bin_defines_iax', [bool(x) for x in ga.single_bin_defines_iax.values],
                [bool(x) for x in a['single_bin_defines_iax'].value])
        rd.same(ab, 'dax', np.asarray(ga.dax.values, dtype=np.float64), _arr(a['dax']) - 1)
        rd.same(ab, 'changes_aspect_ratio', bool(ga.changes_aspect_ratio),
                bool(a['changes_aspect_ratio'].value[0]))
        rd.var(pb, 'lattice_spacing', gp.lattice_spacing, _arr(p['alatt']), *WRITTEN['lattice_spacing'])
        rd.var(pb, 'lattice_angle', gp.lattice_angle, _arr(p['angdeg']), *WRITTEN['lattice_angle'])
        _list4(rd, pb, 'offset', gp.offset, _arr(p['offset']), Q_UNITS, Q_DIMS, arr_shape=())
        rd.same(pb, 'title', gp.title, _t(p['title']))
        rd.same(pb, 'label', list(gp.label), [_t(n) for n in p['label'].value])
        rd.var(pb, 'u', gp.u, _arr(p['u']), *WRITTEN['u'])
        rd.var(pb, 'v', gp.v, _arr(p['v']), *WRITTEN['v'])
        if p['w'].count() == 0:
            rd.same(pb, 'w', gp.w, None)
        else:
            rd.var(pb, 'w', gp.w, _arr(p['w']), *WRITTEN['w'])
        rd.same(pb, 'non_orthogonal', bool(gp.non_orthogonal), bool(p['nonorthogonal'].value[0]))
        rd.same(pb, 'type', gp.type, _t(p['type']))


# ------------------------------------------------ C13's own additions to the C12 workload ---
# (a) bystanders: a pixel table may carry any number of further coordinates and masks; they are not among the
#     selected rows and must not change the file.  Names: the names of the two rows that are NOT coordinates
#     (signal = values, error = variances of the data), names the writer uses internally, the name of the pixel
#     dimension, near misses of row names; as 1-d coordinates (float64 / float32, in the declared unit of the row,
#     so that nothing but the NAME tells them from the data), bin-edge coordinates, 0-d coordinates, masks.
#     Their values are unlike every supplied row (>= 1000 above the largest supplied magnitude is not needed:
#     the comparison is exact).
BYSTANDERS = ('data_rows', 'data_rows_float32', 'data_rows_bin_edges', 'data_rows_0d', 'internal_names',
              'masks_named_after_rows')
INTERNAL_NAMES = ('row', 'rows', 'pix', 'pixels', 'data', 'values', 'variances', 'npix', 'n_pixels', 'data_range',
                  'row_units', 'chunk', '', ' signal', 'Signal', 'error ', 'u5', 'u0', 'run', 'irun_', 'metadata')
# (b) results that are KEPT: what read_data_block returned for a file stays what it was when the file at that path
#     is afterwards written again by the builder / overwritten in place / truncated and rewritten with content of
#     the same size / replaced / deleted, for arrays below and from 64 KiB (the page-cache / buffer sizes of the
#     platform); the results are ordinary aligned arrays the caller can write into, and writing into them does
#     not change the file.
STALE_HOWS = ('rewritten_by_the_builder', 'overwritten_in_place', 'truncated_and_rewritten', 'replaced', 'deleted')
STALE_SIZES = ('below_64KiB', 'from_64KiB')
EXTRA_ITEM_BASE = 1_000_000


def extra_items(shard):
    """Items of C13 only (same format as W.make_items), dealt out over the shards."""
    tier, seed = shard.get('tier', 'quick'), int(shard.get('seed', 0))
    orders = ('native', 'little', 'big')
    cases = []
    for i, kind in enumerate(BYSTANDERS):
        for j in range(2):
            k = 2 * i + j
            cases.append(W._base_case(
                forms={'bystander': kind}, npix=(1, 9, 57, 300, 2000)[(k + seed) % 5],
                chunk=(None, 1, 7, 64)[(k + seed) % 4], byteorder=orders[(k + seed) % 3],
                target=('bytesio', 'file')[(i + j + seed) % 2],
                rowset=('default', 'explicit', 'reordered', 'custom_units')[(k + seed) % 4],
                dtypes=('mixed', 'all_f64')[(i + seed) % 2], values=('forced', 'wide')[j],
                program=list(W.CALLS) if j else ['pix']))
    for i, how in enumerate(STALE_HOWS):
        for j in range(2):
            cases.append(W._base_case(
                forms={'stale': how}, target='file', mode='direct', values='wide', byteorder=orders[(i + j + seed) % 3],
                npix=1820 if j == 0 else 1821 + ((seed + i) * 211) % 1500,
                dnd_bins=[16, 16, 4, 7] if j == 0 else [16, 16, 8, 4], chunk=(None, 1000)[(i + seed) % 2],
                path=('plain', 'nonascii')[(i + j) % 2]))
    cases.append(W._base_case(forms={'stale': STALE_HOWS[seed % 3]}, target='file', mode='direct', values='wide',
                              byteorder=orders[(seed + 1) % 3], npix=20000, dnd_bins=[32, 16, 8, 4]))
    items = []
    for k, c in enumerate(cases):
        if (k + 3) % shard['of'] != shard['part']:
            continue
        c['vseed'] = [seed, 13, k, 0]
        c['tier'] = tier
        items.append({'kind': 'single', 'cases': [c], 'item': EXTRA_ITEM_BASE + k})
    return items


def add_bystanders(sc, da, spec, case):
    """Further coordinates / masks on the pixel table ``da`` (in place): inputs, not expectations."""
    kind = W.forms_of(case)['bystander']
    n = spec['pix']['n']
    dim = da.dim
    r = np.random.Generator(np.random.PCG64([*case['vseed'], 41]))

    def col(m, unit, dtype='float64', lo=1000.0):
        return sc.array(dims=[dim], values=r.uniform(lo, 2 * lo, size=m), unit=unit, dtype=dtype)

    if kind in ('data_rows', 'data_rows_float32'):
        dt = 'float32' if kind.endswith('32') else 'float64'
        da.coords['signal'] = col(n, 'count', dt)
        da.coords['error'] = col(n, 'count**2', dt, 30.0)
    elif kind == 'data_rows_bin_edges':
        da.coords['signal'] = col(n + 1, 'count')
        da.coords['error'] = col(n + 1, 'count**2', lo=30.0)
    elif kind == 'data_rows_0d':
        da.coords['signal'] = sc.scalar(float(r.uniform(1000, 2000)), unit='count')
        da.coords['error'] = sc.scalar(float(r.uniform(30, 60)), unit='count**2')
    elif kind == 'internal_names':
        for k, name in enumerate((*INTERNAL_NAMES, dim)):
            if name not in da.coords:
                da.coords[name] = col(n, ('count', 'count**2', '1/angstrom', 'meV', None)[k % 5])
    elif kind == 'masks_named_after_rows':
        for name in (*W.ROWS, 'row', 'pix'):
            da.masks[name] = sc.array(dims=[dim], values=r.random(n) < 0.5)
    else:
        raise ValueError(kind)


def _arrays(obj, depth=0):
    """Every numpy array reachable from a reader result (arrays, Variables, lists / tuples, dataclasses)."""
    import dataclasses

    if depth > 6 or obj is None or isinstance(obj, str | bytes | int | float | bool):
        return []
    if isinstance(obj, np.ndarray):
        return [obj]
    if hasattr(obj, 'values') and hasattr(obj, 'unit') and hasattr(obj, 'dims'):
        try:
            v = obj.values
        except Exception:  # noqa: BLE001
            return []
        return [v] if isinstance(v, np.ndarray) else []
    if isinstance(obj, list | tuple):
        return [a for x in obj[:4] for a in _arrays(x, depth + 1)]
    out = []
    if dataclasses.is_dataclass(obj):
        for fld in dataclasses.fields(obj):
            try:
                out += _arrays(getattr(obj, fld.name), depth + 1)
            except AttributeError:
                pass
    return out


def kept_results(ctx, S, sc, case, spec, target, f, buf):
    """Read every block of the file just written (= ``buf``, decoded as ``f``) and KEEP the results; change the
    file at the path; the kept results must still be the numbers of the file they were read from."""
    how = W.forms_of(case)['stale']
    path = os.fspath(target)
    rd = Reader(ctx, case)
    base = {'kept_result': 'file_' + how}
    kept = []
    try:
        with warnings.catch_warnings():
            warnings.simplefilter('ignore')
            with S.Sqw.open(path) as sqw:
                for b in f.block_list:
                    if not b.ok:
                        continue
                    try:
                        kept.append((b, sqw.read_data_block(b.descriptor.name)))
                    except Exception:  # noqa: BLE001   (judged by read_back)
                        ctx.count('kept_results:block_not_read')
    except Exception:  # noqa: BLE001   (judged by read_back)
        ctx.count('kept_results:open_failed')
        return
    # ---- the form of the results: ordinary arrays (aligned, writable)
    big = False
    for b, got in kept:
        blk = '/'.join(b.descriptor.name)
        for a in _arrays(got):
            ctx.event('reader:result_array_form')
            big = big or a.nbytes >= 1 << 16
            if not (a.flags.aligned and a.flags.writeable):
                rd.j.extra = dict(base)
                rd.j.bad('reader_result_array_form', blk, '', f'returned array of {a.nbytes} bytes, dtype {a.dtype}: '
                         f'aligned={a.flags.aligned} writeable={a.flags.writeable}',
                         mechanism='not_aligned' if not a.flags.aligned else 'not_writable')
    # ---- the file at the path changes
    raw = np.frombuffer(bytes(buf), dtype=np.uint8).copy()
    raw[f.bat_end:] ^= 0xFF
    other = raw.tobytes()                     # same length, header and table; every later byte inverted
    if how == 'rewritten_by_the_builder':
        case2 = dict(case, vseed=[*case['vseed'], 99], forms=None)
        spec2 = W.gen_spec(np.random.Generator(np.random.PCG64(case2['vseed'])), case2)
        models2 = W.build_models(S, sc, spec2, case2['program'], case2)
        W.run_program(S, case2, spec2, models2, target)         # (not judged: no case is current)
    elif how == 'overwritten_in_place':
        with open(path, 'r+b') as fh:
            fh.write(other)
    elif how == 'truncated_and_rewritten':
        with open(path, 'wb') as fh:
            fh.write(other)
    elif how == 'replaced':
        with open(path + '.new', 'wb') as fh:
            fh.write(other)
        os.replace(path + '.new', path)
    elif how == 'deleted':
        os.remove(path)
    else:
        raise ValueError(how)
    now = W.read_target(target) if how != 'deleted' else None
    if now is not None and now == buf:
        ctx.count('undecided:kept_results_file_did_not_change')
        return
    # ---- the kept results against the file they were read from
    for b, got in kept:
        d = b.descriptor
        blk = '/'.join(d.name)
        rd.j.extra = dict(base)
        ctx.event('reader:kept_results_compared_after_the_file_changed')
        try:
            _compare_block(rd, sc, case, spec, d, b, got)
        except D.DecodeError:
            ctx.count('reader_compare_skipped_unexpected_layout')
        except (AttributeError, TypeError, IndexError, KeyError) as e:
            rd.j.bad('reader_value', blk, '', f'returned object does not have the model layout: '
                     f'{type(e).__name__}: {e}', mechanism='model_layout')
    ctx.hit('kept_result:file_' + how + ':' + STALE_SIZES[int(big)])
    # ---- writing into the kept results does not reach the file
    rd.j.extra = dict(base)
    wrote = sum(_scribble(got) for _, got in kept)
    ctx.event('reader:result_written_into', wrote)
    if now is not None and W.read_target(target) != now:
        rd.j.bad('reader_result_aliases_file', 'file', '', 'writing into results that were kept changed the bytes '
                 'of the file at the path', mechanism='alias')


# ------------------------------------------------------------------- driver ---
N_SHARDS = W.N_SHARDS


def plan(tier, seed):
    return W.plan(tier, seed)


def requirements(tier):
    return {
        'events': {'content:files': 300, 'content:string': 2000, 'content:number': 4000,
                   'content:runs': 500, 'content:pixel_blocks': 200, 'content:pixels': 100000,
                   'content:pixels_beyond_float32': 200,
                   'content:data_range': 100, 'content:data_range_of_masked_pixels': 10,
                   'content:histogram': 200, 'reader:blocks': 2000, 'reader:blocks_after_the_name_changed': 30,
                   'reader:result_written_into': 10, 'fresh_interpreter:runs': 2, 'content:histogram_in_a_stream_that_was_not_empty': 10,
                   'content:pixels_of_a_table_with_bystanders': 500,
                   'reader:kept_results_compared_after_the_file_changed': 60, 'reader:result_array_form': 200,
                   'reader:variable': 2000, 'reader:unit_dimension': 2000, 'reader:plain': 2000},
        'forced': W.FORCED + ['value:forced', 'value:wide', 'value:extreme', 'row_unit_converted', 'row_float32',
                              'row_int_in_float_row', 'angle_deg', 'angle_rad', 'lattice_nm',
                              'f32_overflow:+inf', 'f32_overflow:-inf', 'f32_overflow:variance',
                              'f32_overflow:signal', 'f32_overflow:only_after_unit_conversion',
                              'f32_finite:only_after_unit_conversion', 'f32_overflow:tie_at_threshold',
                              'f32_max:rounds_to_largest_finite', 'f32_max:exact', 'f32_underflow:to_zero',
                              'f32_underflow:denormal', 'reader_open:byteorder_deduced',
                              'reader_open:byteorder_str', 'reader_open:byteorder_enum',
                              *('reader_fs:' + k for k in W.READER_FS),
                              'reader:second_read_after_writing_into_the_first',
                              *('data_range:masks=' + k for k in W.MASK_CLASSES),
                              *('bystander:' + k for k in BYSTANDERS),
                              *(f'kept_result:file_{h}:{z}' for h in STALE_HOWS for z in STALE_SIZES)],
    }


def hit_values(ctx, case, spec):
    if 'pix' in case['program']:
        ctx.hit('value:' + case['values'])
        px = spec['pix']
        rows = px['rows']
        sel = list(zip(px['row_names'], px['row_units'], strict=True))
        if any(rows[n]['unit'] != u for n, u in sel):
            ctx.hit('row_unit_converted')
        if any(rows[n]['dtype'] == 'float32' for n, _ in sel):
            ctx.hit('row_float32')
        if any(rows[n]['dtype'] in ('int64', 'int32') and W.ROW_KIND[n] == 'float' for n, _ in sel):
            ctx.hit('row_int_in_float_row')
        for e in spec['experiments']:
            ctx.hit('angle_' + e['psi']['unit'])
    if 'samp' in case['program'] and spec['sample']['alatt']['unit'] == 'nm':
        ctx.hit('lattice_nm')


def run(shard, ctx):
    import scipp as sc
    from scippneutron.io import sqw as S
    from scippneutron.io.sqw import _build as S_build
    from scippneutron.io.sqw import _low_level_io as S_low

    bad = si.self_test()
    if bad:
        ctx.inconclusive_because('unit table cross-check failed: ' + '; '.join(bad))
        return
    items = W.items_of_shard(shard) + extra_items(shard)
    cwd_at_start = os.getcwd()
    tmpdir = tempfile.mkdtemp(prefix='rv-c13-')
    state = {'case': None, 'target': None, 'spec': None, 'file': None, 'buf': None, 'judged': False,
             'refused': False}
    tr = Tracer()

    def on_create_return(ev, trace):
        case, target, spec = state['case'], state['target'], state['spec']
        if case is None:
            return
        if W.expected_exception(ctx, case, ev.exc):
            state['refused'] = state['refused'] or bool(case.get('may_refuse'))
            return
        state['judged'] = True
        if ev.exc is not None:
            ctx.violation('create_raised', f'SqwBuilder.create raised {type(ev.exc).__name__}: {ev.exc}',
                          W.case_summary(case), exception=type(ev.exc).__name__)
            return
        try:
            buf = W.read_target(target)
            state['buf'] = buf
            state['trace'] = trace
            state['file'] = judge_content(ctx, case, spec, target, buf, trace)
        except Exception:  # noqa: BLE001
            ctx.oracle_error('C13 judge_content')

    wt = W.WriterTrace(tr, S_build, S_low, on_create_return)
    ctx.extra['hooked'] = wt.hooked
    try:
        with tr:
            for it in items:
                session = {}
                for case0 in it['cases']:
                    rng = np.random.Generator(np.random.PCG64(case0['vseed']))
                    spec = W.gen_spec(rng, case0)
                    case0, spec = W.continue_from(session, case0, spec)
                    models = W.build_models(S, sc, spec, case0.get('calls', case0['program']), case0)
                    W.describe_rows(case0, spec)
                    if W.forms_of(case0).get('bystander') and 'pix' in models:
                        add_bystanders(sc, models['pix'], spec, case0)
                    for case in W.case_reps(case0):
                        spec = W.mutated(sc, case, spec, models)
                        target = W.open_target(case, tmpdir, rng, session)
                        state.update(case=case, target=target, spec=spec, file=None, buf=None, judged=False,
                                     refused=False)
                        before = ctx.n_violations
                        try:
                            W.run_program(S, case, spec, models, target,
                                          session if case.get('reuse_path') else None, ctx)
                        except Exception as e:  # noqa: BLE001  (create: judged by the monitor, PY_UNWIND)
                            if state['refused']:
                                pass
                            elif not state['judged'] and case.get('may_refuse') and isinstance(e, W.REFUSAL):
                                ctx.count('refusal:' + case['may_refuse'])
                                state['refused'] = True
                            elif not state['judged']:
                                # a valid builder program did not get as far as create()
                                ctx.violation('builder_raised', f'{type(e).__name__}: {str(e)[:200]} (before create)',
                                              W.case_summary(case), exception=type(e).__name__)
                        state['case'] = None
                        f = state['file']
                        if f is not None and not (f.header_error or f.bat_error):
                            try:
                                read_back(ctx, S, sc, case, spec, target, f, state['buf'], state.get('trace'))
                            except Exception:  # noqa: BLE001
                                ctx.oracle_error('C13 read_back')
                        elif not state['judged'] and not state['refused']:
                            ctx.count('create_not_observed')
                        if f is not None and not (f.header_error or f.bat_error) and \
                                W.forms_of(case).get('stale') and not isinstance(target, io.BytesIO):
                            try:
                                kept_results(ctx, S, sc, case, spec, target, f, state['buf'])
                            except Exception:  # noqa: BLE001
                                ctx.oracle_error('C13 kept_results')
                        W.close_case(session, case, spec, target, f)
                        W.hit_forced(ctx, case, spec)
                        hit_values(ctx, case, spec)
                        ctx.case((*W.signature(case, spec), case['values']),
                                 trivial=(not case['program'] and case['byteorder'] == 'native'
                                          and case.get('existing') is None))
                        if ctx.n_violations > before or (it['item'] % 97 == 0 and case0 is it['cases'][0]):
                            ctx.sample(W.case_summary(case))
                        state.update(target=None, file=None, buf=None, trace=None)
                        del target, f
                    state['spec'] = None
                    del spec, models
                W.close_item(session)
        if shard['part'] == W.FRESH_SHARD % shard['of']:
            try:
                W.fresh_interpreter(ctx, tmpdir, int(shard.get('seed', 0)))
            except Exception:  # noqa: BLE001
                ctx.oracle_error('C13 fresh_interpreter')
    finally:
        os.chdir(cwd_at_start)
        shutil.rmtree(tmpdir, ignore_errors=True)


# ------------------------------------------------------------ known findings ---
def _k(v):
    return v.get('keys') or {}


FINDING_PREDICATES = {
    # writer: chunk loop bounded by the row count -> pixels beyond the loop are not in the file
    'sqw.writer.pix_chunk_loop_bound': lambda v: v['kind'] in ('pixels_missing', 'reader_raised')
    and _k(v).get('mechanism') == 'pix_chunk_loop_bound',
    # writer: char-array length counted in characters -> block content undecodable / unreadable
    'sqw.writer.string_length_in_characters': lambda v: v['kind'] in ('block_undecodable', 'reader_raised',
                                                                     'content_string')
    and _k(v).get('mechanism') == 'string_length_in_characters',
    # writer: data_range of the pixel metadata keeps the dtype of the rows (all rows float32 / int32:
    # 4-byte items under the f64 tag, block undecodable / unreadable; all rows int64: integer bit
    # patterns under the f64 tag)
    'sqw.writer.pix_data_range_dtype': lambda v: _k(v).get('block') in ('pix/metadata',) and (
        (v['kind'] in ('block_undecodable', 'reader_raised') and _k(v).get('mechanism') == 'f64_tag_4_byte_items'
         and _k(v).get('array') == 'data_range')
        or (v['kind'] == 'pix_metadata' and _k(v).get('mechanism') == 'f64_tag_integer_items')),
    # reader: alatt (written in angstrom) labelled 1/angstrom in IX_sample and line_proj
    'sqw.reader.alatt_unit_dimension': lambda v: v['kind'] == 'reader_unit_dimension'
    and _k(v).get('field') == 'lattice_spacing' and _k(v).get('written_dim') == 'length'
    and _k(v).get('read_dim') == '1/length' and _k(v).get('block') in ('experiment_info/samples', 'proj'),
    # reader: indirect-mode experiment records (2-d en) cannot be read back
    'sqw.reader.indirect_en_2d': lambda v: (
        v['kind'] == 'reader_raised' and _k(v).get('mechanism') == 'reader_indirect_en_2d'
        and _k(v).get('block') == 'experiment_info/expdata')
    or (v['kind'] == 'reader_shape' and _k(v).get('field') in ('en', 'efix') and _k(v).get('emode') == 'indirect'),
}


# strict-caller variant shard of the runner (numpy floating-point events raise while package code runs): on the
# unchanged tree the float32 cast of pixel values beyond / below the float32 range overflows / underflows (the stored value is the IEEE result);
# these benign events are therefore not trapped for this property
STRICT_NUMPY = {'under': 'ignore', 'over': 'ignore'}
