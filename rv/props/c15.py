"""C15 XYE files round-trip coordinates and values exactly, uncertainties to rounding.

Four monitors sit on the code objects of ``save_xye``, ``load_xye``, ``_deduce_coord`` and
``_generate_xye_header`` (sys.monitoring), so they judge whatever drives these functions:

* FILE monitor (return of ``save_xye`` for representable input): the text this call put into the
  target -- the whole file for a path, for a file object exactly the text between the position it
  had when the call began and the position it has afterwards (bytes on disk for handles,
  ``getvalue()`` for StringIO); what stood in front of that position must still stand there -- is
  decoded by an independent parser.  Every non-comment, non-blank line must hold exactly three numbers;
  there must be exactly as many such lines as rows supplied, whatever the header contains;
  ``float(token)`` of columns 1 / 2 must equal the supplied coordinate / value bit for bit
  and column 3 must be sqrt(variance) to 2 ulp.
* ROUND-TRIP monitor (return of ``load_xye`` on a target monitored saves wrote): a path is read
  from its start, a file object ("Name or file handle of the input file") from the position it has
  when the call begins, both to the end.  Expected are the rows of the tables saved into that range
  (all rows of a table that starts in it, the remaining rows of one the caller has partly consumed,
  one after the other if several tables follow), provided the independent parser finds that whatever
  else the caller put into the range is comment or blank lines: row count, coordinate and values
  bitwise (raw bytes, so -0.0 and denormals count), variances within 4 ulp, dims / coord name /
  units as requested.
* REFUSAL monitor (return of ``save_xye`` for input the format cannot represent): must raise
  one of the module's refusal types and leave the target as it was when the call began (a fresh
  path absent or empty, a stream that already holds tables unchanged).
* COORD-CHOICE monitor (return of ``_deduce_coord``) against the documented rule ("only one
  coordinate -> that one; several -> the one named like da.dim; else an error"), which speaks of the
  coordinates of ``da`` whatever state they are in (aligned or not, per-row or scalar).

Text outside ASCII: a header the caller supplies is quantified over ASCII only, but the header
``save_xye`` generates itself is made from the coordinate name and the unit strings of the data, and
scipp prints angstrom, micro- and degree-units with 'Å', 'µ', '°'.  Such data are ordinary members of
"one-dimensional data with variances", so their files are judged like all others (the monitors read
files as bytes, one character per byte, so offsets stay byte offsets; comment lines may hold any
bytes) as long as the text encoding of the target (what ``open()`` uses by default for a path, the
``encoding`` of a handle, none for StringIO) can encode the generated header at all.

Targets: "Name or file handle" is taken the way numpy's text writer / reader take it -- any ``str`` or
``os.PathLike`` whose ``__fspath__`` is a ``str`` (pathlib or not), and any object with ``write()`` (saving) /
that hands out lines (loading), whether or not it derives from ``io.IOBase``.  Handles that carry a file name
(``open()``, ``NamedTemporaryFile``, ``codecs.open``, ``gzip.open(..., 'wt')``) are looked into through that
name; for the others (``TemporaryFile``, ``SpooledTemporaryFile``, ``TextIOWrapper`` over ``BytesIO``, bz2 /
lzma text handles, user objects) the driver registers *where the text can be observed* (``Monitors.register``);
a bz2 / lzma handle shows its text only once closed, so its file is judged then (``finish_target``).

Coordinates: only the coordinate that is WRITTEN (named with ``coord=`` or selected by the documented rule)
decides whether the data can be represented; every other coordinate may be of any kind scipp lets a 1-d data
array carry (bin-edges, other dtypes, variances, scalars, leftovers of slicing).

The calling side: the numbers in a file and the arrays that come back are a function of the data alone.  They do
not depend on process-wide settings that change how numbers are rendered or parsed elsewhere (numpy's print options
incl. the legacy modes, the locale incl. one with a decimal comma, the ``decimal`` context, the working directory
under which a relative name is given): the driver sets each of them before the call(s) it covers and puts it back
afterwards, the monitors judge the file / the result as always.  Nor do they depend on the calling convention the
signature allows, on the kind of ``str`` a name is (``numpy.str_``, a subclass, a member of a ``(str, Enum)``), on
units given as ``scipp.Unit`` or as text, on what the dimension is called, on the data array being a subclass, on
the same data / target / result having been used before, or on display / copy operations on the package's own
``GenerateHeader`` object between two calls.  A call in a documented convention that raises while its arguments
are bound never reaches the call-boundary monitors; the driver reports it (``call_not_accepted``).

Path targets: a name stands for the file the operating system finds under it when the call begins.  The monitors
resolve every name themselves at that moment (``os.path.realpath``: links followed, '..' taken in the directory a
link leads to, relative names under the working directory of that moment; ``os.stat`` identity; a descriptor on the
file that stands there before a writing call) and judge THAT file: it must hold the document afterwards, also when
the name is a symbolic link (to a file, to a file that does not exist yet, to another link), when the file has a
second hard-linked name or is held open by a reader, and a load under any spelling of the name ('a/../a/f', through
a linked directory and back up with '..', relative after a change of directory, the other hard link, a handle opened
under a relative name) returns the table that file holds.  Names are taken character by character: '~', '$HOME',
glob / format / URL characters, spaces, line ends, and characters that merely normalise (NFC / NFKC) to another name
denote their own file.  The same holds for coordinate and dimension names.

Objects used again: the data array handed to ``save_xye`` is what it was before the call; the same objects handed in
again after the caller changed them in place give the table of the NEW contents; what ``load_xye`` returned earlier
does not change when the caller overwrites a later result or when the target is written and read again.  The first
call a fresh interpreter makes (only ``scippneutron.io.xye`` imported) gives what every other call gives.

Nothing here calls scippneutron to obtain an expected value: expectations are the supplied
arrays themselves (bytes) and a long-double square root.
"""

from __future__ import annotations

import codecs
import contextlib
import copy
import decimal
import enum
import io
import locale
import os
import pathlib
import pickle
import re
import shutil
import struct
import tempfile

import numpy as np
import scipp as sc

from rv.trace import Tracer

ID = 'C15'
LEVEL = 'exploration'
RULE = (
    'case = one save_xye call (plus load_xye of what it wrote) on a generated 1-d data array: '
    'values from {+-0, denormal min, min normal, 1 +- ulp, max float, random finite bit patterns, '
    'ordinary}, 1..1e4 rows, 1..5 coordinates with/without coord=, header class (generated with '
    'benign or hostile coordinate names, generated from a coordinate unit / data unit / both whose scipp '
    'string form is not ASCII (every such unit of a pool: angstrom, 1/angstrom, us, uA, um, degC, ...) or from '
    'a coordinate name outside ASCII (latin-1, Greek, CJK, astral), each of these x header source (generated, '
    'user text, empty) x target (str path, pathlib path, .gz/.bz2/.xz path, handle, CRLF handle, both StringIO '
    'kinds), path-written files read back through the path and through a default text handle, a path that '
    'already holds a longer file whose bytes are not UTF-8; empty, ASCII text with #, LF, CRLF, bare CR, data-row '
    'lookalikes, other ASCII control characters), target kind (str path, pathlib path, StringIO, '
    'StringIO(newline=None), text handle, CRLF text handle), coordinate state (built from variables; '
    'alignment flags cleared at random; integer slice / length-1 range + squeeze of 2-d data in either '
    'memory layout, 1-d and 2-d coordinates, outer coordinates left behind as unaligned scalars; plain '
    'scalar coordinates; dimension-coordinate present or not), kind of the coordinates that are NOT written '
    '(every kind x written one named with coord= / deduced as dimension-coordinate / the unwritten one being the '
    'dimension-coordinate: bin-edges of float, int, string, datetime; int64, int32, float32, bool, string, '
    'datetime, vector, with variances; scalar string / datetime / vector / int; bin-edges of the dimension '
    'sliced away; several kinds side by side), kind of file-like target written x kind of source read '
    '(NamedTemporaryFile, TemporaryFile, SpooledTemporaryFile in memory and rolled over, codecs.open in ascii / '
    'utf-8 / latin-1, gzip / bz2 / lzma text handles, TextIOWrapper over BytesIO, an object with nothing but '
    'write(), os.PathLike that is not pathlib.Path, PurePosixPath, os.DirEntry, str subclass; read through the '
    'same object, a path of any of these kinds, a default text handle, a codecs reader, a decompressing text '
    'handle, an iterator / iterable of lines); or one save_xye call on an input class '
    'the format cannot represent (same coordinate states); or one stream case: a StringIO or real text '
    'handle (w+, w+ CRLF, a+, w then a second read handle, NamedTemporaryFile, TemporaryFile, SpooledTemporaryFile) receives 2..5 things in a row (tables, refused '
    'saves, caller-written title / comment / number lines), tables are read back from their start offset '
    '(seek, or reading lines up to it, or reading on into header / rows) right after they were written and '
    'at the end, from offset 0 and through the path; or one case of the calling side: every process-wide setting that '
    'changes how numbers are rendered / parsed (numpy print options: each legacy mode this numpy has, precision, '
    'floatmode, suppress, sign, formatter, summarising thresholds, as set_printoptions and as printoptions context; '
    'locale: C.utf8 and a locale with a decimal comma for LC_NUMERIC / LC_ALL -- an installed one or a copy of C.utf8 '
    'with "," found through LOCPATH; decimal context with low precision / traps; relative names under another working '
    'directory) x the call it covers (save, load, both) on values that need every digit; every calling convention '
    '(positional, keyword, mixed, reordered keywords, defaults spelled out); names as numpy.str_ / str subclass / '
    '(str, Enum) member x coord given / deduced; units as scipp.Unit / numpy.str_ / str subclass; 15 dimension names '
    'that occur in the package or scipp (row, event, x, Y, E, dim_0, coord, header ...); DataArray subclass and a '
    'StringIO subclass overriding write(); second use (same data to two targets, same path twice with a read in '
    'between, same handle twice, a path after a refused save, the loaded result saved again, load twice, load after a '
    'failed load) and 9 display / copy / pickle / comparison operations on GenerateHeader between calls; binned data '
    '(bin masks, event masks) among the refusals; one heavy table (2**17+7 rows quick, 2**20+7 thorough) on a shard '
    'of its own; file-system forms of path targets, every one in every run (name = symbolic link to a file / to a file '
    'that does not exist yet / to a link, link text absolute and relative; second hard-linked name; file held open by a '
    'reader; <linked directory>/../name with another file where the text of the name collapses to, absolute, relative, '
    'str and pathlib; a/../a/f, a//f, ./a/./f; through a linked directory and directly; relative names with the working '
    'directory changed between the calls; a handle opened under a relative name before the directory changes; 46 names '
    'with ~, $HOME, glob / format / URL characters, spaces, line ends, other scripts, and names not in NFC / NFKC form '
    'next to a file under the normalised name; StringIO made with initial content (overwritten, appended to), StringIO / '
    'w+ handle rewound after an earlier write), each saved and loaded under the same and under another spelling; 12 '
    'coordinate / dimension names not in NFC / NFKC form next to a coordinate under the normalised name x coord= given / '
    'deduced x which of the two is written; 2 / 3 / 4 rows (the 3 columns) and 49999 / 50000 / 50001 rows (chunk of the text '
    'reader); the same data array saved again after values / variances / a slice of the coordinate / single elements were '
    'changed in place; results scribbled over or followed by other calls; the first call of a fresh interpreter that '
    'imported scippneutron.io.xye only (save to StringIO and path, load).  distinct = distinct (accept/refuse class, target, '
    'header class, n coords, coord= given, row band, value class, coordinate-state route, non-ASCII class; stream: target, '
    'header class, first / behind other content); trivial = ordinary values, generated header, one benign '
    'coordinate built from variables'
)
ASSUMPTIONS = [
    'variances are finite and >= 0 (a standard deviation is stored); values/coordinates are any finite float64',
    'a text file is read with universal newlines (LF, CRLF, bare CR end a line) as Python text mode and '
    'numpy.loadtxt do; an io.StringIO() target is read with its own convention (LF only)',
    'refusal types accepted: scipp.VariancesError, scipp.DimensionError, scipp.CoordError, ValueError '
    '(the types raised by the module and pinned by its tests; the docstring only says "raise an error")',
    'a file object is used as file handles are: save_xye writes at its current position (append-mode handles at '
    'the end) and load_xye reads from its current position to the end; text the caller wrote into the range '
    'that is read must be comment or blank lines, otherwise the read is executed and counted, not judged',
    'the documented coordinate choice (one coordinate -> it; several -> the one named like da.dim; else error) '
    'counts every coordinate of the data array alike: aligned or unaligned, per-row or scalar. If the rule '
    'selects a coordinate without a value per row (a scalar), the save is executed and counted, not judged',
    'zero-dimensional input counts as "not one-dimensional" and must be refused (docstring: "The input must be '
    '1-dimensional"; the code raises DimensionError for ndim != 1)',
    '"path and file-object targets" are what numpy.savetxt / numpy.loadtxt take as "filename or file handle" on the '
    'unchanged tree: str and os.PathLike names (fspath a str), objects with write() / objects that hand out lines, '
    'io.IOBase or not. bytes names, integer file descriptors (rejected by numpy itself) and binary handles (the '
    'signature says TextIO) are outside: counted or not generated',
    'a codecs stream reader ends lines wherever str.splitlines does (VT, FF, FS, GS, RS, NEL, LS, PS); files and '
    'numpy do not: a load through such a reader of text holding these characters is executed and counted, not judged',
    'only the coordinate that is written decides representability ("bin edges" = the written coordinate is '
    'bin-edges); data or written coordinate of another dtype than float64 are outside the quantifier: counted',
    'header text supplied by the caller outside ASCII is outside the quantifier: executed and counted, not '
    'judged. The header save_xye generates itself (coordinate name, unit strings such as scipp prints for '
    'angstrom, us, degC) belongs to the data, not to the caller: such files are judged, provided the text '
    'encoding of the target (default encoding of open() in this process for paths, .encoding of a handle; '
    'StringIO has none) can encode the header, and a reader handle uses the encoding of the writer',
    'process-wide settings (numpy print options, locale, decimal context, working directory) are not among the '
    'inputs of the property: the same data give the same file and the same arrays under each of them. Whether a '
    'call leaves such a setting as it found it is outside the property: seen and counted',
    'the documented signatures define the calling conventions: save_xye(fname, da, *, coord, header), '
    'load_xye(fname, *, dim, unit, coord_unit, coord), each positional-or-keyword parameter either way; "str" '
    'includes its subclasses (numpy.str_, members of a (str, Enum)), which stand for their characters',
    'a path target denotes the file the operating system finds under the name when the call begins (links followed, '
    '".." resolved in the directory a link leads to, relative names under the current working directory); saving puts '
    'the document into that file (a second hard-linked name and a reader that holds the file open see it), not into '
    'another file that takes over the name. The file system keeps names that differ in any code point apart (checked per case)',
    'binary file objects (BytesIO, handles opened in "b" mode) are outside "TextIO": not generated',
    'a written coordinate that carries variances of its own is neither in the list of refusals nor exactly '
    'representable: executed and counted. Binned data has no variances (scipp) and counts as "no variances"',
]
TECHNIQUE = ('runtime monitors (sys.monitoring) on save_xye / load_xye / _deduce_coord / '
             '_generate_xye_header; independent text-table parser on the artefact; bitwise and ulp '
             'comparison with the supplied arrays; file-system observation for refusals')
LEVEL_TEXT = ('exploration: every file written in a hostile generated workload is decoded independently and '
              'compared bit for bit with what was supplied, every load of such a file is compared with the '
              'original, every unrepresentable input class must be refused with nothing written. Sampling of '
              'values, headers and layouts: held on the decided executions reported, not a proof.')
LEVEL_NOTE = ('trusted: Python float() parsing of decimal text, numpy long-double sqrt, scipp containers, '
              'the file system / io.StringIO as observation of what was written')
DESIGN_REF = 'DESIGN.md section 4, C15; section 6 item 9'
TIMEOUT_S = {'quick': 600, 'thorough': 3 * 3600}

VAR_ULP = 4      # property: "within a few units in the last place"
FILE_E_ULP = 2   # column 3 against the long-double square root
DUP_CAP = 3      # witnesses kept per (kind, mechanism) and shard; the rest is counted
MECHANISM_KEYS = ('header_has_bare_cr', 'reader_newlines', 'file_header_escaped', 'more_rows_loaded',
                  'table_tail_intact', 'input_class', 'column', 'exc_type', 'single_row', 'read_from')

MAXF = np.finfo(np.float64).max
MINNORM = np.finfo(np.float64).tiny
DENORM = 5e-324
SPECIALS = np.array([
    0.0, -0.0, DENORM, -DENORM, MINNORM, -MINNORM, np.nextafter(MINNORM, 0.0),
    1.0, np.nextafter(1.0, 2.0), np.nextafter(1.0, 0.0), -1.0, -np.nextafter(1.0, 2.0),
    MAXF, -MAXF, np.nextafter(MAXF, 0.0),
])

REFUSAL_TYPES = (sc.VariancesError, sc.DimensionError, sc.CoordError, ValueError)
PINNED = {
    'no_variances': 'VariancesError', 'ndim': 'DimensionError', 'masks': 'ValueError',
    'no_coord': 'ValueError', 'ambiguous_coord': 'ValueError', 'bin_edges': 'CoordError',
}

_NUM = re.compile(r'^[+-]?(\d+\.?\d*|\.\d+)([eE][+-]?\d+)?$')
_N = r'([+-]?(?:\d+\.?\d*|\.\d+)(?:[eE][+-]?\d+)?)'
_ROW3 = re.compile(r'[ \t]*' + _N + r'[ \t]+' + _N + r'[ \t]+' + _N + r'[ \t]*\Z')   # the common line, in one go
_BARE_CR = re.compile(r'\r(?!\n)')
_UNIV = re.compile(r'\r\n|\r|\n')


# ------------------------------------------------------------ small oracles ---
def ulp_dist(a, b):
    """Largest distance in representable doubles between two float64 arrays, and where."""
    a = np.ascontiguousarray(a, dtype=np.float64)
    b = np.ascontiguousarray(b, dtype=np.float64)
    ia = a.view(np.int64)
    ib = b.view(np.int64)
    sa = np.where(ia >= 0, ia, -(ia & np.int64(0x7FFFFFFFFFFFFFFF)))
    sb = np.where(ib >= 0, ib, -(ib & np.int64(0x7FFFFFFFFFFFFFFF)))
    # float of the difference is plenty: only "<= 4" matters and huge gaps stay huge
    d = np.abs(sa.astype(np.float64) - sb.astype(np.float64))
    small = d < 2**52
    d[small] = np.abs(sa[small] - sb[small])
    k = int(np.argmax(d)) if d.size else 0
    return (float(d[k]) if d.size else 0.0), k


def split_lines(text, convention):
    parts = _UNIV.split(text) if convention == 'universal' else text.split('\n')
    if parts and parts[-1] == '':
        parts.pop()
    return parts


def parse_table(text, convention):
    """Independent reading of an XYE text: comment / blank / table lines."""
    rows, bad, n_comment, n_blank = [], [], 0, 0
    for ln in split_lines(text, convention):
        m = _ROW3.match(ln)
        if m is not None:       # same verdict as the general route below, which it is a special case of
            rows.append((float(m[1]), float(m[2]), float(m[3])))
            continue
        s = ln.strip(' \t\r\x0b\x0c')
        if s == '':
            n_blank += 1
            continue
        if s.startswith('#'):
            n_comment += 1
            continue
        toks = ln.split()
        if len(toks) == 3 and all(_NUM.match(t) for t in toks):
            rows.append((float(toks[0]), float(toks[1]), float(toks[2])))
        else:
            rows.append(None)
            bad.append(ln[:80])
    return rows, bad, n_comment, n_blank


def header_facts(h):
    lines = re.split(r'\r\n|\r|\n', h)
    return {
        'header_has_bare_cr': bool(_BARE_CR.search(h)),
        'header_has_crlf': '\r\n' in h,
        'header_has_lf': bool(re.search(r'(?<!\r)\n', h)),
        'header_has_data_like_line': any(
            len(t) == 3 and all(_NUM.match(x) for x in t) for t in (ln.split() for ln in lines)),
        'header_ascii': h.isascii(),
    }


def _ends_line(t, convention):
    return t.endswith('\n') or (convention == 'universal' and t.endswith('\r'))


def coord_states(da):
    """Per coordinate: dims and alignment flag (what the coordinate-choice rule must not depend on)."""
    out = {}
    try:
        for nm, c in da.coords.items():
            out[str(nm)] = ('aligned' if c.aligned else 'unaligned') + ':' + ('scalar' if c.ndim == 0 else 'x'.join(c.dims)) \
                + ':' + str(c.dtype) + str(list(c.shape)) + ('+variances' if c.variances is not None else '')
    except Exception:  # noqa: BLE001
        pass
    return out


def decompress_tolerant(raw, suffix):
    """Content of a compressed file as far as it can be read: a handle that is still open has flushed
    only part of a stream; a file may hold several streams one after the other (append mode).
    Bytes that are not such a stream at all are returned as they are."""
    import bz2
    import lzma
    import zlib
    make = {'.gz': lambda: zlib.decompressobj(31), '.bz2': bz2.BZ2Decompressor,
            '.xz': lzma.LZMADecompressor}[suffix]
    out, rest = b'', raw
    try:
        while rest:
            d = make()
            out += d.decompress(rest)
            if not d.eof:
                break
            rest = d.unused_data
    except Exception:  # noqa: BLE001  plain text under a compressed name: load will fail
        return raw if not out else out
    return out


def path_reader(p, fd=None):
    """read() -> the text under a path as its readers see it (bytes, one character per byte;
    decompressed by file name as numpy does), None if there is no file.  With ``fd`` (a descriptor the
    monitor opened on the file before a call): the content of THAT file, whatever the name points at now."""
    def read():
        if fd is not None:
            raw = os.pread(fd, os.fstat(fd).st_size, 0)
        elif not os.path.exists(p):
            return None
        else:
            with open(p, 'rb') as f:
                raw = f.read()
        for suffix in ('.gz', '.bz2', '.xz'):
            if p.endswith(suffix):
                raw = decompress_tolerant(raw, suffix)
        return raw.decode('latin-1')
    return read


def other_coord_classes(da, chosen):
    """What the coordinates that are NOT written look like (the property speaks of the chosen one only)."""
    out = set()
    try:
        for nm, c in da.coords.items():
            if str(nm) == str(chosen):
                continue
            dt = str(c.dtype)
            if c.ndim == 0:
                cl = 'scalar' if dt == 'float64' else 'scalar_' + dt
            elif c.dims != da.dims:
                cl = 'not_along_dim' + ('_edges' if c.ndim == 1 and c.shape[0] == 2 else '')
            elif c.shape[0] == da.shape[0] + 1:
                cl = 'edges' if dt == 'float64' else 'edges_' + dt
            elif c.variances is not None:
                cl = 'variances'
            else:
                cl = 'points' if dt == 'float64' else dt
            out.add(cl)
            if cl.startswith('edges') and da.ndim == 1 and str(nm) == da.dim:
                out.add('edges_is_dimension_coordinate')
    except Exception:  # noqa: BLE001
        pass
    return out


def plain(name):
    """The characters of a name given as any kind of str (np.str_, a subclass, a member of a (str, Enum))."""
    return str.__str__(name) if isinstance(name, str) else name


def hexes(a, limit=8):
    a = np.asarray(a, dtype=np.float64)
    return [float(v).hex() for v in a[:limit]]


# ------------------------------------------------------------- the monitors ---
class Monitors:
    """State shared by the four call-boundary monitors of one worker process."""

    def __init__(self, ctx):
        self.ctx = ctx
        self.ledger = {}      # target key -> what a monitored save was given
        self.label = {}       # harness side channel: labels only (target kind, header class, k)
        self.gen_header = None
        self.deduced = None
        self._dups = {}
        # file objects the monitors cannot look into on their own (no name, content in memory or behind a
        # compressor, write-only / read-only user objects): whoever drives the call says how the target can be
        # OBSERVED (where its text is, where it stands).  Nothing in here says what is expected.
        self.observers = {}
        self.started = {'save_xye': 0, 'load_xye': 0}     # calls that got as far as the function body

    def register(self, obj, key, read, conv='universal', pos=None, encoding=None, deferred=False):
        """``read()`` -> text of the target (None: nothing there), ``pos()`` -> position of the object in
        that text (default: its tell()), ``encoding``: codec of its text layer (None: characters are kept),
        ``deferred``: the text only becomes visible when the target is closed (``finish_target``)."""
        if isinstance(encoding, str):
            try:
                encoding = codecs.lookup(encoding).name
            except LookupError:
                encoding = 'unknown'
        self.observers[id(obj)] = {'obj': obj, 'key': key, 'read': read, 'conv': conv, 'pos': pos,
                                   'encoding': encoding, 'deferred': deferred}

    def observer(self, fname):
        o = self.observers.get(id(fname))
        return o if o is not None and o['obj'] is fname else None

    # ---- reporting with a cap per mechanism -------------------------------
    def viol(self, kind, what, case, **keys):
        # one mechanism = kind + the facts a known-finding predicate looks at (not target kind etc.),
        # so that a known mechanism cannot crowd other witnesses out of the kept list
        sig = (kind, tuple((k, repr(keys.get(k))) for k in MECHANISM_KEYS))
        n = self._dups.get(sig, 0) + 1
        self._dups[sig] = n
        if n > DUP_CAP:
            self.ctx.count('further_witnesses_of_reported_mechanism:' + kind)
            return
        self.ctx.violation(kind, what, case, **keys)

    # ---- target observation -------------------------------------------------
    def target_of(self, fname):
        """(key, kind, reader convention, read() -> text or None if absent).

        File objects are *streams*: what a call writes / reads lies between the position the object
        had when the call began and the end of what the call produced / the end of the stream.
        Positions are ``tell()`` values: characters of ``getvalue()`` for StringIO, byte offsets for
        text handles of real files (the monitors read real files as bytes, one character per byte)."""
        lab = self.label.get('target')
        obs = self.observer(fname)
        if obs is not None:
            return obs['key'], lab or 'registered', obs['conv'], obs['read']
        if isinstance(fname, io.StringIO):
            # StringIO(newline=None) translates CR / CRLF to LF when written to (universal newlines);
            # a plain StringIO() keeps the text and ends lines at LF only
            try:
                universal = fname.__getstate__()[1] is None
            except Exception:  # noqa: BLE001
                universal = lab == 'stringio_universal'
            return (('sio', id(fname)), lab or ('stringio_universal' if universal else 'stringio'),
                    'universal' if universal else 'lf', fname.getvalue)
        if isinstance(fname, str | os.PathLike):
            fs = os.fspath(fname)
            if not isinstance(fs, str):     # bytes names: numpy's text readers / writers do not take them
                return None, 'unknown', 'universal', lambda: None
            p = os.path.realpath(fs)
            kind = lab or 'path'
        elif hasattr(fname, 'name') and isinstance(getattr(fname, 'name', None), str):
            p = os.path.realpath(fname.name)
            kind = lab or 'handle'
            try:
                if not fname.closed and fname.writable():
                    fname.flush()   # observation only: flushing does not change what is written
            except (ValueError, OSError):
                pass
        else:
            return None, 'unknown', 'universal', lambda: None

        return ('path', p), kind, 'universal', path_reader(p)

    @staticmethod
    def is_stream(fname):
        return not isinstance(fname, str | os.PathLike)

    # ---- text encodings (only relevant for generated headers outside ASCII) ----
    _default_encoding = None

    def target_encoding(self, fname):
        """Codec name of the text layer of a target; None for StringIO (characters are kept as they are).

        A path is opened by whoever reads / writes it without an encoding argument: what ``open()`` uses
        then is observed once on os.devnull (no call into the package)."""
        cls = type(self)
        obs = self.observer(fname)
        if obs is not None:
            return obs['encoding']
        if isinstance(fname, io.StringIO):
            return None
        if isinstance(fname, str | os.PathLike):
            if cls._default_encoding is None:
                with open(os.devnull, 'w') as f:
                    cls._default_encoding = codecs.lookup(f.encoding).name
            return cls._default_encoding
        enc = getattr(fname, 'encoding', None)
        try:
            return codecs.lookup(enc).name if isinstance(enc, str) else 'unknown'
        except LookupError:
            return 'unknown'

    @staticmethod
    def encodable(text, enc):
        if enc is None:
            return True
        try:
            text.encode(enc)
            return True
        except (UnicodeError, LookupError):
            return False

    @staticmethod
    def target_class(fname, key):
        if isinstance(fname, io.StringIO):
            return 'stringio'
        if isinstance(fname, str | os.PathLike):
            return 'path_compressed' if str(key[1]).endswith(('.gz', '.bz2', '.xz')) else 'path'
        return 'handle'

    def position(self, fname):
        """Current position of a file object, or None when it cannot be observed as a plain offset."""
        try:
            obs = self.observer(fname)
            if obs is not None and obs['pos'] is not None:
                p = obs['pos']()
            elif fname.closed or not fname.seekable():
                return None
            else:
                p = fname.tell()
        except Exception:  # noqa: BLE001  e.g. tell() disabled by next(), detached buffer
            return None
        # text handles encode decoder state in the high bits of the cookie: not a plain offset then
        return int(p) if isinstance(p, int) and 0 <= p < 2**62 else None

    def observe_start(self, ev, writing):
        """Position and content of the target when a watched call begins (kept in ev.pre)."""
        try:
            fname = ev.args['fname']
            key, _, _, read = self.target_of(fname)
            if key is None:
                return None
            stream = self.is_stream(fname)
            pre = {'stream': stream, 'pos': self.position(fname) if stream else 0, 'text': read()}
            if not stream:
                # a name denotes the file the operating system finds under it WHEN THE CALL BEGINS (links followed,
                # '..' taken in the directory a link leads to, relative names under the working directory of that
                # moment): resolved here, independently, and kept; the call is judged on that file
                pre['key'], pre['read'] = key, read
                pre['name'] = self.name_facts(fname, key[1], writing)
                if writing:
                    self.hold(pre, key[1])
            if writing and stream and 'a' in str(getattr(fname, 'mode', '')) and pre['text'] is not None:
                pre['pos'] = len(pre['text'])   # append mode: the operating system writes at the end
                pre['append'] = True
            return pre
        except Exception:  # noqa: BLE001
            self.ctx.oracle_error('C15 monitor (observation at call start)')
            return None

    # ---- the file a name denotes ------------------------------------------------
    @staticmethod
    def name_facts(fname, p0, writing):
        out = {}
        try:
            fs = os.fspath(fname)
            out = {'given': fs[-160:], 'denotes': p0[-160:], 'is_symlink': os.path.islink(fs),
                   'absolute': os.path.isabs(fs), 'has_dotdot': '..' in fs.split(os.sep)}
            if os.path.exists(p0):
                out['links_to_file'] = os.stat(p0).st_nlink
            elif writing:
                out['dangling_or_new'] = True
        except Exception:  # noqa: BLE001
            pass
        return out

    def hold(self, pre, p0):
        """Keep a descriptor on the regular file that stands under the resolved name before a writing call:
        afterwards the monitor can tell whether THAT file was written or another one was put in its place, and,
        if it still has a name (a second hard link), what it holds."""
        import stat as _stat
        try:
            st = os.stat(p0)
            if _stat.S_ISREG(st.st_mode):
                pre['fd'] = os.open(p0, os.O_RDONLY | getattr(os, 'O_CLOEXEC', 0))
                pre['ident'] = (st.st_dev, st.st_ino)
        except OSError:
            pass

    def same_file_key(self, key):
        """The ledger entry of the same file under another of its names (hard link), if there is one."""
        try:
            if key is not None and key[0] == 'path' and key not in self.ledger and os.path.exists(key[1]):
                for k2 in self.ledger:
                    if k2[0] == 'path' and os.path.exists(k2[1]) and os.path.samefile(k2[1], key[1]):
                        return k2
        except OSError:
            pass
        return key

    def denoted(self, fname, pre):
        """(key, read) of a path target as resolved when the call began.  If the directory entry now leads to
        another file while the file of before is still reachable under another name, that file is read."""
        key, read = pre['key'], pre['read']
        fd = pre.get('fd')
        if fd is not None:
            try:
                now = os.stat(key[1])
                same = (now.st_dev, now.st_ino) == pre['ident']
            except OSError:
                same = False
            if not same:
                pre['name']['file_replaced_not_written'] = True
                self.ctx.count('info:file_under_the_name_was_replaced_by_another_file')
                if os.fstat(fd).st_nlink > 0:
                    read = path_reader(key[1], fd)
        return key, read

    # ---- my reading of "data the format cannot represent" -----------------
    @staticmethod
    def model_coord(da, coord_arg):
        names = list(da.coords.keys())
        if coord_arg is not None:
            return plain(coord_arg)
        if len(names) == 1:
            return names[0]
        if da.ndim == 1 and da.dim in names:
            return da.dim
        return None

    def classify(self, da, coord_arg):
        cls = set()
        if da.variances is None:
            cls.add('no_variances')
        if da.ndim != 1:
            cls.add('ndim')
        if len(da.masks) > 0:
            cls.add('masks')
        names = list(da.coords.keys())
        if not names:
            cls.add('no_coord')
        chosen = self.model_coord(da, coord_arg)
        if names and chosen is None:
            cls.add('ambiguous_coord')
        if chosen is not None and chosen in names and da.ndim == 1:
            c = da.coords[chosen]
            if c.ndim == 1 and c.dims == da.dims and c.shape[0] == da.shape[0] + 1:
                cls.add('bin_edges')
        return cls, chosen

    # ---- save_xye -----------------------------------------------------------
    def save_start(self, ev):
        self.started['save_xye'] += 1
        self.gen_header = None
        self.deduced = None
        return self.observe_start(ev, writing=True)

    def save_return(self, ev):
        try:
            self._save_return(ev)
        finally:
            fd = ev.pre.pop('fd', None) if isinstance(ev.pre, dict) else None
            if fd is not None:
                os.close(fd)

    def _save_return(self, ev):
        ctx = self.ctx
        if ev.depth != 0:
            return
        try:
            fname, da = ev.args['fname'], ev.args['da']
            coord_arg, header_arg = ev.args.get('coord'), ev.args.get('header')
            classes, chosen = self.classify(da, coord_arg)
            key, tkind, conv, read = self.target_of(fname)
            if key is not None and isinstance(ev.pre, dict) and 'key' in ev.pre:
                key, read = self.denoted(fname, ev.pre)
                key = self.same_file_key(key)
            if coord_arg is not None and plain(coord_arg) not in da.coords:
                ctx.count('out_of_domain:coord_not_present')
                return
            if key is None:
                ctx.count('out_of_domain:unknown_target_type')
                return
            text = read()
            pre = ev.pre if isinstance(ev.pre, dict) else None
            span = self.written_span(fname, pre, text)
        except Exception:  # noqa: BLE001
            ctx.oracle_error('C15 save monitor (observation)')
            return
        base = {'k': self.label.get('k'), 'target': tkind, 'header_arg': _hdr_repr(header_arg),
                'coord_arg': plain(coord_arg), 'coords': [str(n) for n in da.coords.keys()],
                'coord_states': coord_states(da),
                'dims': list(da.dims), 'shape': list(da.shape)}
        if self.label.get('step') is not None:
            base['step'] = self.label['step']
        for extra in ('process_state', 'state_phase', 'call', 'second', 'fs_form'):
            if self.label.get(extra) is not None:
                base[extra] = self.label[extra]
        if pre is not None and pre.get('name'):
            base['target_file'] = pre['name']
        if coord_arg is not None and type(coord_arg) is not str:
            base['coord_arg_type'] = type(coord_arg).__mro__[0].__name__ + '/' + type(coord_arg).__mro__[1].__name__
        if type(da) is not sc.DataArray:
            base['da_type'] = type(da).__name__
        if classes:
            self.judge_refusal(ev, classes, tkind, text, base, pre)
            return
        if 'chosen_not_along_dim' in self.soft_classes(da, chosen):
            # the rule selects a coordinate that has no value per row (a scalar left over from slicing or
            # an attribute-like scalar): neither in the property's list of refusals nor writable as a
            # column -> executed and counted, the file is not judged (the coord-choice monitor still is)
            ctx.count('out_of_domain:chosen_coordinate_has_no_value_per_row')
            self.drop_segments(key, None)
            return
        self.judge_file(ev, da, chosen, header_arg, key, tkind, conv, text, base, span)

    def written_span(self, fname, pre, text):
        """[start, end) of the text this call put into the target, or None if it cannot be observed.

        Paths are (re)written as a whole.  A file object is written from the position it had when the
        call began to the position it has now."""
        if not self.is_stream(fname):
            return (0, len(text or ''), None)
        if pre is None or pre.get('pos') is None:
            return None
        end = self.position(fname)
        if end is None or end < pre['pos']:
            return None
        obs = self.observer(fname)
        if obs is not None and obs['deferred']:
            return (pre['pos'], end, None)      # the text is looked at when the target is closed
        if end > len(text or ''):
            return None
        return (pre['pos'], end, pre.get('text'))

    def drop_segments(self, key, span):
        segs = self.ledger.get(key)
        if not segs:
            return
        if span is None:
            self.ledger.pop(key, None)
            return
        a, b = span[0], span[1]
        self.ledger[key] = [g for g in segs if g['end'] <= a or g['start'] >= max(b, a + 1)]

    @staticmethod
    def soft_classes(da, chosen):
        out = set()
        if chosen is not None and chosen in da.coords and da.ndim == 1 and da.coords[chosen].dims != da.dims:
            out.add('chosen_not_along_dim')
        return out

    def judge_refusal(self, ev, classes, tkind, text, base, pre):
        ctx = self.ctx
        cl = '+'.join(sorted(classes))
        case = dict(base, input_classes=sorted(classes))
        ctx.event('save_xye.refusal')
        ctx.hit('refuse_on:' + str(tkind))
        for c in classes:
            ctx.hit('refuse:' + c)
        try:
            if 'masks' in classes and all(m.ndim == 0 for m in ev.args['da'].masks.values()):
                ctx.hit('refuse:masks_all_row_independent')
            bins = ev.args['da'].bins
            if bins is not None:
                ctx.hit('refuse:binned_data' + ('_with_event_masks' if len(bins.masks) else '')
                        + ('_with_bin_masks' if 'masks' in classes else ''))
        except Exception:  # noqa: BLE001
            pass
        if ev.exc is None:
            self.viol('not_refused', f'save_xye returned for input the format cannot represent ({cl})',
                      case, input_class=cl, target=tkind)
        elif not isinstance(ev.exc, REFUSAL_TYPES):
            self.viol('refusal_wrong_exception_type',
                      f'{cl}: raised {type(ev.exc).__name__}: {str(ev.exc)[:120]}', case,
                      input_class=cl, exc_type=type(ev.exc).__name__)
        else:
            if len(classes) == 1 and type(ev.exc).__name__ != PINNED[cl]:
                ctx.count(f'refusal_type_differs_from_pinned:{cl}:{type(ev.exc).__name__}')
        # "refused rather than written": the target holds what it held when the call began (a fresh path
        # is absent or empty; a stream that already carries tables still carries exactly those)
        before = (pre or {}).get('text') or ''
        if (text or '') != before:
            now = text or ''
            m = 0
            while m < min(len(now), len(before)) and now[m] == before[m]:
                m += 1
            self.viol('refused_but_wrote' if ev.exc is not None else 'lossy_file_written',
                      f'{cl}: target holds {len(now)} characters after the call, {len(before)} before '
                      f'(first difference at {m})',
                      dict(case, text_head=now[m:m + 200]), input_class=cl, target=tkind)
        elif before:
            ctx.hit('refuse:into_stream_with_content')

    def judge_file(self, ev, da, chosen, header_arg, key, tkind, conv, text, base, span):
        ctx = self.ctx
        try:
            x = np.array(da.coords[chosen].values, dtype=np.float64, copy=True)
            y = np.array(da.values, dtype=np.float64, copy=True)
            var = np.array(da.variances, dtype=np.float64, copy=True)
            n = len(y)
            generated = not isinstance(header_arg, str)
            eff_header = self.gen_header if generated else plain(header_arg)
            if eff_header is None:
                eff_header = ''
            facts = header_facts(eff_header)
            keys = {'target': tkind, 'reader_newlines': conv,
                    'header_mode': 'generated' if generated else ('empty' if header_arg == '' else 'explicit'),
                    'header_has_bare_cr': facts['header_has_bare_cr']}
            state = self.label.get('process_state')
            if state is not None and self.label.get('state_phase') in ('save', 'both'):
                keys['process_state'] = PROCESS_STATES[state][0]     # the family only: few-valued
            case = dict(base, effective_header=eff_header[:300], n=n, **facts)
            if n <= 8:
                case.update(x=hexes(x), y=hexes(y), var=hexes(var))
            stream = self.is_stream(ev.args['fname'])
            if span is not None:
                case['written_span'] = [span[0], span[1]]
            others = other_coord_classes(da, chosen)
            float64_in = da.dtype == sc.DType.float64 and da.coords[chosen].dtype == sc.DType.float64 \
                and da.coords[chosen].variances is None
            # text outside ASCII: a caller's header is outside the quantifier; the header the package
            # generates from the data (coordinate name, unit strings) is judged when the text encoding
            # of the target can hold it at all
            fobj = ev.args['fname']
            enc = self.target_encoding(fobj)
            unit_na = {'coord': not str(da.coords[chosen].unit).isascii(), 'data': not str(da.unit).isascii()}
            non_ascii = {
                'enc': enc, 'tclass': self.target_class(fobj, key), 'header': not facts['header_ascii'],
                'generated': generated,
                'units': 'both' if all(unit_na.values()) else 'coord' if unit_na['coord'] else
                         'data' if unit_na['data'] else None,
                'name': not str(chosen).isascii(),
                'symbols': sorted({'U+%04X' % ord(c) for c in eff_header if ord(c) > 127}) if generated else [],
                'existed': (not stream) and isinstance(ev.pre, dict) and bool(ev.pre.get('text')),
            }
            outside = None
            if not facts['header_ascii']:
                if not generated:
                    outside = 'non_ascii_header_supplied_by_caller'
                elif not self.encodable(eff_header, enc):
                    outside = 'generated_header_not_encodable_in_text_encoding_of_target'
                case['target_text_encoding'] = enc
        except Exception:  # noqa: BLE001
            ctx.oracle_error('C15 file monitor (setup)')
            return
        if ev.exc is not None:
            self.drop_segments(key, None)
            if outside:
                ctx.count('out_of_domain:' + outside)
                return
            self.viol('save_raised', f'save_xye raised {type(ev.exc).__name__}: {str(ev.exc)[:160]} '
                      'for representable input', case, exc_type=type(ev.exc).__name__, **keys)
            return
        if span is None:
            ctx.count('out_of_domain:stream_position_not_observable')
            self.drop_segments(key, None)
            return
        if stream:
            self.drop_segments(key, span)
        else:
            self.drop_segments(key, None)
        a, b, before = span
        seg_text = None if text is None else text[a:b]
        seg = {'start': a, 'end': b, 'text': seg_text, 'judged': False}
        self.ledger.setdefault(key, []).append(seg)
        self.ledger[key].sort(key=lambda g: g['start'])
        if outside:
            ctx.count('out_of_domain:' + outside)
            return
        if not (np.all(np.isfinite(x)) and np.all(np.isfinite(y)) and np.all(np.isfinite(var))
                and np.all(var >= 0) and n >= 1):
            ctx.count('out_of_domain:non_finite_or_negative_variance_or_empty')
            return
        if not float64_in:
            ctx.count('out_of_domain:data_or_written_coordinate_not_plain_float64')
            return
        seg.update({'judged': True, 'x': x, 'y': y, 'var': var, 'n': n, 'keys': keys, 'case': case,
                    'file_header_escaped': False, 'keep': ev.args['fname'], 'chosen': chosen,
                    'non_ascii': non_ascii, 'conv': conv, 'facts': facts, 'stream': stream, 'before': before,
                    'others': others, 'coord_mode': 'deduced' if ev.args.get('coord') is None else 'explicit'})
        obs = self.observer(ev.args['fname'])
        if obs is not None and obs['deferred']:
            seg['pending'] = True
            ctx.count('info:file_judged_when_target_is_closed')
            return
        self.judge_text(seg, text)

    def finish_target(self, fname):
        """The target has been closed: what was put into it while its text could not be seen is judged now."""
        ctx = self.ctx
        try:
            obs = self.observer(fname)
            if obs is None:
                return
            obs['deferred'] = False
            text = obs['read']()
            todo = [g for g in self.ledger.get(obs['key'], []) if g.get('pending')]
        except Exception:  # noqa: BLE001
            ctx.oracle_error('C15 file monitor (target closed)')
            return
        for g in todo:
            g['pending'] = False
            g['text'] = None if text is None else text[g['start']:g['end']]
            if g['judged']:
                self.judge_text(g, text)

    def judge_text(self, seg, text):
        """``text``: what the target holds; ``seg``: what one save_xye call was given and where it wrote."""
        ctx = self.ctx
        entry = seg
        x, y, var, n, keys, case = seg['x'], seg['y'], seg['var'], seg['n'], seg['keys'], seg['case']
        conv, facts, stream, before, a = seg['conv'], seg['facts'], seg['stream'], seg['before'], seg['start']
        seg_text = seg['text']
        try:
            if text is None:
                self.viol('file_missing', 'save_xye returned but the target does not exist', case, **keys)
                return
            if stream:
                if a > 0:
                    ctx.hit('stream:table_written_behind_other_content')
                if before is not None and text[:a] != before[:a]:
                    self.viol('stream_content_before_position_changed',
                              f'the {a} characters in front of the position at which save_xye was called '
                              'are not what they were', dict(case, now=text[:a][-200:], was=before[:a][-200:]), **keys)
                    return
            text = seg_text   # the monitor judges exactly what this call wrote
            rows, bad, n_comment, n_blank = parse_table(text, conv)
            exp_e = np.sqrt(var.astype(np.longdouble)).astype(np.float64)
            if n_blank:
                ctx.count('info:blank_lines_in_file', n_blank)
            if facts['header_has_bare_cr'] and conv == 'lf':
                r2, b2, _, _ = parse_table(text, 'universal')
                if len(r2) != len(rows) or b2:
                    ctx.count('info:lf_only_target_holds_text_whose_header_escapes_under_universal_newlines')
            ctx.event('save_xye.file')
            tail = rows[-n:] if len(rows) >= n else None
            tail_ok = tail is not None and all(r is not None for r in tail) and self._rows_match(
                tail, x, y, exp_e)[0] is None
            if len(rows) != n or bad:
                extra = len(rows) - n
                case2 = dict(case, table_lines_found=len(rows), rows_supplied=n,
                             malformed_lines=bad[:4], file_head=text[:300])
                if tail_ok and extra > 0:
                    entry['file_header_escaped'] = True
                    self.viol('header_escapes_comment_prefix',
                              f'{extra} line(s) of header text stand in the file without the comment '
                              f'prefix ({len(bad)} malformed, {extra - len(bad)} readable as data rows); '
                              f'{n} rows supplied', case2,
                              escaped_lines_parse_as_rows=(extra - len(bad)) > 0, **keys)
                else:
                    self.viol('file_table_shape',
                              f'{len(rows)} table lines ({len(bad)} malformed) for {n} rows supplied',
                              case2, single_row=n == 1, **keys)
                return
            col, i, d = self._rows_match(rows, x, y, exp_e)
            fe = np.array([r[2] for r in rows])
            ctx.dev('file.col3_ulp_vs_longdouble_sqrt', ulp_dist(fe, exp_e)[0])
            if col is None:
                ctx.hit('file_judged:' + str(keys['target']))
                if keys.get('process_state'):
                    ctx.hit('file_judged_under_process_state:' + keys['process_state'])
                if case.get('coord_arg_type'):
                    ctx.hit('file_judged:coord_given_as:' + case['coord_arg_type'])
                if case.get('da_type'):
                    ctx.hit('file_judged:data_array_subclass')
                if n > 10**5:
                    ctx.hit('file_judged:rows_heavy')
                for tag in self.label.get('credit_file') or ():
                    ctx.hit(tag)
            if col is not None:
                want = {'x': x, 'y': y, 'e': exp_e}[col][i]
                got = rows[i][{'x': 0, 'y': 1, 'e': 2}[col]]
                self.viol({'x': 'file_coord_not_exact', 'y': 'file_value_not_exact',
                           'e': 'file_stddev_off'}[col],
                          f'row {i}: column {col} reads {got!r} ({float(got).hex()}), supplied '
                          f'{want!r} ({float(want).hex()})' + (f', {d:g} ulp' if col == 'e' else ''),
                          dict(case, row=i, token_value=float(got).hex(), expected=float(want).hex()),
                          column=col, **keys)
        except Exception:  # noqa: BLE001
            ctx.oracle_error('C15 file monitor')

    @staticmethod
    def _rows_match(rows, x, y, exp_e):
        fx = np.array([r[0] for r in rows], dtype=np.float64)
        fy = np.array([r[1] for r in rows], dtype=np.float64)
        fe = np.array([r[2] for r in rows], dtype=np.float64)
        if fx.tobytes() != x.tobytes():
            i = int(np.argmax(fx.view(np.int64) != x.view(np.int64)))
            return 'x', i, None
        if fy.tobytes() != y.tobytes():
            i = int(np.argmax(fy.view(np.int64) != y.view(np.int64)))
            return 'y', i, None
        if not np.all(np.isfinite(fe)):
            return 'e', int(np.argmin(np.isfinite(fe))), float('inf')
        d, i = ulp_dist(fe, exp_e)
        if d > FILE_E_ULP:
            return 'e', i, d
        return None, None, d

    # ---- load_xye -------------------------------------------------------------
    def load_start(self, ev):
        self.started['load_xye'] += 1
        return self.observe_start(ev, writing=False)

    def expected_of_read(self, segs, text, pos, conv):
        """What a reader that starts at ``pos`` and reads to the end of ``text`` is to return, from the
        tables the monitored saves put there: (list of (segment, rows already consumed), reason or None).

        The stream is cut into pieces: the spans written by monitored saves and the text between them
        (written by the caller).  The caller's text may only contribute comment / blank lines, every piece
        but the last ends with a line terminator, and a position inside a table is the start of a line;
        otherwise the expectation is not defined by the property and the read is not judged."""
        parts = []
        cur = pos
        pieces = []
        for g in segs:
            if g['end'] <= pos:
                continue
            if g['start'] > cur:
                pieces.append((None, text[cur:g['start']]))
            if g['start'] >= pos:
                pieces.append((g, text[g['start']:g['end']]))
                parts.append((g, 0))
            else:
                consumed = text[g['start']:pos]
                if not _ends_line(consumed, conv):
                    return None, 'read_position_inside_a_line'
                if conv == 'universal' and consumed.endswith('\r') and text[pos:pos + 1] == '\n':
                    return None, 'read_position_inside_a_line'
                r0, _, _, _ = parse_table(consumed, conv)
                pieces.append((g, text[pos:g['end']]))
                parts.append((g, len(r0)))
            cur = max(cur, g['end'])
        if cur < len(text):
            pieces.append((None, text[cur:]))
        for j, (g, t) in enumerate(pieces):
            if j < len(pieces) - 1 and t and not _ends_line(t, conv):
                return None, 'pieces_of_the_stream_not_line_aligned'
            if g is None:
                r, b, _, _ = parse_table(t, conv)
                if r or b:
                    return None, 'caller_text_in_read_range_is_not_comment_or_blank'
        return parts, None

    def load_return(self, ev):
        ctx = self.ctx
        if ev.depth != 0:
            return
        try:
            fname = ev.args['fname']
            key, tkind, conv, read = self.target_of(fname)
            tkind = self.label.get('reader') or tkind
            if key is not None and isinstance(ev.pre, dict) and 'key' in ev.pre:
                key = ev.pre['key']       # the file the name denoted when the call began
            key = self.same_file_key(key)
            segs = self.ledger.get(key)
        except Exception:  # noqa: BLE001
            ctx.oracle_error('C15 round-trip monitor (lookup)')
            return
        if not segs:
            ctx.count('load_of_target_not_written_under_observation')
            return
        try:
            stream = self.is_stream(fname)
            pre = ev.pre if isinstance(ev.pre, dict) else {}
            pos = pre.get('pos') if stream else 0
            text = pre.get('text')     # what the target held when the call began
            if text is None:
                ctx.count('out_of_domain:load_of_absent_target')
                return
            if pos is None or pos > len(text):
                ctx.count('out_of_domain:stream_position_not_observable')
                return
            live = [g for g in segs if g['text'] is not None and text[g['start']:g['end']] == g['text']]
            if len(live) != len(segs):
                ctx.count('info:table_overwritten_after_it_was_saved', len(segs) - len(live))
            parts, why = self.expected_of_read(live, text, pos, conv)
            if parts is None:
                ctx.count('out_of_domain:' + why)
                return
            if not parts:
                ctx.count('out_of_domain:no_saved_table_in_read_range')
                return
            if not all(g['judged'] for g, _ in parts):
                ctx.count('out_of_domain:load_of_unjudged_file')
                return
            if isinstance(fname, codecs.StreamReader | codecs.StreamReaderWriter):
                # these readers end a line wherever str.splitlines does (VT, FF, FS, GS, RS, NEL, LS, PS), files
                # and numpy's writer do not: header text with such characters is read as more lines than written
                seen = text[pos:]
                if not seen.isascii():
                    try:
                        seen = seen.encode('latin-1').decode(getattr(fname, 'encoding', None) or 'utf-8')
                    except (UnicodeError, LookupError):
                        seen = '\x0b'
                if re.search('[\x0b\x0c\x1c\x1d\x1e\x85\u2028\u2029]', seen):
                    ctx.count('out_of_domain:reader_ends_lines_at_characters_that_are_not_line_ends_in_files')
                    return
            nas = [g['non_ascii'] for g, _ in parts if g['non_ascii']['header']]
            if nas:
                # a table whose generated header is not ASCII: the reader has to decode what the writer
                # encoded (a path is opened with the default of open(), a handle has its own encoding)
                renc = self.target_encoding(fname)
                if any(a['enc'] is not None and renc is not None and a['enc'] != renc for a in nas):
                    ctx.count('out_of_domain:reader_text_encoding_differs_from_writer')
                    return
            x = np.concatenate([g['x'][r:] for g, r in parts])
            y = np.concatenate([g['y'][r:] for g, r in parts])
            var = np.concatenate([g['var'][r:] for g, r in parts])
            n = len(y)
            if n == 0:
                ctx.count('out_of_domain:zero_rows_left_in_read_range')
                return
            first = parts[0][0]
            start_class = ('stream_start' if pos == 0 else 'table_start' if parts[0][1] == 0 and pos == first['start']
                           else 'inside_header' if parts[0][1] == 0 else 'inside_table')
            if not stream:
                start_class = 'path'
            keys = dict(first['keys'], file_header_escaped=any(g['file_header_escaped'] for g, _ in parts),
                        header_has_bare_cr=any(g['keys']['header_has_bare_cr'] for g, _ in parts),
                        read_from=start_class, tables_in_range='1' if len(parts) == 1 else '>1')
            dim, unit, cunit = plain(ev.args['dim']), ev.args['unit'], ev.args['coord_unit']
            cname = plain(ev.args.get('coord'))
            cname = dim if cname is None else cname
            state = self.label.get('process_state')
            if state is not None:
                keys['process_state'] = PROCESS_STATES[state][0]
            case = dict(first['case'], load_args={'dim': dim, 'unit': str(unit), 'coord_unit': str(cunit),
                                                  'coord': plain(ev.args.get('coord'))}, read_through=tkind,
                        read_position=pos, stream_length=len(text),
                        tables_in_range=[[g['start'], g['end'], g['n'], r] for g, r in parts], n=n)
            if self.label.get('step') is not None:
                case['step'] = self.label['step']
            for extra in ('process_state', 'state_phase', 'call', 'second', 'fs_form'):
                if self.label.get(extra) is not None:
                    case[extra] = self.label[extra]
            if pre.get('name'):
                case['source_file'] = pre['name']
            ctx.event('load_xye.roundtrip')
            if nas:
                ctx.event('load_xye.roundtrip.generated_header_not_ascii')
                keys['generated_header_ascii'] = False
            if stream:
                ctx.hit('read_from:' + start_class)
                if len(parts) > 1:
                    ctx.hit('read:several_tables_to_end_of_stream')
            if ev.exc is not None:
                self.viol('roundtrip_load_raised',
                          f'load_xye raised {type(ev.exc).__name__}: {str(ev.exc)[:160]} on a file save_xye wrote',
                          case, exc_type=type(ev.exc).__name__, single_row=n == 1, **keys)
                return
            res = ev.result
            if not isinstance(res, sc.DataArray) or res.dims != (dim,) or list(res.coords.keys()) != [cname] \
                    or res.coords[cname].dims != (dim,):
                self.viol('roundtrip_structure', f'loaded object has dims {getattr(res, "dims", None)} and '
                          f'coords {list(getattr(res, "coords", {}).keys())}; requested dim {dim!r} coord {cname!r}',
                          case, single_row=n == 1, **keys)
                return
            want_u = None if unit is None else unit if isinstance(unit, sc.Unit) else sc.Unit(plain(unit))
            want_cu = None if cunit is None else cunit if isinstance(cunit, sc.Unit) else sc.Unit(plain(cunit))
            if res.unit != want_u or res.coords[cname].unit != want_cu:
                self.viol('roundtrip_units', f'units {res.unit}/{res.coords[cname].unit} requested '
                          f'{want_u}/{want_cu}', case, **keys)
                return
            got_n = res.shape[0]
            lx = np.asarray(res.coords[cname].values)
            ly = np.asarray(res.values)
            lv = res.variances
            if got_n != n:
                tail_ok = (got_n > n and lx.dtype == np.float64 and lx[-n:].tobytes() == x.tobytes()
                           and ly[-n:].tobytes() == y.tobytes())
                self.viol('roundtrip_row_count', f'{n} rows written between the read position and the end of the '
                          f'target, {got_n} rows loaded', dict(case, loaded_rows=got_n),
                          single_row=n == 1, more_rows_loaded=got_n > n, table_tail_intact=bool(tail_ok), **keys)
                return
            if lx.dtype != np.float64 or ly.dtype != np.float64 or lv is None:
                self.viol('roundtrip_structure', f'dtype {lx.dtype}/{ly.dtype}, variances '
                          f'{"missing" if lv is None else "present"}', case, single_row=n == 1, **keys)
                return
            lv = np.asarray(lv, dtype=np.float64)
            if lx.tobytes() != x.tobytes():
                i = int(np.argmax(lx.view(np.int64) != x.view(np.int64)))
                self.viol('roundtrip_coord_not_bitwise', f'row {i}: coordinate {lx[i]!r} ({float(lx[i]).hex()}) '
                          f'supplied {x[i]!r} ({float(x[i]).hex()})', dict(case, row=i), **keys)
                return
            if ly.tobytes() != y.tobytes():
                i = int(np.argmax(ly.view(np.int64) != y.view(np.int64)))
                self.viol('roundtrip_value_not_bitwise', f'row {i}: value {ly[i]!r} ({float(ly[i]).hex()}) '
                          f'supplied {y[i]!r} ({float(y[i]).hex()})', dict(case, row=i), **keys)
                return
            if np.any(np.isnan(lv)):
                i = int(np.argmax(np.isnan(lv)))
                self.viol('roundtrip_variance_ulp', f'row {i}: variance NaN, supplied {var[i]!r}',
                          dict(case, row=i), **keys)
                return
            d, i = ulp_dist(lv, var)
            ctx.dev('roundtrip.variance_ulp', d)
            if d > VAR_ULP:
                self.viol('roundtrip_variance_ulp', f'row {i}: variance {lv[i]!r} ({float(lv[i]).hex()}) supplied '
                          f'{var[i]!r} ({float(var[i]).hex()}): {d:g} ulp > {VAR_ULP}', dict(case, row=i), **keys)
                return
            # forced classes are credited when a case holding them was decided
            both = np.concatenate([x, y])
            if np.any((both == 0) & np.signbit(both)):
                ctx.hit('value:-0.0')
            if np.any((both != 0) & (np.abs(both) < MINNORM)):
                ctx.hit('value:denormal')
            if np.any(np.abs(both) == MAXF):
                ctx.hit('value:max')
            if np.any(np.abs(both) == MINNORM):
                ctx.hit('value:min_normal')
            if np.any((both == np.nextafter(1.0, 2.0)) | (both == np.nextafter(1.0, 0.0))):
                ctx.hit('value:1+-ulp')
            if n == 1:
                ctx.hit('rows:1')
            if n in COINCIDING_ROWS:
                ctx.hit('rows:%d' % n)
            if n >= 10000:
                ctx.hit('rows:>=1e4')
            if n > 10**5:
                ctx.hit('rows:heavy')
            # classes of the calling side (process-wide state, calling convention, kind of str / unit object,
            # second use ...), credited where a round trip made under them was decided
            if state is not None:
                ctx.hit(f"process_state:{state}:{self.label.get('state_phase')}")
            for tag in self.label.get('credit') or ():
                ctx.hit(tag)
            # kind of target written -> kind of source read, and what the unwritten coordinates looked like
            for g, _ in parts:
                ctx.hit(f"roundtrip:{g['keys']['target']}->{tkind}")
                for oc in g['others']:
                    ctx.hit(f"other_coord:{oc}:{g['coord_mode']}")
                unusual = g['others'] - {'points', 'scalar', 'edges_is_dimension_coordinate'}
                if unusual and n == 1:
                    ctx.hit('other_coord:rows_1')
                if len(unusual) > 1:
                    ctx.hit('other_coord:several_kinds_side_by_side')
            # data whose units / coordinate name are not ASCII, by header source x kind of target written
            for g, _ in parts:
                a = g['non_ascii']
                mode = g['keys']['header_mode']
                if a['units']:
                    ctx.hit(f"nonascii_units:{mode}:{a['tclass']}")
                    ctx.hit('nonascii_unit_on:' + a['units'])
                if a['name']:
                    ctx.hit(f"nonascii_coord_name:{mode}:{a['tclass']}")
                if a['header']:
                    ctx.hit('nonascii_generated_header:' + a['tclass'])
                    if a['tclass'].startswith('path'):
                        ctx.hit('nonascii_generated_header:path_written_read_through_'
                                + ('handle' if stream else 'path'))
                        for cp in a['symbols']:
                            ctx.hit('nonascii_generated_header:path:' + cp)
                        top = max((int(cp[2:], 16) for cp in a['symbols']), default=0)
                        if top > 0xFF:     # no single-byte encoding holds it (coordinate names)
                            ctx.hit('nonascii_generated_header:path:beyond_latin1')
                        if top > 0xFFFF:
                            ctx.hit('nonascii_generated_header:path:beyond_bmp')
                    if n == 1:
                        ctx.hit('nonascii_generated_header:rows_1')
                if a['existed']:
                    ctx.hit('path:file_existed_before' + ('_and_header_not_ascii' if a['header'] else ''))
        except Exception:  # noqa: BLE001
            ctx.oracle_error('C15 round-trip monitor')

    # ---- helpers of save_xye ----------------------------------------------
    def deduce_return(self, ev):
        ctx = self.ctx
        try:
            da = ev.args['da']
            names = list(da.coords.keys())
            if da.ndim != 1 or not names:
                ctx.count('out_of_domain:_deduce_coord_on_non_1d_or_coordless')
                return
            if len(names) == 1:
                want = names[0]
            elif da.dim in names:
                want = da.dim
            else:
                want = None
        except Exception:  # noqa: BLE001
            ctx.oracle_error('C15 coord-choice monitor')
            return
        ctx.event('_deduce_coord')
        case = {'k': self.label.get('k'), 'coords': names, 'dim': da.dim, 'coord_states': coord_states(da)}
        if self.label.get('step') is not None:
            case['step'] = self.label['step']
        try:
            # the documented rule speaks of the coordinates of ``da``: every state a coordinate can be in
            # counts alike; credit the states in which the rule was decided
            flags = [bool(c.aligned) for c in da.coords.values()]
            if len(names) > 1:
                if not all(flags):
                    ctx.hit('coords:some_unaligned' if any(flags) else 'coords:all_unaligned')
                if any(c.ndim == 0 for c in da.coords.values()):
                    ctx.hit('coords:scalar_among_several')
                if da.dim in names and not da.coords[da.dim].aligned:
                    ctx.hit('coords:dimension_coordinate_unaligned')
                ctx.hit('coords:dimension_coordinate_' + ('present' if da.dim in names else 'absent'))
            elif not flags[0]:
                ctx.hit('coords:single_unaligned')
        except Exception:  # noqa: BLE001
            ctx.oracle_error('C15 coord-choice monitor (states)')
        if want is None:
            if ev.exc is None:
                self.viol('ambiguous_coord_chosen', f'_deduce_coord returned {ev.result!r} for coordinates '
                          f'{names} without a dimension-coordinate (dim {da.dim!r})', case)
            elif not isinstance(ev.exc, REFUSAL_TYPES):
                self.viol('refusal_wrong_exception_type', f'_deduce_coord raised {type(ev.exc).__name__}', case,
                          input_class='ambiguous_coord', exc_type=type(ev.exc).__name__)
        elif ev.exc is not None:
            self.viol('coord_choice_raised', f'_deduce_coord raised {type(ev.exc).__name__}: {ev.exc} although '
                      f'the rule selects {want!r}', case, n_coords=len(names))
        elif ev.result != want:
            self.viol('wrong_coord_chosen', f'_deduce_coord returned {ev.result!r}; documented rule selects '
                      f'{want!r} from {names} (dim {da.dim!r})', case, n_coords=len(names),
                      dim_coord_present=da.dim in names)
        self.deduced = ev.result

    def header_return(self, ev):
        if ev.exc is None and isinstance(ev.result, str):
            self.gen_header = ev.result
            self.ctx.event('_generate_xye_header')
        elif ev.exc is not None:
            self.ctx.count('_generate_xye_header_raised:' + type(ev.exc).__name__)


def _hdr_repr(h):
    return h[:300] if isinstance(h, str) else repr(h)


# ---------------------------------------------------------------- workload ---
TARGETS = ['path_str', 'path_pathlib', 'stringio', 'stringio_universal', 'handle', 'handle_crlf']
HEADER_CLASSES = ['default', 'default_hostile_name', 'default_cr_name', 'empty', 'plain', 'hash',
                  'lf_rows', 'crlf_rows', 'bare_cr_rows', 'witness_cr', 'ctrl_boundaries',
                  'random_ascii', 'edge_newlines']
REFUSE_CLASSES = ['no_variances', 'bin_edges', 'bin_edges_deduced', 'masks', 'ndim0', 'ndim2', 'ndim3',
                  'no_coord', 'ambiguous_coord', 'combo', 'binned', 'binned_bin_masks', 'binned_event_masks']
REFUSE_TARGETS = ['path_str', 'stringio', 'handle']

BENIGN_NAMES = ['x', 'tof', 'dspacing', 'two_theta', 'Q', 'wavelength', 'E', 'Y']
HOSTILE_NAMES = ['two theta', '#x', 'a\nb', '1 2 3', '4 5 6\n7 8 9', '', ' ', 'x [m]', '\t', 'a\x0bb', 'a\x0cb',
                 'a\x1cb\x1dc\x1ed', '# 1 2 3', 'a_very_long_coordinate_name_beyond_the_column_width',
                 'q\r\n7 8 9', '~!@$%^&*()[]{}', "quo'te\"s", '\\n']
CR_NAMES = ['x\r1 2 3\n', 'r\rdim', 'a\r', '\r7 8 9', 'x\r\r1 2 3\n']
ASCII_UNITS = ['m', 'deg', 'counts', 'meV', 'one', None, 's', 'K*s/m**2', 'rad']
# "every unit with a non-ASCII symbol": candidates from the unit families scipp prints with 'Å', 'µ', '°';
# the pool is what the container (scipp) really prints outside ASCII, decided here, not assumed
_NA_CANDIDATES = ['angstrom', 'us', '1/angstrom', 'uA', 'um', 'degC', 'counts/angstrom', 'angstrom**2', 'us**2',
                  'ueV', 'uAh', 'uK', 'degC*us', 'counts/us', 'ohm', 'uohm']


def _non_ascii_units():
    out = []
    for u in _NA_CANDIDATES:
        try:
            if not str(sc.Unit(u)).isascii():
                out.append(u)
        except Exception:  # noqa: BLE001
            pass
    return out


NON_ASCII_UNITS = _non_ascii_units()
# coordinate names outside ASCII: inside latin-1, Greek, letterlike, CJK, astral plane
NON_ASCII_NAMES = ['λ', '2θ', 'd [Å]', 'Δd/d', 'ħω', '波長', 'Energía', 'tof_µs', 'Q (Å⁻¹)', '𝜆', 'größe', '°C']
NA_POSITIONS = ['coord', 'data', 'both']
NA_HEADERS = ['default', 'plain', 'empty']
# (target kind, forced file-name suffix): numpy compresses by file name
NA_TARGETS = [('path_str', ''), ('path_pathlib', ''), ('path_str', '.gz'), ('path_pathlib', '.bz2'),
              ('path_str', '.xz'), ('handle', ''), ('handle_crlf', ''), ('stringio', ''), ('stringio_universal', '')]
# a file that stands at the path before the call: longer than what is written, bytes that are not UTF-8
OLD_FILE = b'# d [\xc5]  Y [\xb5s] E\n' + b''.join(b'%d 2.000000000000000000e+00 3.000000000000000000e+00\n' % i for i in range(20000))
# ---- file-like targets: "Name or file handle", i.e. whatever numpy's text writer / reader takes as one ----
# writers: objects handed to save_xye; readers: objects handed to load_xye.  Which of them the unchanged numpy
# calls accept was established on the unchanged tree (text handles that are not io.IOBase instances:
# NamedTemporaryFile wrappers, codecs stream writers / readers, user objects with nothing but write() / nothing
# but line iteration; handles without a name: TemporaryFile, SpooledTemporaryFile before and after roll-over,
# TextIOWrapper over BytesIO, bz2 / lzma text handles; gzip text handles; os.PathLike objects that are not
# pathlib.Path: user class with __fspath__, PurePosixPath, os.DirEntry; subclasses of str).
FILELIKE_WRITERS = ['ntf', 'tmpfile', 'spooled_mem', 'spooled_rolled', 'codecs_ascii', 'codecs_utf8', 'codecs_latin1',
                    'gzip_wt', 'bz2_wt', 'lzma_wt', 'textio_bytesio', 'textio_bytesio_crlf', 'tee',
                    'pathlike', 'str_subclass', 'direntry', 'purepath', 'sio_sub']
# (writer, forced file-name suffix) -> kinds of source the written text is read through
READERS_OF = {
    ('ntf', ''): ['same', 'path_str', 'codecs', 'lines'],
    ('tmpfile', ''): ['same'],
    ('spooled_mem', ''): ['same'],
    ('spooled_rolled', ''): ['same'],
    ('codecs_ascii', ''): ['codecs', 'path_pathlib'],
    ('codecs_utf8', ''): ['codecs', 'handle', 'iteronly'],
    ('codecs_latin1', ''): ['codecs', 'path_str'],
    ('gzip_wt', '.gz'): ['comp_rt', 'path_str'],
    ('bz2_wt', '.bz2'): ['comp_rt', 'pathlike'],
    ('lzma_wt', '.xz'): ['comp_rt', 'path_pathlib'],
    ('textio_bytesio', ''): ['same', 'textio_new'],
    ('textio_bytesio_crlf', ''): ['textio_new'],
    ('tee', ''): ['lines', 'iteronly'],
    ('sio_sub', ''): ['same'],
    ('pathlike', ''): ['pathlike', 'path_str', 'lines'],
    ('str_subclass', ''): ['str_subclass', 'codecs'],
    ('direntry', ''): ['direntry', 'handle'],
    ('purepath', ''): ['purepath', 'iteronly'],
    # the targets of old, read through the new kinds of source
    ('path_str', ''): ['codecs', 'lines', 'direntry', 'pathlike'],
    ('path_pathlib', ''): ['iteronly', 'str_subclass', 'purepath'],
    ('handle', ''): ['codecs', 'lines', 'pathlike'],
    ('handle_crlf', ''): ['codecs', 'iteronly'],
    ('path_str', '.gz'): ['comp_rt'],
    ('path_pathlib', '.bz2'): ['comp_rt'],
    ('path_str', '.xz'): ['comp_rt'],
}
FILELIKE_PAIRS = [(w, sfx, r) for (w, sfx), rs in READERS_OF.items() for r in rs]
CODECS_SAFE_HEADERS = ['default', 'plain', 'hash', 'lf_rows', 'crlf_rows', 'empty', 'edge_newlines', 'bare_cr_rows',
                       'witness_cr', 'default_cr_name']
FILELIKE_REFUSE_TARGETS = ['ntf', 'tee', 'codecs_utf8', 'spooled_mem', 'pathlike']
# what the unchanged numpy call itself does not take as a name or handle: executed and counted only
FOREIGN_TARGETS = ['bytes_path', 'pathlike_bytes', 'int_fd']

# ---- coordinates that are NOT written: every kind scipp lets a 1-d data array carry ----
# workload kind -> class the monitor derives from the data array it sees (other_coord_classes)
OTHER_KINDS = {
    'edges': 'edges', 'edges_int': 'edges_int64', 'edges_string': 'edges_string',
    'edges_datetime': 'edges_datetime64', 'int64': 'int64', 'int32': 'int32', 'float32': 'float32',
    'bool': 'bool', 'string': 'string', 'datetime': 'datetime64', 'vector': 'vector3', 'variances': 'variances',
    'scalar_string': 'scalar_string', 'scalar_datetime': 'scalar_datetime64', 'scalar_vector': 'scalar_vector3',
    'scalar_int': 'scalar_int64', 'outer_edges': 'not_along_dim_edges',
}
OTHER_LIST = list(OTHER_KINDS)
OTHER_NAMES = {'edges': 'tof_edges', 'edges_int': 'channel', 'edges_string': 'bin_label', 'edges_datetime': 'time_edges',
               'int64': 'detector_id', 'int32': 'pixel', 'float32': 'monitor', 'bool': 'flag', 'string': 'label',
               'datetime': 'time', 'vector': 'position', 'variances': 'background', 'scalar_string': 'title',
               'scalar_datetime': 'start_time', 'scalar_vector': 'source_position', 'scalar_int': 'run_number'}
ROW_LIKE = ['1 2 3', '4 5 6', '1.5 -2.5e3 0.25', '0 0 0', '1e300 1e-300 5e-324', '7 8 9']
SEPS = ['\n', '\r\n', '\r']
# ASCII characters that str.splitlines() treats as line boundaries but files do not, and other controls
CTRL = ['\x0b', '\x0c', '\x1c', '\x1d', '\x1e', '\x00', '\x1a', '\x7f', '\t', '\x08', '\x1b']


class Tee:
    """A user's sink: nothing but write()."""

    def __init__(self, sink):
        self._sink = sink

    def write(self, text):
        self._sink.write(text)
        return len(text)


class Lines:
    """A user's source: nothing but an iterator over lines."""

    def __init__(self, lines):
        self._it = iter(lines)

    def __iter__(self):
        return self

    def __next__(self):
        return next(self._it)


class IterOnly:
    """A user's source: an iterable of lines that is not its own iterator."""

    def __init__(self, lines):
        self._lines = list(lines)

    def __iter__(self):
        return iter(self._lines)


class FsPath:
    """os.PathLike that is not a pathlib class."""

    def __init__(self, p):
        self._p = p

    def __fspath__(self):
        return self._p

    def __repr__(self):
        return f'FsPath({self._p!r})'


class StrSub(str):
    pass


class LoggingStringIO(io.StringIO):
    """A user's subclass of a text stream that overrides write(): what the writer puts into the target has to
    go through this method (the observer of such a target reads the log, not the buffer)."""

    def __init__(self):
        super().__init__()
        self.log = []

    def write(self, text):
        self.log.append(text)
        return super().write(text)


class DataArraySub(sc.DataArray):
    """A user's subclass of the documented argument class."""


# ---- process-wide settings that can change how numbers are rendered or parsed -------------------------------
# The table of an XYE file is a function of the data alone: whatever numpy's print options, the locale, the
# decimal context or the working directory of the process are when save_xye / load_xye are called, the numbers
# in the file and the arrays that come back are the same.  Each state is set before the call(s) it covers and
# put back afterwards by the driver; the monitors judge the files / results exactly as in every other case.
LOCALE_SRC = '/usr/lib/locale/C.utf8'
COMMA_CANDIDATES = ['de_DE.UTF-8', 'de_DE.utf8', 'fr_FR.UTF-8', 'fr_FR.utf8', 'nl_NL.UTF-8', 'es_ES.UTF-8',
                    'it_IT.UTF-8', 'pt_BR.UTF-8', 'ru_RU.UTF-8', 'sv_SE.UTF-8', 'pl_PL.UTF-8', 'da_DK.UTF-8', 'de_DE']


@contextlib.contextmanager
def _restore_locale():
    saved = locale.setlocale(locale.LC_ALL)
    try:
        yield
    finally:
        locale.setlocale(locale.LC_ALL, saved)


def _installed_comma_locale():
    with _restore_locale():
        for nm in COMMA_CANDIDATES:
            try:
                locale.setlocale(locale.LC_NUMERIC, nm)
            except locale.Error:
                continue
            if locale.localeconv()['decimal_point'] == ',':
                return nm
    return None


def _numeric_items(raw):
    """Offsets of the items of a compiled glibc LC_NUMERIC file, None if it does not look like one."""
    try:
        magic, n = struct.unpack_from('<II', raw, 0)
        offs = struct.unpack_from('<%dI' % n, raw, 8)
    except struct.error:
        return None
    if magic != 0x20031114 or n < 4 or raw[offs[0]:offs[0] + 2] != b'.\x00' or raw[offs[3]:offs[3] + 4] != b'.\x00\x00\x00':
        return None
    return offs


def _craftable_comma_locale():
    try:
        with open(os.path.join(LOCALE_SRC, 'LC_NUMERIC'), 'rb') as f:
            return _numeric_items(f.read()) is not None
    except OSError:
        return False


def _comma_locale_plan():
    """How this machine can give a locale whose decimal point is a comma: an installed one, or a copy of the
    C.utf8 locale whose LC_NUMERIC says ',' (found through LOCPATH; nothing is installed), or not at all."""
    try:
        nm = _installed_comma_locale()
        if nm:
            return ('installed', nm)
        if _craftable_comma_locale():
            return ('crafted', 'xx_XX.UTF-8')
    except Exception:  # noqa: BLE001
        pass
    return None


COMMA_LOCALE = _comma_locale_plan()


def _craft_comma_locale(tmp):
    root = os.path.join(tmp, 'locpath')
    dst = os.path.join(root, 'xx_XX.UTF-8')
    if not os.path.isdir(dst):
        shutil.copytree(LOCALE_SRC, dst)
        p = os.path.join(dst, 'LC_NUMERIC')
        with open(p, 'rb') as f:
            raw = bytearray(f.read())
        offs = _numeric_items(bytes(raw))
        raw[offs[0]] = ord(',')      # decimal_point
        raw[offs[3]] = ord(',')      # its wide-character form
        with open(p, 'wb') as f:
            f.write(raw)
    return root


@contextlib.contextmanager
def _np_print(**opts):
    saved = np.get_printoptions()
    np.set_printoptions(**opts)
    try:
        yield
    finally:
        np.set_printoptions(**saved)


@contextlib.contextmanager
def _np_print_context(**opts):
    with np.printoptions(**opts):
        yield


@contextlib.contextmanager
def _locale_state(category, name, tmp):
    with _restore_locale():
        had = os.environ.get('LOCPATH')
        try:
            if name == 'comma':
                how, name = COMMA_LOCALE
                if how == 'crafted':
                    os.environ['LOCPATH'] = _craft_comma_locale(tmp)
            locale.setlocale(category, name)
        finally:
            if had is None:
                os.environ.pop('LOCPATH', None)
            else:
                os.environ['LOCPATH'] = had
        if name != 'C.utf8' and locale.localeconv()['decimal_point'] != ',':
            raise RuntimeError('locale without a decimal comma')
        yield


@contextlib.contextmanager
def _decimal_state(traps=(), **attrs):
    saved = decimal.getcontext().copy()
    c = decimal.getcontext()
    for a, v in attrs.items():
        setattr(c, a, v)
    for t in traps:
        c.traps[t] = True
    try:
        yield
    finally:
        decimal.setcontext(saved)


@contextlib.contextmanager
def _cwd_state(tmp):
    saved = os.getcwd()
    os.chdir(tmp)
    try:
        yield
    finally:
        os.chdir(saved)


def _x_formatter(v):
    return 'X'


def _process_states():
    """name -> (family, factory(tmp) -> context manager).  Legacy print modes: those this numpy has."""
    st = {}
    for leg in ('1.13', '1.21', '1.25', '2.1'):
        try:
            with np.printoptions(legacy=leg):
                pass
        except Exception:  # noqa: BLE001  a mode this numpy does not know
            continue
        st['np_legacy_' + leg] = ('numpy_printoptions', lambda tmp, leg=leg: _np_print(legacy=leg))
    st['np_legacy_1.13_context'] = ('numpy_printoptions', lambda tmp: _np_print_context(legacy='1.13'))
    st['np_legacy_1.13_precision_3_suppress'] = (
        'numpy_printoptions', lambda tmp: _np_print(legacy='1.13', precision=3, suppress=True))
    st['np_precision_3'] = ('numpy_printoptions', lambda tmp: _np_print(precision=3))
    st['np_precision_0'] = ('numpy_printoptions', lambda tmp: _np_print(precision=0))
    for fm in ('fixed', 'unique', 'maxprec', 'maxprec_equal'):
        st['np_floatmode_' + fm] = ('numpy_printoptions', lambda tmp, fm=fm: _np_print(floatmode=fm, precision=2))
    st['np_suppress'] = ('numpy_printoptions', lambda tmp: _np_print(suppress=True, precision=4))
    st['np_summarise'] = ('numpy_printoptions', lambda tmp: _np_print(threshold=3, edgeitems=1, linewidth=20))
    st['np_sign_plus'] = ('numpy_printoptions', lambda tmp: _np_print(sign='+'))
    st['np_sign_space'] = ('numpy_printoptions', lambda tmp: _np_print(sign=' '))
    st['np_formatter'] = ('numpy_printoptions', lambda tmp: _np_print(
        formatter={'float_kind': _x_formatter, 'all': _x_formatter}))
    st['locale_c_utf8_all'] = ('locale', lambda tmp: _locale_state(locale.LC_ALL, 'C.utf8', tmp))
    if COMMA_LOCALE is not None:
        st['locale_comma_decimal_numeric'] = ('locale', lambda tmp: _locale_state(locale.LC_NUMERIC, 'comma', tmp))
        st['locale_comma_decimal_all'] = ('locale', lambda tmp: _locale_state(locale.LC_ALL, 'comma', tmp))
    st['decimal_prec_5_round_down'] = ('decimal', lambda tmp: _decimal_state(prec=5, rounding=decimal.ROUND_DOWN))
    st['decimal_prec_1_traps'] = ('decimal', lambda tmp: _decimal_state(
        traps=(decimal.Inexact, decimal.Rounded, decimal.Subnormal), prec=1, Emax=9, Emin=-9))
    st['cwd_relative_name'] = ('cwd', lambda tmp: _cwd_state(tmp))
    return st


PROCESS_STATES = _process_states()
STATE_PHASES = ['save', 'load', 'both']
STATE_TARGETS = ['path_str', 'stringio', 'handle', 'path_pathlib', 'ntf', 'stringio_universal', 'handle_crlf']


def process_snapshot():
    """What the states above touch, as comparable values (to see whether a call changed the process)."""
    po = dict(np.get_printoptions())
    po['formatter'] = None if po.get('formatter') is None else sorted(po['formatter'])
    c = decimal.getcontext()
    return (repr(sorted(po.items())), locale.setlocale(locale.LC_ALL), (c.prec, c.rounding, c.Emin, c.Emax, repr(c.traps)),
            os.getcwd())


def file_lines(text, conv):
    """The lines a file with this text hands out (line ends as files have them, not str.splitlines)."""
    return re.findall(r'[^\r\n]*(?:\r\n|\r|\n)|[^\r\n]+' if conv == 'universal' else r'[^\n]*\n|[^\n]+', text)


def pread_all(fd):
    return os.pread(fd, os.fstat(fd).st_size, 0).decode('latin-1')


def make_other(rng, kind, dim, n):
    """One coordinate of the given kind for n rows along dim; it is never the one that gets written."""
    if kind == 'edges':
        return sc.array(dims=[dim], values=np.sort(finite_bits(rng, n + 1)), unit='us')
    if kind == 'edges_int':
        return sc.array(dims=[dim], values=np.arange(n + 1) + int(rng.integers(-5, 1000)), unit=None)
    if kind == 'edges_string':
        return sc.array(dims=[dim], values=[f'b{i}' for i in range(n + 1)])
    if kind == 'edges_datetime':
        return sc.datetimes(dims=[dim], values=(np.arange(n + 1) * int(rng.integers(1, 90))).astype('datetime64[s]'))
    if kind == 'int64':
        return sc.array(dims=[dim], values=rng.integers(-2**62, 2**62, size=n), unit=None)
    if kind == 'int32':
        return sc.array(dims=[dim], values=rng.integers(-2**31, 2**31 - 1, size=n).astype(np.int32), unit='counts')
    if kind == 'float32':
        return sc.array(dims=[dim], values=rng.normal(size=n).astype(np.float32), unit='counts')
    if kind == 'bool':
        return sc.array(dims=[dim], values=rng.random(n) < 0.5)     # looks like a mask, is a coordinate
    if kind == 'string':
        return sc.array(dims=[dim], values=[f'p{int(v)}' for v in rng.integers(0, 99, size=n)])
    if kind == 'datetime':
        return sc.datetimes(dims=[dim], values=rng.integers(0, 2**31, size=n).astype('datetime64[s]'))
    if kind == 'vector':
        return sc.vectors(dims=[dim], values=rng.normal(size=(n, 3)), unit='m')
    if kind == 'variances':
        return sc.array(dims=[dim], values=finite_bits(rng, n), variances=np.abs(rng.normal(size=n)), unit='counts')
    if kind == 'scalar_string':
        return sc.scalar(TITLES[int(rng.integers(0, len(TITLES)))])
    if kind == 'scalar_datetime':
        return sc.datetime(int(rng.integers(0, 2**31)), unit='s')
    if kind == 'scalar_vector':
        return sc.vector(rng.normal(size=3), unit='m')
    if kind == 'scalar_int':
        return sc.scalar(int(rng.integers(0, 99999)), unit=None)
    raise KeyError(kind)


def finite_bits(rng, n):
    out = np.empty(0)
    while len(out) < n:
        b = rng.integers(0, 2**64, size=n + 16, dtype=np.uint64).view(np.float64)
        out = np.concatenate([out, b[np.isfinite(b)]])
    return out[:n].copy()


def draw_values(rng, n, cls):
    if cls == 'ordinary':
        return rng.normal(size=n) * 10.0 ** rng.integers(-6, 7, size=n)
    if cls == 'bits':
        return finite_bits(rng, n)
    if cls == 'special':
        return SPECIALS[rng.integers(0, len(SPECIALS), size=n)].copy()
    # mixed: every special when there is room, the rest random bit patterns and ordinary numbers
    v = finite_bits(rng, n)
    m = rng.random(n) < 0.3
    v[m] = (rng.normal(size=n) * 10.0 ** rng.integers(-6, 7, size=n))[m]
    if n >= len(SPECIALS):
        pos = rng.permutation(n)[:len(SPECIALS)]
        v[pos] = SPECIALS
    else:
        m = rng.random(n) < 0.5
        v[m] = SPECIALS[rng.integers(0, len(SPECIALS), size=n)][m]
    return v


def draw_rows(rng, tier, k):
    r = rng.random()
    if r < 0.14:
        return 1
    if r < 0.24:
        return int(rng.integers(2, 4))
    if r < 0.80:
        return int(round(10 ** rng.uniform(np.log10(4), np.log10(300))))
    if r < 0.97 or tier == 'quick':   # quick: the 1e4-row files are the scheduled ones
        return int(round(10 ** rng.uniform(np.log10(300), np.log10(3000))))
    return 10000


def make_header(rng, hclass):
    """Explicit header text of the given class (None -> generated header)."""
    def rows(sep, m=None):
        m = m or int(rng.integers(2, 5))
        return sep.join(ROW_LIKE[i] for i in rng.integers(0, len(ROW_LIKE), size=m))

    def printable(m):
        return ''.join(chr(c) for c in rng.integers(32, 127, size=m))

    if hclass in ('default', 'default_hostile_name', 'default_cr_name'):
        return None
    if hclass == 'empty':
        return ''
    if hclass == 'plain':
        return printable(int(rng.integers(1, 60)))
    if hclass == 'hash':
        return '# ' + printable(10) + '\n#' + rows(' # ') + '\n##'
    if hclass == 'lf_rows':
        return rows('\n') + ('\n' if rng.random() < 0.5 else '')
    if hclass == 'crlf_rows':
        return rows('\r\n') + ('\r\n' if rng.random() < 0.5 else '')
    if hclass == 'bare_cr_rows':
        return ('title' if rng.random() < 0.5 else ROW_LIKE[0]) + '\r' + rows('\r') + ('\r' if rng.random() < 0.3 else '')
    if hclass == 'witness_cr':
        return '1 2 3\r4 5 6'
    if hclass == 'ctrl_boundaries':
        return ''.join(ROW_LIKE[int(rng.integers(0, len(ROW_LIKE)))] + CTRL[int(rng.integers(0, len(CTRL)))]
                       for _ in range(int(rng.integers(2, 8)))) + ROW_LIKE[1]
    if hclass == 'random_ascii':
        m = int(rng.integers(1, 200))
        s = ''.join(chr(c) for c in rng.integers(0, 128, size=m))
        return s.replace('\r', ' ') if rng.random() < 0.5 else s
    if hclass == 'edge_newlines':
        sep = SEPS[int(rng.integers(0, 2))]   # LF or CRLF at both ends and doubled inside
        return sep + rows(sep + sep) + sep + sep
    raise KeyError(hclass)


def schedule():
    """Specs every run executes regardless of the seed (spread over the shards)."""
    out = []
    for i, h in enumerate(HEADER_CLASSES):
        for j, t in enumerate(TARGETS):
            out.append({'kind': 'accept', 'header': h, 'target': t,
                        'rows': 10000 if h == 'lf_rows' else 1 if (i + j) % 5 == 0 else None})
    for i, c in enumerate(REFUSE_CLASSES):
        for t in REFUSE_TARGETS:
            out.append({'kind': 'refuse', 'cls': c, 'target': t})
    for rep in range(2):
        for t in REFUSE_TARGETS:
            out.append({'kind': 'refuse', 'cls': 'ambiguous_coord', 'target': t})
    for rep in range(3):
        for t in STREAM_TARGETS:
            out.append({'kind': 'stream', 'target': t})
    for lay in LAYOUTS[1:]:
        for t in ('stringio', 'path_str'):
            out.append({'kind': 'accept', 'header': 'default', 'target': t, 'rows': None, 'layout': lay})
    # data whose unit strings / coordinate name are not ASCII: every header source x every kind of target;
    # for the generated header every position of the unit; the unit index runs through the whole pool on
    # the path targets of the generated header (they come first)
    c = 0
    for h in NA_HEADERS:
        for ti, (t, sfx) in enumerate(NA_TARGETS):
            for pi, pos in enumerate(NA_POSITIONS if h == 'default' else [NA_POSITIONS[(ti + c) % 3]]):
                out.append({'kind': 'accept', 'header': h, 'target': t, 'suffix': sfx, 'nonascii': pos,
                            'na_index': c, 'rows': 1 if (ti + pi) % 4 == 0 else None,
                            'existing': t.startswith('path') and (ti + pi) % 3 == 1})
                c += 1
    for h in NA_HEADERS:
        for ti, (t, sfx) in enumerate(NA_TARGETS):
            if h == 'default' or ti % 4 == 0:
                out.append({'kind': 'accept', 'header': h, 'target': t, 'suffix': sfx, 'nonascii': 'name',
                            'na_index': c, 'rows': 1 if ti % 5 == 0 else None,
                            'existing': t.startswith('path') and ti % 2 == 0})
                c += 1
    # every kind of unwritten coordinate x the written one named with coord= / deduced as dimension-coordinate;
    # for coord=: the unwritten one is the dimension-coordinate itself (edges 'tof' next to 'tof_center')
    other_targets = ['stringio', 'path_str', 'handle', 'path_pathlib', 'stringio_universal', 'ntf']
    j = 0
    for kd in OTHER_LIST:
        for mode in ('explicit', 'deduced', 'explicit_named_dim'):
            if mode == 'explicit_named_dim' and (kd.startswith('scalar') or kd == 'outer_edges'):
                continue
            out.append({'kind': 'accept', 'header': ['default', 'plain', 'lf_rows'][j % 3] if j % 4 else 'default',
                        'target': other_targets[j % len(other_targets)], 'rows': 1 if j % 5 == 2 else None,
                        'others': [kd], 'coord_mode': mode.split('_')[0], 'other_named_dim': mode.endswith('dim')})
            j += 1
    for combo in (['edges', 'scalar_string'], ['edges', 'bool', 'int64'], ['edges_datetime', 'variances'],
                  ['outer_edges', 'edges'], ['string', 'vector', 'float32', 'edges_int']):
        for mode in ('explicit', 'deduced'):
            out.append({'kind': 'accept', 'header': 'default', 'target': other_targets[j % len(other_targets)],
                        'rows': None, 'others': combo, 'coord_mode': mode})
            j += 1
    # every kind of file-like target numpy takes, written and read back through every kind of source that fits
    # (codecs readers end lines where files do not: header classes without such characters for them; units and
    # names inside ASCII so that every encoding of the pool can hold the generated header)
    for j, (w, sfx, r) in enumerate(FILELIKE_PAIRS):
        pool = CODECS_SAFE_HEADERS if r == 'codecs' else HEADER_CLASSES
        out.append({'kind': 'accept', 'header': pool[(3 * j) % len(pool)], 'target': w,
                    'suffix': sfx, 'reader': r, 'rows': 1 if j % 6 == 1 else None, 'nonascii': ''})
    for j, t in enumerate(FILELIKE_REFUSE_TARGETS):
        for i in range(3):
            out.append({'kind': 'refuse', 'cls': REFUSE_CLASSES[(3 * j + i) % len(REFUSE_CLASSES)], 'target': t})
    for t in FOREIGN_TARGETS:
        out.append({'kind': 'foreign', 'target': t})
    # process-wide settings that change how numbers are rendered / parsed x the call(s) they cover; values that
    # need every digit.  3 phases and 7 targets: every state meets several kinds of target
    j = 0
    for st in PROCESS_STATES:
        for ph in STATE_PHASES:
            # a relative name is a matter of path targets: both kinds of them
            for tg in ([STATE_TARGETS[j % len(STATE_TARGETS)]] if st != 'cwd_relative_name' else ['path_str', 'path_pathlib']):
                out.append({'kind': 'accept', 'header': ['default', 'plain', 'empty', 'lf_rows'][j % 4], 'target': tg,
                            'rows': 1 if j % 7 == 3 else None, 'nonascii': '', 'vcls': ['mixed', 'bits'][j % 2],
                            'state': st, 'phase': ph})
            j += 1
    # every calling convention the signatures allow
    for j, cv in enumerate(CALLS):
        for ti, t in enumerate(('path_str', 'stringio', 'handle')):
            out.append({'kind': 'accept', 'header': ['default', 'plain', 'lf_rows'][(j + ti) % 3], 'target': t, 'rows': None,
                        'nonascii': '', 'call': cv, 'coord_mode': ['explicit', 'deduced'][(j + ti) % 2]})
    # names given as other kinds of str than str itself; units as unit objects / other kinds of str
    for j, sf in enumerate(STR_FORMS):
        for mi, mode in enumerate(('explicit', 'deduced')):
            out.append({'kind': 'accept', 'header': ['plain', 'default'][(j + mi) % 2], 'target': ['stringio', 'path_str'][mi],
                        'rows': None, 'nonascii': '', 'strform': sf, 'coord_mode': mode})
    for j, uf in enumerate(UNIT_FORMS):
        out.append({'kind': 'accept', 'header': 'default', 'target': ['path_pathlib', 'stringio', 'handle'][j], 'rows': None,
                    'nonascii': ['', 'both', ''][j], 'na_index': 7, 'unitform': uf})
    # dimensions named like names that occur in the module / in scipp's own defaults
    for j, dn in enumerate(DIM_NAMES):
        out.append({'kind': 'accept', 'header': 'default', 'target': ['stringio', 'path_str', 'handle'][j % 3],
                    'rows': 1 if j % 6 == 5 else None, 'nonascii': '', 'dim_name': dn,
                    'coord_mode': ['explicit', 'deduced'][j % 2]})
    # second use of data / targets / results, display and copy operations in between
    for j, sub in enumerate(SECOND_USES):
        out.append({'kind': 'second', 'second': sub, 'target': ['path_str', 'path_pathlib'][j % 2],
                    'rows': 1 if j % 5 == 3 else None})
    # stand-ins of the documented argument classes; a written coordinate that has variances of its own
    for mi, mode in enumerate(('explicit', 'deduced')):
        out.append({'kind': 'accept', 'header': 'default', 'target': ['stringio', 'path_str'][mi], 'rows': None,
                    'nonascii': '', 'layout': 'dict', 'da_subclass': True, 'coord_mode': mode})
    out.append({'kind': 'accept', 'header': 'default', 'target': 'stringio', 'rows': None, 'nonascii': '',
                'layout': 'dict', 'chosen_variances': True})
    # sizes that coincide with sizes underneath (3 columns; the reader's chunk of 50000 rows): exactly, one below, one above
    for j, nr in enumerate(COINCIDING_ROWS):
        out.append({'kind': 'accept', 'header': ['default', 'lf_rows', 'empty'][j % 3],
                    'target': ['stringio', 'path_str', 'handle', 'path_pathlib', 'path_str', 'stringio'][j],
                    'rows': nr, 'nonascii': '', 'suffix': '', 'vcls': 'bits' if nr > 100 else 'mixed', 'layout': 'dict'})
    out.append({'kind': 'unicode'})
    # file-system forms of path targets first: one per shard in turn, '<linked directory>/../name' in shard 0 (the shard
    # the runner repeats under its environment variants); the fresh-interpreter case in a shard that is not repeated
    head = [{'kind': 'fs', 'form': f} for f in FS_FORMS]
    head.insert(5, {'kind': 'fresh'})
    return head + out


def random_spec(rng, only=None):
    r = rng.random()
    if only is None and r < 0.2:
        return {'kind': 'stream', 'target': STREAM_TARGETS[int(rng.integers(0, len(STREAM_TARGETS)))]}
    if only is None and r < 0.4:
        # the coordinate classes have the largest state space (alignment, scalars, slicing routes)
        wr = np.array([4.0 if c == 'ambiguous_coord' else 2.0 if c in ('combo', 'bin_edges_deduced', 'masks') else 1.0
                       for c in REFUSE_CLASSES])
        return {'kind': 'refuse', 'cls': REFUSE_CLASSES[int(rng.choice(len(REFUSE_CLASSES), p=wr / wr.sum()))],
                'target': REFUSE_TARGETS[int(rng.integers(0, len(REFUSE_TARGETS)))]}
    w = np.array([5, 2, 1, 1, 2, 1, 2, 2, 1.5, 0.3, 1.5, 3, 1.5])
    h = HEADER_CLASSES[int(rng.choice(len(HEADER_CLASSES), p=w / w.sum()))]
    if only is None and rng.random() < 0.3:
        tw, sfx, rd = FILELIKE_PAIRS[int(rng.integers(0, len(FILELIKE_PAIRS)))]
        return calling_side(rng, {'kind': 'accept', 'header': h, 'target': tw, 'suffix': sfx, 'reader': rd, 'rows': None})
    spec = {'kind': 'accept', 'header': h, 'target': TARGETS[int(rng.integers(0, len(TARGETS)))], 'rows': None}
    return calling_side(rng, spec) if only is None else spec


def calling_side(rng, spec):
    """At random, the classes of the calling side on top of any accept case (every header / target / reader)."""
    r = rng.random(4)
    if r[0] < 0.12:
        names = [st for st in PROCESS_STATES if st != 'cwd_relative_name']
        spec.update(state=names[int(rng.integers(0, len(names)))], phase=STATE_PHASES[int(rng.integers(0, 3))], nonascii='')
    if r[1] < 0.1:
        spec['call'] = CALLS[int(rng.integers(0, len(CALLS)))]
    if r[2] < 0.08:
        spec['strform'] = STR_FORMS[int(rng.integers(0, len(STR_FORMS)))]
    if r[3] < 0.08:
        spec['unitform'] = UNIT_FORMS[int(rng.integers(0, len(UNIT_FORMS)))]
    return spec


class Env:
    def __init__(self, tmp, scn_save, scn_load, mon, ctx, tier):
        self.tmp, self.save, self.load, self.mon, self.ctx, self.tier = tmp, scn_save, scn_load, mon, ctx, tier
        self.nfile = 0
        self.cleanup = []     # run at the end of the case (handles that stay open for reading back)
        self.medium = {}      # where the text of an in-memory target of this case lives

    def end_case(self):
        for f in reversed(self.cleanup):
            try:
                f()
            except Exception:  # noqa: BLE001
                pass
        self.cleanup = []
        self.medium = {}
        self.mon.observers.clear()
        self.mon.ledger.clear()

    def direntry(self, path):
        d, b = os.path.split(path)
        with os.scandir(d) as it:
            for e in it:
                if e.name == b:
                    return e
        raise FileNotFoundError(path)

    def open_filelike(self, kind, suffix=None):
        """The file-like targets numpy takes beyond str / pathlib.Path / open() handles / StringIO."""
        mon = self.mon
        if kind == 'tee':
            sink = io.StringIO()
            t = Tee(sink)
            mon.register(t, ('obj', id(sink)), sink.getvalue, conv='lf', pos=lambda: len(sink.getvalue()))
            self.medium = {'sink': sink}
            return t, None, None
        if kind == 'sio_sub':
            f = LoggingStringIO()      # observed through what its write() override was handed
            mon.register(f, ('obj', id(f)), lambda: ''.join(f.log), conv='lf')
            return f, None, None
        if kind in ('spooled_mem', 'spooled_rolled'):
            f = tempfile.SpooledTemporaryFile(max_size=10**9 if kind == 'spooled_mem' else 64, mode='w+', dir=self.tmp)

            def read_spooled():
                inner = f._file             # TextIOWrapper over BytesIO, over a real file once rolled over
                if inner.closed:
                    return None
                inner.flush()
                buf = inner.buffer
                return buf.getvalue().decode('latin-1') if isinstance(buf, io.BytesIO) else pread_all(buf.fileno())
            mon.register(f, ('obj', id(f)), read_spooled, encoding=f.encoding)
            self.cleanup.append(f.close)
            return f, None, None
        if kind in ('textio_bytesio', 'textio_bytesio_crlf'):
            b = io.BytesIO()
            f = io.TextIOWrapper(b, encoding='utf-8', newline='\r\n' if kind.endswith('crlf') else None)

            def read_bytesio():
                if not f.closed:
                    f.flush()
                return b.getvalue().decode('latin-1')
            mon.register(f, ('obj', id(b)), read_bytesio, encoding='utf-8')
            self.medium = {'bytesio': b}
            return f, None, None
        if kind == 'tmpfile':
            f = tempfile.TemporaryFile('w+', dir=self.tmp)

            def read_tmpfile():
                if f.closed:
                    return None
                f.flush()
                return pread_all(f.fileno())
            mon.register(f, ('obj', id(f)), read_tmpfile, encoding=f.encoding)
            self.cleanup.append(f.close)
            return f, None, None
        if kind == 'ntf':
            f = tempfile.NamedTemporaryFile('w+', dir=self.tmp, prefix='ntf', suffix='.xye')
            self.cleanup.append(f.close)
            return f, f.name, None
        if kind in ('gzip_wt', 'bz2_wt', 'lzma_wt'):
            import importlib
            modname, sfx = {'gzip_wt': ('gzip', '.gz'), 'bz2_wt': ('bz2', '.bz2'), 'lzma_wt': ('lzma', '.xz')}[kind]
            p = self.fresh_path(suffix=sfx)
            f = importlib.import_module(modname).open(p, 'wt')
            if kind == 'gzip_wt':
                return f, p, f.close     # has a name, can be flushed: looked into like any handle on a path
            rp = os.path.realpath(p)

            def pos_behind_compressor():
                f.flush()
                return f.buffer.tell()     # uncompressed bytes handed to the compressor so far
            mon.register(f, ('path', rp), path_reader(rp), pos=pos_behind_compressor, encoding=f.encoding,
                         deferred=True)    # bz2 / lzma put nothing into the file before close()

            def close_and_judge():
                f.close()
                mon.finish_target(f)
            return f, p, close_and_judge
        p = self.fresh_path(suffix='')
        if kind.startswith('codecs_'):
            f = codecs.open(p, 'w', encoding=kind[len('codecs_'):])
            return f, p, f.close
        if kind == 'pathlike':
            return FsPath(p), p, None
        if kind == 'str_subclass':
            return StrSub(p), p, None
        if kind == 'purepath':
            return pathlib.PurePosixPath(p), p, None
        if kind == 'direntry':
            with open(p, 'w'):
                pass
            return self.direntry(p), p, None
        raise KeyError(kind)

    def make_reader(self, rkind, wkind, tgt, path):
        """-> (object handed to load_xye, closer) for text that went into ``tgt`` / stands under ``path``."""
        mon = self.mon
        if rkind == 'same':
            tgt.flush()
            tgt.seek(0)
            return tgt, None
        if rkind == 'textio_new':
            b = self.medium['bytesio']
            f = io.TextIOWrapper(io.BytesIO(b.getvalue()), encoding='utf-8')
            mon.register(f, ('obj', id(b)), lambda: b.getvalue().decode('latin-1'), encoding='utf-8')
            return f, None
        if rkind in ('lines', 'iteronly'):
            if 'sink' in self.medium:
                sink = self.medium['sink']
                text, conv, key, read = sink.getvalue(), 'lf', ('obj', id(sink)), sink.getvalue
            else:
                rp = os.path.realpath(path)
                enc = wkind[len('codecs_'):] if wkind.startswith('codecs_') else None
                try:
                    with open(path, encoding=enc, newline='') as f:
                        text = f.read()
                except UnicodeError:
                    with open(path, encoding='latin-1', newline='') as f:
                        text = f.read()
                conv, key, read = 'universal', ('path', rp), path_reader(rp)
            lines = file_lines(text, conv)
            src = Lines(lines) if rkind == 'lines' else IterOnly(lines)
            mon.register(src, key, read, conv=conv, pos=lambda: 0)
            return src, None
        if hasattr(tgt, 'flush') and not getattr(tgt, 'closed', True):
            tgt.flush()
        if rkind == 'path_str':
            return path, None
        if rkind == 'path_pathlib':
            return pathlib.Path(path), None
        if rkind == 'pathlike':
            return FsPath(path), None
        if rkind == 'str_subclass':
            return StrSub(path), None
        if rkind == 'purepath':
            return pathlib.PurePosixPath(path), None
        if rkind == 'direntry':
            return self.direntry(path), None
        if rkind == 'handle':
            f = open(path)
            return f, f.close
        if rkind == 'codecs':
            f = codecs.open(path, 'r', encoding=wkind[len('codecs_'):] if wkind.startswith('codecs_') else 'utf-8')
            return f, f.close
        if rkind == 'comp_rt':
            import importlib
            sfx = [x for x in ('.gz', '.bz2', '.xz') if path.endswith(x)][0]
            f = importlib.import_module({'.gz': 'gzip', '.bz2': 'bz2', '.xz': 'lzma'}[sfx]).open(path, 'rt')
            if sfx != '.gz':      # no name on these
                rp = os.path.realpath(path)
                mon.register(f, ('path', rp), path_reader(rp), encoding=f.encoding)
            return f, f.close
        raise KeyError(rkind)

    def fresh_path(self, compressed_ok=False, suffix=None):
        self.nfile += 1
        # numpy compresses / decompresses by file name; such names are legitimate path targets
        if suffix is None:
            suffix = ''
            if compressed_ok and self.nfile % 7 == 0:
                suffix = ['.gz', '.bz2', '.xz'][(self.nfile // 7) % 3]
        return os.path.join(self.tmp, f'f{self.nfile}.xye{suffix}')

    def open_target(self, kind, suffix=None, existing=False):
        """-> (object handed to save_xye, path or None, closer)"""
        if kind == 'stringio':
            return io.StringIO(), None, None
        if kind == 'stringio_universal':
            return io.StringIO(newline=None), None, None
        if kind in FILELIKE_WRITERS:
            return self.open_filelike(kind, suffix)
        p = self.fresh_path(compressed_ok=kind in ('path_str', 'path_pathlib'), suffix=suffix)
        if existing and kind in ('path_str', 'path_pathlib'):
            with open(p, 'wb') as f:    # under a compressed name: not even a compressed file
                f.write(OLD_FILE)
        if kind == 'path_str':
            return p, p, None
        if kind == 'path_pathlib':
            return pathlib.Path(p), p, None
        if kind == 'handle':
            f = open(p, 'w')
            return f, p, f.close
        if kind == 'handle_crlf':
            f = open(p, 'w', newline='\r\n')
            return f, p, f.close
        raise KeyError(kind)


LAYOUTS = ['dict', 'flags', 'slice2d', 'slice2d_transposed', 'range_squeeze']
LEFTOVER_NAMES = ['spectrum', 'detector_number', 'temperature', 'run', 'sample_position']


def vary_alignment(rng, da, p):
    """Clear the alignment flag of each coordinate with probability p (scipp: coords.set_aligned)."""
    for nm in list(da.coords.keys()):
        if rng.random() < p:
            da.coords.set_aligned(nm, False)
    return da


def assemble(rng, dim, y, var, unit, coords, layout, n_extra, others=None, outer_edges=False):
    """A 1-d data array with the given values and 1-d coordinates, reached the way users reach one.

    dict: from variables (every coordinate aligned); flags: alignment cleared at random;
    slice2d / slice2d_transposed: integer index into a 2-d array (outer dim first / last) whose 1-d and
    2-d coordinates become the 1-d coordinates, the outer dimension-coordinate and other outer
    coordinates stay behind as unaligned scalars; range_squeeze: length-1 range, then squeeze.
    ``n_extra`` further coordinates that do not depend on the row (scalars) are added: leftovers of the
    slicing where there is slicing, plain scalar coordinates otherwise.  ``others``: coordinates of any other
    kind (bin-edges, other dtypes, ...) that ride along; ``outer_edges``: the dimension sliced away had a
    bin-edge coordinate, which stays behind as an unaligned pair of edges (slicing layouts only)."""
    others = others or {}
    taken = set(coords) | set(others) | {dim}
    extra_names = [nm for nm in LEFTOVER_NAMES if nm not in taken][:n_extra]
    if layout in ('dict', 'flags'):
        items = list(coords.items()) + list(others.items())
        items = [items[i] for i in rng.permutation(len(items))] if others else items
        da = sc.DataArray(sc.array(dims=[dim], values=y, variances=var, unit=unit), coords=dict(items))
        for nm in extra_names:
            da.coords[nm] = sc.scalar(float(finite_bits(rng, 1)[0]), unit='K')
            if rng.random() < 0.5:
                da.coords.set_aligned(nm, False)
        if layout == 'flags':
            vary_alignment(rng, da, 0.5)
        return da
    n = len(y)
    outer = 'outer' if 'outer' not in taken else 'outer_'
    m = int(rng.integers(1, 4)) if n <= 3000 else 2
    i = int(rng.integers(0, m))
    dims2 = [outer, dim] if layout != 'slice2d_transposed' else [dim, outer]

    def two_d(row):
        a = finite_bits(rng, m * n).reshape(m, n)
        a[i] = row
        return a if dims2[0] == outer else np.ascontiguousarray(a.T)

    data = sc.array(dims=dims2, values=two_d(y), variances=np.abs(two_d(var)), unit=unit)
    cs = {}
    for nm, c in coords.items():
        if rng.random() < 0.35:
            cs[nm] = sc.array(dims=dims2, values=two_d(c.values), unit=c.unit)
        else:
            cs[nm] = c
    for j, nm in enumerate(extra_names):
        if j == 0 or rng.random() < 0.6:
            cs[nm] = sc.array(dims=[outer], values=finite_bits(rng, m), unit=None)   # -> unaligned scalar
        else:
            cs[nm] = sc.scalar(float(finite_bits(rng, 1)[0]), unit='K')             # stays an aligned scalar
    for nm, c in others.items():
        if c.ndim == 1 and c.dtype == sc.DType.float64 and c.variances is None and rng.random() < 0.35:
            a = finite_bits(rng, m * c.shape[0]).reshape(m, c.shape[0])    # 2-d in the parent (edges: n+1 wide)
            a[i] = c.values
            cs[nm] = sc.array(dims=dims2, values=a if dims2[0] == outer else np.ascontiguousarray(a.T), unit=c.unit)
        else:
            cs[nm] = c
    if outer_edges:
        cs[outer] = sc.array(dims=[outer], values=np.sort(finite_bits(rng, m + 1)), unit='deg')
    da2 = sc.DataArray(data, coords=cs)
    if layout == 'range_squeeze':
        da = da2[outer, i:i + 1].squeeze(outer)
    else:
        da = da2[outer, i]
    # a slice is a read-only view of the 2-d array; users work on it as it is or on a (shallow) copy
    r = rng.random()
    if r < 0.5:
        da = da.copy(deep=bool(r < 0.25))
        if rng.random() < 0.5:
            vary_alignment(rng, da, 0.4)
    return da


def build_accept(rng, spec, tier, k):
    n = spec.get('rows') or draw_rows(rng, tier, k)
    vcls = ['mixed', 'bits', 'special', 'ordinary'][int(rng.choice(4, p=[0.45, 0.25, 0.15, 0.15]))]
    vcls = spec.get('vcls') or vcls
    h = spec['header']
    ncoords = int(rng.integers(1, 6))
    if spec.get('dim_name') and spec.get('coord_mode') == 'deduced':
        ncoords = 1      # a single coordinate need not carry the name of the dimension
    hostile = h in ('default_hostile_name', 'default_cr_name') or (h != 'default' and rng.random() < 0.3)
    pool = list(BENIGN_NAMES) + (list(HOSTILE_NAMES) if hostile else [])
    names = [pool[i] for i in rng.permutation(len(pool))[:ncoords]]
    if h == 'default_hostile_name':
        names[0] = HOSTILE_NAMES[int(rng.integers(0, len(HOSTILE_NAMES)))]
    if h == 'default_cr_name':
        names[0] = CR_NAMES[int(rng.integers(0, len(CR_NAMES)))]
    # units / names outside ASCII: scheduled (forced classes), and at random with every header class
    na = spec.get('nonascii')
    na_i = spec.get('na_index')
    if na is None and rng.random() < 0.12:
        na = ['coord', 'data', 'both', 'name'][int(rng.integers(0, 4))]
    if na_i is None:
        na_i = int(rng.integers(0, 1000))
    if na == 'name' and h not in ('default_hostile_name', 'default_cr_name'):
        names[0] = NON_ASCII_NAMES[na_i % len(NON_ASCII_NAMES)]
    names = list(dict.fromkeys(names))
    other_kinds = list(spec.get('others') or [])
    names = names[:max(1, 5 - len(other_kinds))]     # 1..5 coordinates in all
    ncoords = len(names)
    chosen = names[0]
    explicit = bool(rng.random() < 0.5)
    mode = spec.get('coord_mode')
    if mode:
        explicit = mode == 'explicit'
    dim = chosen if (not explicit or rng.random() < 0.3) else (
        'row' if 'row' not in names else 'row_')
    if not explicit and ncoords == 1 and rng.random() < 0.5:
        dim = 'row'   # a single coordinate need not be the dimension-coordinate
    if mode == 'deduced' or (other_kinds and not explicit):
        dim = chosen  # with further coordinates the rule selects the dimension-coordinate
    if spec.get('other_named_dim') and dim == chosen:
        dim = 'row' if 'row' not in names else 'row_'
    if spec.get('dim_name'):
        dim = spec['dim_name']     # may coincide with the name of a coordinate that is not written
    cunit = ASCII_UNITS[int(rng.integers(0, len(ASCII_UNITS)))]
    unit = ASCII_UNITS[int(rng.integers(0, len(ASCII_UNITS)))]
    if na in ('coord', 'both'):
        cunit = NON_ASCII_UNITS[na_i % len(NON_ASCII_UNITS)]
    if na in ('data', 'both'):
        unit = NON_ASCII_UNITS[(na_i if na == 'data' else 5 * na_i + 3) % len(NON_ASCII_UNITS)]
    y = draw_values(rng, n, vcls)
    var = np.abs(draw_values(rng, n, vcls))
    coords = {}
    order = list(rng.permutation(ncoords))
    for i in order:   # insertion order is random, so "the first coordinate" is not the chosen one
        nm = names[i]
        v = draw_values(rng, n, vcls if nm == chosen else 'bits')
        if nm == chosen and rng.random() < 0.3:
            v = np.sort(v)
        coords[nm] = sc.array(dims=[dim], values=v, unit=cunit if nm == chosen else 'm')
        if nm == chosen and spec.get('chosen_variances'):
            # the written coordinate carries variances of its own: the format has no column for them and the
            # property does not say whether that is "lossy" -> executed and counted by the monitors, not judged
            coords[nm].variances = np.abs(draw_values(rng, n, 'ordinary'))
    # the coordinates in every state scipp allows; what is selected must not depend on the state.
    # Row-independent extras keep the case an accept case only if the rule still selects ``chosen``:
    # coord= given, or the chosen one is the dimension-coordinate.
    layout = spec.get('layout') or LAYOUTS[int(rng.choice(len(LAYOUTS), p=[0.3, 0.2, 0.2, 0.15, 0.15]))]
    n_extra = 0
    if (explicit or dim == chosen) and ncoords < 5 and rng.random() < 0.6:
        n_extra = int(rng.integers(1, 6 - ncoords))
    n_extra = max(0, min(n_extra, 5 - ncoords - len(other_kinds)))
    # the coordinates that are not written, of every kind a 1-d data array can carry (bin-edges next to the
    # bin-centres that are written, other dtypes, variances, ...): scheduled, and at random
    room = 5 - ncoords - n_extra
    if not other_kinds and (explicit or dim == chosen) and room > 0 and rng.random() < 0.35:
        other_kinds = [OTHER_LIST[j] for j in rng.permutation(len(OTHER_LIST))[:int(rng.integers(1, min(2, room) + 1))]]
    others = {}
    name_dim = explicit and dim != chosen and dim not in names and (
        spec.get('other_named_dim') or (spec.get('others') is None and rng.random() < 0.4))
    for kd in other_kinds:
        if kd == 'outer_edges':
            continue
        nm = OTHER_NAMES[kd]
        while nm in names or nm in others or nm == dim:
            nm += '_'
        if name_dim and not kd.startswith('scalar'):
            nm, name_dim = dim, False     # the dimension-coordinate itself is one of the unwritten ones
        others[nm] = make_other(rng, kd, dim, n)
    outer_edges = 'outer_edges' in other_kinds
    if outer_edges and layout in ('dict', 'flags'):
        layout = LAYOUTS[2 + int(rng.integers(0, 3))]
    da = assemble(rng, dim, y, var, unit, coords, layout, n_extra, others, outer_edges)
    if spec.get('da_subclass'):
        da = DataArraySub(da.data, coords=dict(da.coords.items()))
    kw = {}
    if explicit:
        kw['coord'] = chosen
    hdr = make_header(rng, h)
    if hdr is not None:
        kw['header'] = hdr
    band = '1' if n == 1 else '2-3' if n < 4 else '4-300' if n <= 300 else '301-3000' if n < 10000 else '1e4'
    band = 'heavy' if n > 10**5 else band
    sig = ('accept', spec['target'], h, len(da.coords), explicit, band, vcls, layout,
           (na or '-') + (spec.get('suffix') or ''), '+'.join(sorted(other_kinds)), spec.get('reader') or '-')
    side = tuple(f'{a}={spec[a]}' for a in ('state', 'phase', 'call', 'strform', 'unitform', 'dim_name', 'second',
                                            'chosen_variances', 'da_subclass') if spec.get(a))
    if side:
        sig = sig + side
    trivial = (h == 'default' and vcls == 'ordinary' and len(da.coords) == 1 and not hostile
               and layout == 'dict')
    return da, kw, dim, chosen, unit, cunit, sig, trivial


def build_refuse(rng, cls):
    n = int(rng.integers(1, 30))
    y = draw_values(rng, n, 'mixed')
    var = np.abs(draw_values(rng, n, 'mixed'))
    x = draw_values(rng, n, 'bits')
    kw = {}
    parts = [cls]
    if cls == 'combo':
        opts = ['no_variances', 'masks', 'bin_edges', 'ambiguous_coord', 'no_coord']
        parts = [opts[i] for i in rng.permutation(len(opts))[:2]]
        if set(parts) == {'no_coord', 'ambiguous_coord'} or set(parts) == {'no_coord', 'bin_edges'} \
                or set(parts) == {'ambiguous_coord', 'bin_edges'}:
            parts = ['masks', parts[0]]
    dim = 'x'
    amb_leftovers = 0
    if cls.startswith('binned'):
        # binned (event) data: a list of events per row, no value +- uncertainty per row (scipp: variances None),
        # with masks on the bins / on the events inside the bins
        m = int(rng.integers(n, 6 * n + 1))
        ev_x = rng.random(m)
        table = sc.DataArray(sc.array(dims=['event'], values=draw_values(rng, m, 'ordinary'),
                                      variances=np.abs(draw_values(rng, m, 'ordinary')), unit='counts'),
                             coords={dim: sc.array(dims=['event'], values=ev_x, unit='m')})
        da = table.bin({dim: n})
        if rng.random() < 0.6:
            da.coords[dim] = sc.midpoints(da.coords[dim])      # bin centres: nothing but the data is unrepresentable
        if cls == 'binned_bin_masks':
            mk = rng.random(n) < 0.4
            mk[int(rng.integers(0, n))] = True
            da.masks['bad_bin'] = sc.array(dims=[dim], values=mk)
        if cls == 'binned_event_masks':
            da.bins.masks['bad_event'] = da.bins.coords[dim] > sc.scalar(float(rng.random()), unit='m')
        if rng.random() < 0.5:
            kw['coord'] = dim
        return da, kw, parts
    if 'ndim0' in parts:
        da = sc.DataArray(sc.scalar(float(y[0]), variance=float(var[0]), unit='counts'),
                          coords={'x': sc.scalar(float(x[0]), unit='m')})
        if rng.random() < 0.5:
            kw['coord'] = 'x'
        return da, kw, parts
    if 'ndim2' in parts or 'ndim3' in parts:
        shape = [int(rng.integers(1, 4)) for _ in range(2 if 'ndim2' in parts else 3)]
        dims = ['a', 'b', 'c'][:len(shape)]
        tot = int(np.prod(shape))
        da = sc.DataArray(
            sc.array(dims=dims, values=draw_values(rng, tot, 'mixed').reshape(shape),
                     variances=np.abs(draw_values(rng, tot, 'mixed')).reshape(shape)),
            coords={'a': sc.array(dims=['a'], values=draw_values(rng, shape[0], 'bits'))})
        if rng.random() < 0.5:
            da.coords['ab'] = sc.array(dims=dims, values=draw_values(rng, tot, 'bits').reshape(shape))
        if rng.random() < 0.6 or len(da.coords) > 1:
            kw['coord'] = list(da.coords.keys())[int(rng.integers(0, len(da.coords)))]
        return da, kw, parts
    data = sc.array(dims=[dim], values=y, variances=None if 'no_variances' in parts else var, unit='counts')
    coords = {}
    if 'no_coord' not in parts:
        if 'ambiguous_coord' in parts:
            # several coordinates, none named like the dimension -- in any state: all along the rows, or one
            # along the rows plus row-independent ones (scalars); the alignment flags are varied below and
            # the integer-slice route leaves the outer coordinates behind as unaligned scalars
            n1 = int(rng.integers(1, 5))                        # coordinates with a value per row
            n0 = int(rng.integers(0, 4)) if n1 > 1 else int(rng.integers(1, 4))   # row-independent ones
            if rng.random() < 0.4 and n1 > 1:
                n0 = 0
            via_slicing = n0 > 0 and rng.random() < 0.6
            nms = [nm for nm in (BENIGN_NAMES[i] for i in rng.permutation(len(BENIGN_NAMES))) if nm != dim]
            for nm in nms[:n1]:
                coords[nm] = sc.array(dims=[dim], values=draw_values(rng, n, 'bits'), unit='m')
            if not via_slicing:
                for nm in nms[n1:n1 + n0]:
                    coords[nm] = sc.scalar(float(finite_bits(rng, 1)[0]), unit='m')
                if n0 and rng.random() < 0.15:
                    # a row-independent coordinate that carries the name of the dimension: no longer ambiguous
                    # by the documented rule (it selects this name); nothing to write per row -> the monitors
                    # judge the choice and count the save as outside the property
                    coords[dim] = coords.pop(nms[n1])
                n0 = 0
            amb_leftovers = n0
        elif 'bin_edges' in parts or 'bin_edges_deduced' in parts:
            edges = sc.array(dims=[dim], values=np.sort(draw_values(rng, n + 1, 'ordinary')), unit='m')
            if 'bin_edges_deduced' in parts:
                # the edge coordinate is what the rule selects: the only one, or the dimension-coordinate
                coords[dim] = edges
                if rng.random() < 0.5:
                    coords['other'] = sc.array(dims=[dim], values=x, unit='m')
            else:
                nm = BENIGN_NAMES[int(rng.integers(1, len(BENIGN_NAMES)))]
                coords[nm] = edges
                if rng.random() < 0.5:
                    coords[dim] = sc.array(dims=[dim], values=x, unit='m')
                kw['coord'] = nm
        else:
            coords[dim] = sc.array(dims=[dim], values=x, unit='m')
            if rng.random() < 0.4:
                coords['other'] = sc.array(dims=[dim], values=draw_values(rng, n, 'bits'), unit='m')
            if rng.random() < 0.5:
                kw['coord'] = dim
    route = int(rng.integers(0, 4))
    sliceable = 'no_coord' not in parts and all(c.ndim == 1 and c.dims == (dim,) and c.shape[0] == n
                                                for c in coords.values())
    if 'ambiguous_coord' in parts and amb_leftovers:
        route = 0
    if route == 0 and sliceable:
        # the same array as row i of 2-d data; outer coordinates stay behind as unaligned scalars
        lay = ['slice2d', 'slice2d_transposed', 'range_squeeze'][int(rng.integers(0, 3))]
        da = assemble(rng, dim, y, var, 'counts', coords, lay, amb_leftovers).copy(deep=False)
        if 'no_variances' in parts:
            da = sc.DataArray(sc.values(da.data), coords={k: da.coords[k] for k in da.coords})
    else:
        da = sc.DataArray(data, coords=coords)
        if route == 1:
            vary_alignment(rng, da, 0.5)
        elif route == 2:
            vary_alignment(rng, da, 1.0)
    if 'masks' in parts:
        # mask states: per row, row-independent (scalar), or both kinds side by side
        p_scalar = [0.0, 1.0, 0.5][int(rng.choice(3, p=[0.4, 0.35, 0.25]))]
        for j in range(int(rng.integers(1, 3))):
            m = rng.random(n) < 0.4
            m[int(rng.integers(0, n))] = True
            if da.ndim == 1 and rng.random() < p_scalar:
                # a mask without the data dimension (a whole-spectrum flag, e.g. left over from slicing)
                da.masks['m%d' % j] = sc.scalar(bool(rng.random() < 0.7))
            else:
                da.masks['m%d' % j] = sc.array(dims=[dim], values=m)
    if rng.random() < 0.5:
        kw['header'] = ['', 'refused?', '1 2 3\n4 5 6'][int(rng.integers(0, 3))]
    return da, kw, parts


# ---- file objects used as streams -------------------------------------------
STREAM_TARGETS = ['stringio', 'stringio_universal', 'handle_w+', 'handle_w+_crlf', 'handle_a+', 'handle_w_then_r',
                  'ntf', 'tmpfile', 'spooled_mem', 'spooled_rolled']
CALLER_TEXT = ['title', 'comment', 'comment_open_end', 'rowlike', 'blank']
TITLES = ['LaB6 calibration, run 4711, bank 2', 'XYE export', 'sample: Si  T=293K', 'bank 3 / 1 2 3', 'run 17']


def caller_text(rng, cls):
    """Text the caller writes into the stream himself, around the tables."""
    t = TITLES[int(rng.integers(0, len(TITLES)))]
    if cls == 'title':          # free text: must be consumed (or seeked over) before a table is read
        return ''.join(TITLES[int(rng.integers(0, len(TITLES)))] + '\n' for _ in range(int(rng.integers(1, 3))))
    if cls == 'comment':
        return ''.join('#' + [' ', '', '# '][int(rng.integers(0, 3))] + t + '\n' for _ in range(int(rng.integers(1, 3))))
    if cls == 'comment_open_end':   # no line end: the next thing written continues this comment line
        return '# ' + t
    if cls == 'rowlike':        # numbers that are not part of any table the reader is asked for
        return ''.join(ROW_LIKE[int(rng.integers(0, len(ROW_LIKE)))] + '\n' for _ in range(int(rng.integers(1, 3))))
    return '\n' * int(rng.integers(1, 3))


class Stream:
    """One file object (StringIO or a real text handle) that receives several things in a row."""

    def __init__(self, env, kind):
        self.kind = kind
        self.path = None
        self.reader = None
        if kind == 'stringio':
            self.w = io.StringIO()
        elif kind == 'stringio_universal':
            self.w = io.StringIO(newline=None)
        elif kind in ('ntf', 'tmpfile', 'spooled_mem', 'spooled_rolled'):
            self.w, self.path, _ = env.open_filelike(kind)     # closed by env.end_case()
        else:
            self.path = env.fresh_path()
            if kind == 'handle_a+':
                with open(self.path, 'w') as f:
                    f.write('')
            mode = {'handle_w+': 'w+', 'handle_w+_crlf': 'w+', 'handle_a+': 'a+', 'handle_w_then_r': 'w'}[kind]
            self.w = open(self.path, mode, newline='\r\n' if kind == 'handle_w+_crlf' else None)

    def end(self):
        self.w.seek(0, 2)
        return self.w.tell()

    def read_handle(self):
        """The object a reader uses: the stream itself, or a handle opened on the same file."""
        if self.kind != 'handle_w_then_r':
            return self.w
        self.w.flush()
        if self.reader is not None:
            self.reader.close()
        self.reader = open(self.path)
        return self.reader

    def close(self):
        for f in (self.reader, self.w):
            try:
                if f is not None:
                    f.close()
            except Exception:  # noqa: BLE001
                pass
        if self.path and os.path.exists(self.path):
            os.remove(self.path)


def read_back(rng, env, st, items, j, how):
    """Position a reader at table j the way ``how`` says and hand the file object to load_xye."""
    it = items[j]
    r = st.read_handle()
    if how == 'seek':
        r.seek(it['offset'])
    else:
        # get there by reading: start at an earlier item and consume lines up to the table
        i0 = int(rng.integers(0, j + 1))
        r.seek(items[i0]['offset'])
        guard = 0
        while r.tell() < it['offset'] and guard < 100000:
            guard += 1
            if r.readline() == '':
                break
        if how == 'consume_more':
            # the caller reads on: the header line(s), to learn names and units, or the first rows
            for _ in range(int(rng.integers(1, 4))):
                r.readline()
    try:
        env.load(r, **it['lkw'])
    except Exception:  # noqa: BLE001  judged by the round-trip monitor
        pass


def run_stream(shard, k, env, rng, spec):
    ctx, mon = env.ctx, env.mon
    kind = spec['target']
    st = Stream(env, kind)
    items = []
    n_items = int(rng.integers(2, 6))
    n_tables = 0
    try:
        for step in range(n_items):
            mon.label = {'target': kind, 'k': k, 'step': step}
            off = st.end()
            r = rng.random()
            if r < 0.3 and not (step == n_items - 1 and n_tables == 0):
                cls = CALLER_TEXT[int(rng.choice(len(CALLER_TEXT), p=[0.3, 0.3, 0.1, 0.15, 0.15]))]
                st.w.write(caller_text(rng, cls))
                items.append({'what': cls, 'offset': off})
                continue
            if r < 0.42 and items:
                da, kw, parts = build_refuse(rng, REFUSE_CLASSES[int(rng.integers(0, len(REFUSE_CLASSES)))])
                try:
                    env.save(st.w, da, **kw)
                except Exception:  # noqa: BLE001  judged by the refusal monitor
                    pass
                items.append({'what': 'refused', 'offset': off})
                continue
            sub = random_spec(rng, only='accept')
            sub['rows'] = sub.get('rows') or min(draw_rows(rng, env.tier, k), 400)
            da, kw, dim, chosen, unit, cunit, sig, trivial = build_accept(rng, sub, env.tier, k)
            lkw = {'dim': dim, 'unit': unit, 'coord_unit': cunit}
            if rng.random() < 0.5 or chosen != dim:
                lkw['coord'] = chosen
            try:
                env.save(st.w, da, **kw)
            except Exception:  # noqa: BLE001  judged by the save monitor
                items.append({'what': 'failed', 'offset': off})
                continue
            n_tables += 1
            items.append({'what': 'table', 'offset': off, 'lkw': lkw, 'header': sub['header']})
            ctx.hit('header:' + sub['header'])
            if rng.random() < 0.6:
                # read it back right away, from where it starts, then go on appending
                how = ['seek', 'readline', 'consume_more'][int(rng.choice(3, p=[0.5, 0.3, 0.2]))]
                read_back(rng, env, st, items, len(items) - 1, how)
            ctx.case(('stream', kind, sub['header'], 'first' if off == 0 else 'behind_content', sig[3], sig[4], sig[7]))
        mon.label = {'target': kind, 'k': k, 'step': 'final'}
        tables = [j for j, it in enumerate(items) if it['what'] == 'table']
        for j in tables:
            if rng.random() < 0.7:
                how = ['seek', 'readline', 'consume_more'][int(rng.choice(3, p=[0.5, 0.3, 0.2]))]
                read_back(rng, env, st, items, j, how)
        if tables and rng.random() < 0.5:
            r = st.read_handle()
            r.seek(0)
            try:
                env.load(r, **items[tables[0]]['lkw'])
            except Exception:  # noqa: BLE001
                pass
        if st.path and tables and rng.random() < 0.4:
            st.w.flush()
            try:
                env.load(st.path if rng.random() < 0.5 else pathlib.Path(st.path), **items[tables[-1]]['lkw'])
            except Exception:  # noqa: BLE001
                pass
        ctx.hit('target:stream_' + kind)
    finally:
        st.close()
        env.end_case()
    if k < 2:
        ctx.sample({'k': k, 'stream': kind, 'items': [{a: b for a, b in it.items() if a != 'lkw'} for it in items]})


def run_foreign(env, rng, spec):
    """Things the unchanged numpy call does not take as a name or handle (bytes names, file descriptors):
    outside "path and file-object targets"; executed, the monitors count them."""
    da, kw, dim, chosen, unit, cunit, sig, trivial = build_accept(
        rng, {'kind': 'accept', 'header': 'default', 'target': spec['target'], 'rows': None}, env.tier, 0)
    p = env.fresh_path(suffix='')
    fd = None
    if spec['target'] == 'bytes_path':
        tgt = p.encode()
    elif spec['target'] == 'pathlike_bytes':
        tgt = FsPath(p.encode())
    else:
        fd = os.open(p, os.O_RDWR | os.O_CREAT)
        tgt = fd
    try:
        for call in (lambda: env.save(tgt, da, **kw),
                     lambda: env.load(tgt, dim=dim, unit=unit, coord_unit=cunit)):
            try:
                call()
                env.ctx.count('foreign_target_accepted:' + spec['target'])
            except Exception:  # noqa: BLE001
                env.ctx.count('foreign_target_rejected:' + spec['target'])
    finally:
        if fd is not None:
            try:
                os.close(fd)
            except OSError:
                pass
        env.end_case()
        if os.path.exists(p):
            os.remove(p)
    env.ctx.case(('foreign', spec['target']), trivial=True)


# ---- the calling side: conventions, kinds of str / unit objects, process-wide state ----------------------
CALLS = ['positional', 'keyword', 'mixed', 'keyword_reordered', 'explicit_defaults']
STR_FORMS = ['np_str', 'str_subclass', 'str_enum']
UNIT_FORMS = ['unit_object', 'np_str', 'str_subclass']
DIM_NAMES = ['row', 'event', 'x', 'Y', 'E', 'dim_0', 'coord', 'header', 'fname', 'values', 'variances', 'unit',
             'slit', 'range', 'vertex']
BETWEEN_OPS = ['repr', 'str', 'format', 'copy', 'deepcopy', 'pickle', 'eq', 'hash', 'bool']
SECOND_USES = (['same_data_two_targets', 'same_path_twice', 'same_handle_twice', 'path_after_refusal',
                'result_fed_back', 'load_twice', 'load_after_failed_load', 'same_stringio_loaded_twice',
                # the very same objects again after one of them was modified in place; results and arguments
                # that must not share memory with each other or with what a later call produces
                'data_modified_in_place_between_saves', 'arguments_unchanged_by_save',
                'result_overwritten_then_loaded_again', 'result_unchanged_by_later_calls']
               + ['between_' + op for op in BETWEEN_OPS])


def reaches_body(env, which, conv, call):
    """A call in a convention the documented signature allows has to get as far as the function: an exception
    raised while the arguments are bound never shows up at the call-boundary monitors, so it is judged here."""
    mon = env.mon
    seen = mon.started[which]
    try:
        return call()
    except Exception as e:
        if mon.started[which] == seen:
            mon.viol('call_not_accepted', f'{which} raised {type(e).__name__}: {str(e)[:160]} before its body ran; '
                     f'calling convention: {conv or "positional"}',
                     {'k': mon.label.get('k'), 'call': conv or 'positional', 'function': which},
                     exc_type=type(e).__name__, function=which)
        raise


def call_save(env, conv, tgt, da, kw):
    if conv == 'keyword':
        return reaches_body(env, 'save_xye', conv, lambda: env.save(fname=tgt, da=da, **kw))
    if conv == 'mixed':
        return reaches_body(env, 'save_xye', conv, lambda: env.save(tgt, da=da, **kw))
    if conv == 'keyword_reordered':
        return reaches_body(env, 'save_xye', conv,
                            lambda: env.save(**dict(reversed(list(kw.items()))), da=da, fname=tgt))
    if conv == 'explicit_defaults':     # the documented defaults, spelled out
        kw = dict(kw)
        kw.setdefault('coord', None)
        kw.setdefault('header', env.generate_header)
    return reaches_body(env, 'save_xye', conv, lambda: env.save(tgt, da, **kw))


def call_load(env, conv, src, lkw):
    if conv == 'keyword':
        return reaches_body(env, 'load_xye', conv, lambda: env.load(fname=src, **lkw))
    if conv == 'keyword_reordered':
        return reaches_body(env, 'load_xye', conv, lambda: env.load(**dict(reversed(list(lkw.items()))), fname=src))
    if conv == 'explicit_defaults':
        lkw = dict(lkw)
        lkw.setdefault('coord', None)
    return reaches_body(env, 'load_xye', conv, lambda: env.load(src, **lkw))


def str_form(form, v):
    if not isinstance(v, str):
        return v
    if form == 'np_str':
        return np.str_(v)
    if form == 'str_subclass':
        return StrSub(v)
    if form == 'str_enum':
        return enum.Enum('Names', {'MEMBER': v}, type=str).MEMBER
    return v


def unit_form(form, u):
    if u is None:
        return None
    if form == 'unit_object':
        return sc.Unit(u)
    return str_form(form, u)


def under_state(env, spec, which):
    """The process-wide state of this case, if it covers the call ``which`` ('save' / 'load')."""
    st = spec.get('state')
    if st and spec.get('phase') in (which, 'both'):
        return checked_state(env, st)
    return contextlib.nullcontext()


@contextlib.contextmanager
def checked_state(env, st):
    with PROCESS_STATES[st][1](env.tmp):
        snap = process_snapshot()
        try:
            yield
        finally:
            try:
                if process_snapshot() != snap:     # outside the property: seen, counted, not judged
                    env.ctx.count('info:process_state_changed_during_call:' + PROCESS_STATES[st][0])
            except Exception:  # noqa: BLE001
                pass


def between_op(env, op):
    """Display / copy / comparison of the package's own object between two calls; results must not change."""
    g = env.generate_header
    try:
        if op == 'repr':
            repr(g)
        elif op == 'str':
            str(g)
        elif op == 'format':
            format(g)
            f'{g!s:>20}'
        elif op == 'copy':
            copy.copy(g)
        elif op == 'deepcopy':
            copy.deepcopy(g)
        elif op == 'pickle':
            pickle.loads(pickle.dumps(g))
        elif op == 'eq':
            (g == g, g != g, g == 'GenerateHeader', g == '')    # noqa: B015
        elif op == 'hash':
            {g: 1}[g]
        elif op == 'bool':
            bool(g)
    except Exception as e:  # noqa: BLE001  not a computational call: seen and counted
        env.ctx.count(f'between_op_raised:{op}:{type(e).__name__}')


def run_second(shard, k, env, rng, spec):
    """SECOND use: the same data / target / result handed to the package again, a call repeated after one that
    raised; in between, display / copy operations on the package's own objects.  Every save and load in here
    is an ordinary call for the monitors."""
    ctx, mon = env.ctx, env.mon
    sub = spec['second']
    base = {'kind': 'accept', 'header': spec.get('header', 'default'), 'target': spec['target'], 'rows': spec.get('rows'),
            'nonascii': '', 'vcls': 'mixed', 'second': sub}
    if sub in ('data_modified_in_place_between_saves', 'arguments_unchanged_by_save'):
        base['layout'] = 'dict'         # arrays the caller owns and can write to
    da, kw, dim, chosen, unit, cunit, sig, trivial = build_accept(rng, base, env.tier, k)
    lkw = {'dim': dim, 'unit': unit, 'coord_unit': cunit, 'coord': chosen}
    mon.label = {'target': None, 'k': k, 'second': sub}     # the monitors name the kind of target themselves
    paths = []

    def path_target():
        p = env.fresh_path(suffix='')
        paths.append(p)
        return p if spec['target'] == 'path_str' else pathlib.Path(p)

    def quiet(f, *a, **b):
        try:
            return f(*a, **b)
        except Exception:  # noqa: BLE001  judged by the monitors
            return None

    def credited(f, *a, **b):
        mon.label['credit'] = ['second_use:' + sub]
        try:
            return quiet(f, *a, **b)
        finally:
            mon.label.pop('credit', None)

    try:
        if sub == 'same_data_two_targets':
            a, b = path_target(), io.StringIO()
            quiet(env.save, a, da, **kw)
            quiet(env.save, b, da, **kw)
            b.seek(0)
            quiet(env.load, a, **lkw)
            credited(env.load, b, **lkw)
        elif sub == 'same_path_twice':
            # a longer table first, then this one under the same name: the file holds the second alone
            da0, kw0, *_ = build_accept(rng, dict(base, rows=da.shape[0] + int(rng.integers(1, 50))), env.tier, k)
            a = path_target()
            quiet(env.save, a, da0, **kw0)
            quiet(env.load, a, **lkw)             # read in between: what is loaded next is the new content
            quiet(env.save, a, da, **kw)
            credited(env.load, a, **lkw)
        elif sub == 'same_handle_twice':
            p = env.fresh_path(suffix='')
            paths.append(p)
            with open(p, 'w+') as f:
                quiet(env.save, f, da, **kw)
                quiet(env.save, f, da, **kw)      # the same rows once more behind the first table
                f.seek(0)
                credited(env.load, f, **lkw)
        elif sub == 'path_after_refusal':
            bad, bkw, _ = build_refuse(rng, REFUSE_CLASSES[int(rng.integers(0, len(REFUSE_CLASSES)))])
            a = path_target()
            quiet(env.save, a, bad, **bkw)
            quiet(env.save, a, da, **kw)
            credited(env.load, a, **lkw)
        elif sub == 'result_fed_back':
            a, b = path_target(), path_target()
            quiet(env.save, a, da, **kw)
            res = quiet(env.load, a, **lkw)
            if isinstance(res, sc.DataArray):
                quiet(env.save, b, res)             # what load_xye returned is representable data again
                res2 = credited(env.load, b, **lkw)
                if isinstance(res2, sc.DataArray):
                    quiet(env.save, io.StringIO(), res2, coord=chosen, header='')
        elif sub in ('load_twice', 'same_stringio_loaded_twice'):
            a = path_target() if sub == 'load_twice' else io.StringIO()
            quiet(env.save, a, da, **kw)
            for rep in range(2):
                if isinstance(a, io.StringIO):
                    a.seek(0)
                (credited if rep else quiet)(env.load, a, **lkw)
        elif sub == 'load_after_failed_load':
            a = path_target()
            quiet(env.save, a, da, **kw)
            quiet(env.load, os.fspath(a) + '.absent', **lkw)     # FileNotFoundError, caught by the caller
            credited(env.load, a, **lkw)
        elif sub == 'data_modified_in_place_between_saves':
            # memoisation keyed by the identity of the data array / its variables would hand out the old table
            a, b = path_target(), io.StringIO()
            kw2 = dict(kw, coord=chosen)
            quiet(env.save, a, da, **kw2)
            quiet(env.save, b, da, **kw2)
            quiet(env.load, a, **lkw)
            n = da.shape[0]
            for step in range(3):
                if step == 0:        # all values, in place
                    da.values[...] = draw_values(rng, n, 'mixed')
                    da.variances[...] = np.abs(draw_values(rng, n, 'mixed'))
                elif step == 1:      # a slice of the written coordinate
                    m = int(rng.integers(0, n))
                    da.coords[chosen][da.dim, m:].values[...] = draw_values(rng, n - m, 'bits')
                else:                # one element each
                    i = int(rng.integers(0, n))
                    da.values[i] = float(finite_bits(rng, 1)[0])
                    da.coords[chosen].values[i] = float(finite_bits(rng, 1)[0])
                    da.variances[i] = abs(float(finite_bits(rng, 1)[0]))
                b = io.StringIO()
                quiet(env.save, a, da, **kw2)
                quiet(env.save, b, da, **kw2)
                b.seek(0)
                (credited if step == 2 else quiet)(env.load, a, **lkw)
                (credited if step == 2 else quiet)(env.load, b, **lkw)
        elif sub == 'arguments_unchanged_by_save':
            snap = da.copy(deep=True)
            a, b = path_target(), io.StringIO()
            quiet(env.save, a, da, **kw)
            quiet(env.save, b, da, **kw)
            b.seek(0)
            same = sc.identical(da, snap, equal_nan=True) and all(
                np.asarray(u).tobytes() == np.asarray(v).tobytes() for u, v in (
                    (da.values, snap.values), (da.variances, snap.variances),
                    (da.coords[chosen].values, snap.coords[chosen].values)))
            ctx.event('second_use.arguments_compared')
            if not same:
                mon.viol('argument_modified_by_save', 'the data array handed to save_xye is not what it was before the call',
                         {'k': k, 'second': sub, 'coords': [str(c) for c in da.coords.keys()], 'n': da.shape[0]})
            quiet(env.load, a, **lkw)
            credited(env.load, b, **lkw)
        elif sub == 'result_overwritten_then_loaded_again':
            # the caller scribbles over what load_xye returned; loading again gives the file again
            for a in (path_target(), io.StringIO()):
                quiet(env.save, a, da, **kw)
                for rep in range(2):
                    if isinstance(a, io.StringIO):
                        a.seek(0)
                    res = (credited if rep else quiet)(env.load, a, **lkw)
                    if isinstance(res, sc.DataArray):
                        try:
                            res.values[...] = 0.0
                            res.variances[...] = 1.0
                            for c in res.coords.values():
                                c.values[...] = -1.0
                            res.unit = 'one'
                        except Exception:  # noqa: BLE001  a result that cannot be written to: nothing to scribble
                            ctx.count('info:loaded_result_not_writable')
        elif sub == 'result_unchanged_by_later_calls':
            # what was returned earlier does not change when the file / the stream is written and read again
            da0, kw0, *_ = build_accept(rng, dict(base, rows=da.shape[0] + int(rng.integers(1, 9))), env.tier, k)
            for a in (path_target(), io.StringIO()):
                quiet(env.save, a, da, **kw)
                if isinstance(a, io.StringIO):
                    a.seek(0)
                res = quiet(env.load, a, **lkw)
                if not isinstance(res, sc.DataArray):
                    continue
                snap = res.copy(deep=True)
                if isinstance(a, io.StringIO):
                    a.seek(0)
                    a.truncate()
                quiet(env.save, a, da0, **kw0)
                if isinstance(a, io.StringIO):
                    a.seek(0)
                res2 = credited(env.load, a, **lkw)
                if isinstance(res2, sc.DataArray):
                    try:
                        res2.values[...] = 0.0
                    except Exception:  # noqa: BLE001
                        pass
                ctx.event('second_use.result_compared')
                if not sc.identical(res, snap, equal_nan=True):
                    mon.viol('result_changed_by_later_call', 'a data array load_xye returned earlier changed when the same '
                             'target was saved to and loaded again', {'k': k, 'second': sub, 'n': int(snap.shape[0]),
                                                                       'target': type(a).__name__})
        elif sub.startswith('between_'):
            op = sub[len('between_'):]
            a, b = path_target(), io.StringIO()
            kw.pop('header', None)               # the header the package generates, both times
            quiet(env.save, a, da, **kw)
            between_op(env, op)
            quiet(env.save, b, da, **kw)
            between_op(env, op)
            b.seek(0)
            quiet(env.load, a, **lkw)
            between_op(env, op)
            credited(env.load, b, **lkw)
        else:
            raise KeyError(sub)
    finally:
        env.end_case()
        for p in paths:
            if os.path.exists(p):
                os.remove(p)
    ctx.case(sig, trivial=False)


# ---- file-system forms of path targets ----------------------------------------------------------------------
# "path targets": a name stands for the file the operating system finds under it.  Every way in which the file
# system lets a name and a file differ is a class: the name is a symbolic link (to a file that exists, to one that
# does not exist yet, through a second link, with a relative link text), the file has a second name (hard link),
# the way to it leads through a linked directory and back up with '..' (the parent of the directory the link
# LEADS TO), the name is spelled differently on save and on load ('a/../a/f', 'a//f', './a/./f', through a link and
# directly, relative to a working directory that changes between the calls or while a handle is open), a reader
# holds the file open while it is written again, the name holds characters that are special to shells / URLs /
# format strings / home-directory expansion or that merely normalise (NFC / NFKC) to another name that exists too.
# What is expected never comes from the package: the monitors resolve the name themselves when a call begins
# (os.path.realpath, os.stat, a descriptor on the file) and judge that file.
FS_FORMS = ['symdir_dotdot', 'symdir_dotdot_relative', 'dotdot_plain', 'through_linked_dir', 'symlink_to_file',
            'dangling_symlink', 'hardlink', 'reader_holds_open', 'chdir_between', 'handle_relative_name',
            'odd_names_0', 'odd_names_1', 'odd_names_2', 'memory_initial_content']
# (label, name relative to the case directory, twin: another name that must stay another file, or None)
ODD_NAMES = [
    ('tilde_dir', '~/f.xye', None), ('tilde_prefix', '~f.xye', None), ('tilde_user', '~root', None),
    ('dollar', '$HOME.xye', None), ('dollar_braces', '${HOME}/f.xye', None), ('space', 'a b.xye', None),
    ('leading_space', ' f.xye', 'f.xye'), ('trailing_space', 'g.xye ', 'g.xye'), ('trailing_dot', 'h.xye.', 'h.xye'),
    ('hash', '#x.xye', None), ('glob_brackets', 'f[1].xye', 'f1.xye'), ('glob_star', 'f*.xye', 'fa.xye'),
    ('glob_question', 'f?.xye', 'fb.xye'), ('dash', '-f.xye', None), ('semicolon', 'f;x.xye', None),
    ('quotes', 'f\'q".xye', None), ('percent_escape', 'f%41.xye', 'fA.xye'), ('percent_s', '%s.xye', None),
    ('braces', '{0}.xye', None), ('backslash', 'f\\g.xye', None), ('colon', 'a:b.xye', None),
    ('scheme_like', 'file:f2.xye', 'f2.xye'), ('upper_case_gz', 'f.XYE.GZ', None), ('gz_inside', 'f.gz.xye', None),
    ('double_slash', 'sub//f.xye', None), ('dot_components', './sub/./g.xye', None), ('newline_inside', 'f\nx.xye', None),
    ('newline_at_end', 'n.xye\n', 'n.xye'), ('tab', 'f\tx.xye', None), ('hidden', '.hidden', None), ('no_extension', 'noext', None),
    ('case_differs', 'Case.xye', 'case.xye'), ('latin1', 'gr' + chr(0xF6) + chr(0xDF) + 'e.xye', None), ('cjk', chr(0x6CE2) + chr(0x9577) + '.xye', None),
    ('astral', '\U0001d706.xye', None),
    # names that are not in NFC / NFKC form; the normalised name (worked out with unicodedata) is the name of ANOTHER file
    ('nfd_accent', 'e' + chr(0x301) + 'nergie.xye', 'NORM'), ('angstrom_sign', chr(0x212B) + '.xye', 'NORM'),
    ('kelvin_sign', 'T_' + chr(0x212A) + '.xye', 'NORM'), ('ohm_sign', chr(0x2126) + '.xye', 'NORM'),
    ('micro_sign', chr(0xB5) + 's.xye', 'NORM'), ('fullwidth', chr(0xFF58) + '.xye', 'NORM'),
    ('ligature', chr(0xFB01) + 't.xye', 'NORM'), ('jamo', chr(0x1112) + chr(0x1161) + chr(0x11AB) + '.xye', 'NORM'),
    ('greek_question_mark', 'a' + chr(0x37E) + 'b.xye', 'NORM'), ('fullwidth_slash', 'sub' + chr(0xFF0F) + 'z.xye', None),
    ('fullwidth_dot', 'f' + chr(0xFF0E) + 'xye', 'NORM'),
]
ODD_PARTS = 3
MEMORY_FORMS = ['stringio_initial_overwritten', 'stringio_initial_appended', 'stringio_universal_initial_appended',
                'stringio_rewound_after_write', 'handle_rewound_after_write', 'stringio_read_then_written_again']
FS_CREDITS = {
    'symdir_dotdot': ['save', 'load_same_name', 'load_resolved_name', 'load_after_save_by_resolved_name',
                      'pathlib', 'link_text_relative', 'link_text_absolute'],
    'symdir_dotdot_relative': ['save', 'load_same_name', 'load_resolved_name'],
    'dotdot_plain': ['save_spelled_load_plain', 'save_plain_load_spelled'],
    'through_linked_dir': ['save_through_link_load_direct', 'save_direct_load_through_link'],
    'symlink_to_file': ['save_absolute_link', 'save_relative_link', 'save_link_to_link', 'load_link', 'load_file_behind'],
    'dangling_symlink': ['save', 'load_file_behind', 'load_link'],
    'hardlink': ['save', 'load_other_name', 'save_other_name', 'load_first_name'],
    'reader_holds_open': ['save', 'load_through_reader', 'load_path'],
    'chdir_between': ['save_relative', 'load_relative_elsewhere', 'load_absolute', 'load_relative_dotdot'],
    'handle_relative_name': ['save', 'load'],
    'memory_initial_content': MEMORY_FORMS,
}
# sizes that coincide with sizes underneath: the 3 columns of the table (2 / 3 / 4 rows: a square 3 x 3 table, one
# row fewer, one more), the 50000 rows numpy's text reader takes per chunk
COINCIDING_ROWS = (2, 3, 4, 49999, 50000, 50001)


def fs_requirements():
    out = [f'fs:{f}:{c}' for f, cs in FS_CREDITS.items() for c in cs]
    out += [f'fs:odd_name:{lab}:{w}' for lab, _, _ in ODD_NAMES for w in ('save', 'load')]
    out += ['fs:odd_name:twin_kept_apart']
    return out


class Table:
    """One generated table: the data, the keyword arguments of the two calls."""

    def __init__(self, rng, env, k, rows, header='default', coord_mode=None):
        spec = {'kind': 'accept', 'header': header, 'target': 'path_str', 'rows': rows, 'nonascii': '', 'vcls': 'mixed',
                'layout': 'dict'}
        if coord_mode:
            spec['coord_mode'] = coord_mode
        self.da, self.kw, dim, chosen, unit, cunit, self.sig, _ = build_accept(rng, spec, env.tier, k)
        self.lkw = {'dim': dim, 'unit': unit, 'coord_unit': cunit, 'coord': chosen}


def run_fs(shard, k, env, rng, spec):
    ctx, mon = env.ctx, env.mon
    form = spec['form']
    env.nfile += 1
    root = os.path.join(os.path.realpath(env.tmp), f'fs{env.nfile}')
    os.makedirs(root)
    cwd0 = os.getcwd()
    n0 = int(rng.integers(1, 40))
    hdrs = ['default', 'plain', 'lf_rows', 'empty']

    def table(i, rows=None):
        # later tables are shorter than earlier ones: what an earlier call left behind cannot pass for the new one
        return Table(rng, env, k, rows or n0 + 7 * (4 - i) + int(rng.integers(0, 5)), hdrs[int(rng.integers(0, len(hdrs)))])

    def S(name, t, *tags):
        mon.label = {'target': None, 'k': k, 'fs_form': form, 'credit_file': [f'fs:{form}:{x}' for x in tags]}
        try:
            env.save(name, t.da, **t.kw)
        except Exception:  # noqa: BLE001  judged by the save monitor
            pass

    def L(name, t, *tags):
        mon.label = {'target': None, 'k': k, 'fs_form': form, 'credit': [f'fs:{form}:{x}' for x in tags]}
        try:
            env.load(name, **t.lkw)
        except Exception:  # noqa: BLE001  judged by the round-trip monitor
            pass

    J = os.path.join
    closers = []
    try:
        if form in ('symdir_dotdot', 'symdir_dotdot_relative', 'through_linked_dir'):
            # proposal/archive/cycle_3 is a real directory, proposal/current a link to it
            cycle = J(root, 'proposal', 'archive', 'cycle_3')
            os.makedirs(cycle)
            current = J(root, 'proposal', 'current')
        if form == 'symdir_dotdot':
            for j, kind in enumerate((str, pathlib.Path)):
                if j:
                    os.remove(current)
                os.symlink(cycle if j else J('archive', 'cycle_3'), current, target_is_directory=True)
                link_text = 'link_text_absolute' if j else 'link_text_relative'
                t0, t1, t2 = table(0), table(1), table(2)
                canon = J(root, 'proposal', 'archive', f'reduced{j}.xye')     # what the operating system makes of it
                S(J(root, 'proposal', f'reduced{j}.xye'), t0)                  # another file, where the text of the name "collapses" to
                name = kind(J(current, '..', f'reduced{j}.xye'))
                S(name, t1, 'save', *(['pathlib'] if j else []))
                L(name, t1, 'load_same_name', link_text)
                L(canon, t1, 'load_resolved_name')
                S(kind(canon), t2)
                L(name, t2, 'load_after_save_by_resolved_name')
        elif form == 'symdir_dotdot_relative':
            os.symlink(J('archive', 'cycle_3'), current, target_is_directory=True)
            t0, t1 = table(0), table(1)
            S(J(root, 'proposal', 'rel.xye'), t0)
            os.chdir(J(root, 'proposal'))
            name = J('current', '..', 'rel.xye')
            S(name, t1, 'save')
            L(name, t1, 'load_same_name')
            t1 = table(2)
            S(pathlib.Path(name), t1, 'save')
            L(pathlib.Path(name), t1, 'load_same_name')
            os.chdir(cwd0)
            L(J(root, 'proposal', 'archive', 'rel.xye'), t1, 'load_resolved_name')
        elif form == 'through_linked_dir':
            os.symlink(cycle, current, target_is_directory=True)
            t1, t2 = table(1), table(2)
            S(J(current, 'f.xye'), t1)
            L(J(cycle, 'f.xye'), t1, 'save_through_link_load_direct')
            S(pathlib.Path(cycle, 'g.xye'), t2)
            L(pathlib.Path(current, 'g.xye'), t2, 'save_direct_load_through_link')
        elif form == 'dotdot_plain':
            os.makedirs(J(root, 'a'))
            os.makedirs(J(root, 'b', 'c'))
            spelled = [J(root, 'a', '..', 'a', 'f.xye'), J(root, 'b', 'c', '..', '..', 'a', 'f.xye'), J(root, 'a//f.xye'),
                       J(root, '.', 'a', '.', 'f.xye'), J(root, 'a', '') + 'f.xye']
            plain_name = J(root, 'a', 'f.xye')
            for j, sp in enumerate(spelled):
                t1, t2 = table(1), table(2)
                S(sp if j % 2 else pathlib.Path(sp), t1)
                L(plain_name, t1, 'save_spelled_load_plain')
                S(plain_name, t2)
                L(sp, t2, 'save_plain_load_spelled')
        elif form == 'symlink_to_file':
            os.makedirs(J(root, 'runs'))
            for j, how in enumerate(('absolute_link', 'relative_link', 'link_to_link')):
                real = J(root, 'runs', f'run_{j}.xye')
                link = J(root, f'latest{j}.xye')
                t0, t1 = table(0), table(1)
                S(real, t0)
                if how == 'absolute_link':
                    os.symlink(real, link)
                elif how == 'relative_link':
                    os.symlink(J('runs', f'run_{j}.xye'), link)      # taken relative to the directory of the link
                else:
                    os.symlink(real, J(root, 'runs', 'hop.xye'))
                    os.symlink(J('runs', 'hop.xye'), link)
                L(link, t0, 'load_link')
                S(link if j != 1 else pathlib.Path(link), t1, 'save_' + how)
                L(link, t1, 'load_link')
                L(real, t1, 'load_file_behind')
        elif form == 'dangling_symlink':
            os.makedirs(J(root, 'runs'))
            for j, kind in enumerate((str, pathlib.Path)):
                future = J(root, 'runs', f'run_{j}.xye')
                link = J(root, f'next{j}.xye')
                os.symlink(future if j else J('runs', f'run_{j}.xye'), link)
                t1 = table(1)
                S(kind(link), t1, 'save')
                L(future, t1, 'load_file_behind')
                L(kind(link), t1, 'load_link')
        elif form == 'hardlink':
            os.makedirs(J(root, 'snapshot'))
            a, b = J(root, 'a.xye'), J(root, 'snapshot', 'b.xye')
            t0, t1, t2 = table(0), table(1), table(2)
            S(a, t0)
            os.link(a, b)
            S(a, t1, 'save')
            L(b, t1, 'load_other_name')
            L(a, t1)
            S(pathlib.Path(b), t2, 'save_other_name')
            L(a, t2, 'load_first_name')
        elif form == 'reader_holds_open':
            for j in range(2):
                c = J(root, f'c{j}.xye')
                t0, t1 = table(0), table(1)
                S(c, t0)
                reader = open(c) if j == 0 else open(c, newline='')     # nothing read yet
                closers.append(reader.close)
                S(c if j == 0 else pathlib.Path(c), t1, 'save')
                L(reader, t1, 'load_through_reader')
                L(c, t1, 'load_path')
        elif form == 'chdir_between':
            os.makedirs(J(root, 'out'))
            os.makedirs(J(root, 'elsewhere'))
            t1, t2 = table(1), table(2)
            os.chdir(root)
            S(J('out', 'f.xye'), t1, 'save_relative')
            os.chdir(J(root, 'out'))
            L('f.xye', t1, 'load_relative_elsewhere')
            os.chdir(J(root, 'elsewhere'))
            L(J(root, 'out', 'f.xye'), t1, 'load_absolute')
            S(pathlib.Path(root, 'out', 'g.xye'), t2)
            L(J('..', 'out', 'g.xye'), t2, 'load_relative_dotdot')
            # a file of the same relative name in the new working directory is another file
            S(J('..', 'elsewhere', 'f.xye'), table(3))
            os.chdir(J(root, 'out'))
            L(pathlib.Path('f.xye'), t1, 'load_relative_elsewhere')
        elif form == 'handle_relative_name':
            # a handle opened under a relative name stays on its file when the working directory changes
            os.makedirs(J(root, 'out'))
            t0, t1 = table(0), table(1)
            S(J(root, 'h.xye'), t0)            # what the relative name would mean in the other directory
            os.chdir(J(root, 'out'))
            f = open('h.xye', 'w')
            closers.append(f.close)
            rp = J(root, 'out', 'h.xye')

            def read_flushed(f=f, rp=rp):
                if not f.closed:
                    f.flush()
                return path_reader(rp)()
            mon.register(f, ('path', rp), read_flushed, encoding=f.encoding)
            os.chdir(root)
            S(f, t1, 'save')
            f.close()
            os.chdir(J(root, 'out'))
            r = open('h.xye')
            closers.append(r.close)
            mon.register(r, ('path', rp), path_reader(rp), encoding=r.encoding)
            os.chdir(root)
            L(r, t1, 'load')
        elif form.startswith('odd_names_'):
            part = int(form.rsplit('_', 1)[1])
            for d in ('~', 'sub', '${HOME}'):
                os.makedirs(J(root, d))
            os.chdir(root)
            home = os.environ.get('HOME')
            os.environ['HOME'] = root        # whoever expands '~' / '$HOME' stays inside the case directory

            def put_home_back():
                if home is None:
                    os.environ.pop('HOME', None)
                else:
                    os.environ['HOME'] = home
            closers.append(put_home_back)
            for lab, name, twin in ODD_NAMES[part::ODD_PARTS]:
                form = 'odd_name'
                t1 = table(1, rows=int(rng.integers(1, 6)))
                tw = None
                if twin == 'NORM':
                    import unicodedata
                    twin = unicodedata.normalize('NFC', name)
                    twin = unicodedata.normalize('NFKC', name) if twin == name else twin
                    if twin == name:
                        ctx.oracle_error('C15 file names: name is already normalised')
                        continue
                if twin is not None:
                    tw = table(0, rows=int(rng.integers(7, 12)))
                    S(twin, tw)
                S(name, t1, lab + ':save')
                L(name, t1, lab + ':load')
                L(J(root, name), t1)
                nm = pathlib.Path(name)
                if os.fspath(nm) == name:       # (pathlib drops './' and doubled slashes itself: the caller's doing)
                    t1 = table(1, rows=int(rng.integers(1, 6)))
                    S(nm, t1)
                    L(nm, t1)
                if tw is not None:
                    if os.path.samefile(twin, name):     # a file system that folds the two names into one
                        ctx.count('out_of_domain:file_system_does_not_keep_names_apart')
                    else:
                        L(twin, tw, 'twin_kept_apart')
        elif form == 'memory_initial_content':
            for mf in MEMORY_FORMS:
                t0, t1 = table(1), table(0)          # the second one is the longer one here
                kw0 = dict(t0.kw, header='')
                if mf.startswith('stringio'):
                    init = '# ' + TITLES[int(rng.integers(0, len(TITLES)))] + '\n'
                    f = io.StringIO(init, newline=None) if 'universal' in mf else io.StringIO(init)
                else:
                    f = open(J(root, 'rewound.xye'), 'w+')
                    closers.append(f.close)
                mon.label = {'target': None, 'k': k, 'fs_form': mf}
                try:
                    if mf.endswith('initial_appended'):
                        f.seek(0, 2)
                        env.save(f, t1.da, **t1.kw)
                    elif mf.endswith('initial_overwritten'):
                        env.save(f, t1.da, **t1.kw)      # position 0: the table is longer than the title
                    elif mf.endswith('rewound_after_write'):
                        env.save(f, t0.da, **kw0)
                        f.seek(0)
                        env.save(f, t1.da, **t1.kw)      # longer: nothing of the first table is left
                    else:
                        f.seek(0, 2)
                        env.save(f, t0.da, **kw0)
                        f.seek(0)
                        mon.label['credit'] = []
                        env.load(f, **t0.lkw)
                        f.seek(0, 2)
                        off = f.tell()
                        env.save(f, t1.da, **t1.kw)      # at the end, behind what was read
                        f.seek(off)
                    if not mf.endswith('read_then_written_again'):
                        f.seek(0)
                    mon.label['credit'] = ['fs:memory_initial_content:' + mf]
                    env.load(f, **t1.lkw)
                except Exception:  # noqa: BLE001  judged by the monitors
                    pass
        else:
            raise KeyError(form)
    finally:
        os.chdir(cwd0)
        for c in closers:
            try:
                c()
            except Exception:  # noqa: BLE001
                pass
        env.end_case()
        shutil.rmtree(root, ignore_errors=True)
    ctx.case(('fs', spec['form']), trivial=False)


# ---- strings that are not in NFC / NFKC form ----------------------------------------------------------------
# Coordinate names, dimension names and unit strings are recovered code point by code point; a name that merely
# normalises to the name of another coordinate is not that coordinate.
UNICODE_NAMES = [('nfd_accent', 'e' + chr(0x301) + 'nergie'), ('angstrom_sign', 'd [' + chr(0x212B) + ']'),
                 ('kelvin_sign', 'T_' + chr(0x212A)), ('ohm_sign', 'R_' + chr(0x2126)), ('micro_sign', 'tof_' + chr(0xB5) + 's'),
                 ('fullwidth', chr(0xFF58)), ('ligature', chr(0xFB01) + 't'), ('jamo', chr(0x1112) + chr(0x1161) + chr(0x11AB)),
                 ('greek_question_mark', 'a' + chr(0x37E) + 'b'), ('nfd_tilde', 'n' + chr(0x303)),
                 ('circled_digit', 'bank' + chr(0x2460)), ('superscript', 'Q' + chr(0xB2))]
UNICODE_UNITS = [chr(0x212B), '1/' + chr(0x212B), chr(0x3BC) + 's', chr(0x2103), chr(0xB5) + 's', chr(0xC5)]     # spellings scipp's parser takes
UNICODE_MODES = ['explicit', 'explicit_twin', 'deduced', 'deduced_twin']


def run_unicode(shard, k, env, rng, spec):
    import unicodedata
    ctx, mon = env.ctx, env.mon
    paths = []
    try:
        for j, (lab, name) in enumerate(UNICODE_NAMES):
            twin = unicodedata.normalize('NFC', name)
            if twin == name:
                twin = unicodedata.normalize('NFKC', name)
            if twin == name:
                ctx.oracle_error('C15 unicode class: name is already normalised')
                continue
            for mi, mode in enumerate(UNICODE_MODES):
                n = int(rng.integers(1, 9))
                written, other = (twin, name) if mode.endswith('twin') else (name, twin)
                dim = written if mode.startswith('deduced') else ['row', other][int(rng.integers(0, 2))]
                da = sc.DataArray(
                    sc.array(dims=[dim], values=draw_values(rng, n, 'mixed'), variances=np.abs(draw_values(rng, n, 'mixed')),
                             unit='counts'),
                    coords={nm: sc.array(dims=[dim], values=draw_values(rng, n, 'bits'), unit='m')
                            for nm in ([name, twin] if rng.random() < 0.5 else [twin, name])})
                kw = {'coord': written} if mode.startswith('explicit') else {}
                if (j + mi) % 3 == 0:
                    kw['header'] = ''
                u = UNICODE_UNITS[(j + mi) % len(UNICODE_UNITS)]
                try:
                    sc.Unit(u)
                except Exception:  # noqa: BLE001  a spelling this scipp does not take: not used
                    u = 'm'
                lkw = {'dim': dim, 'unit': 'counts', 'coord_unit': u, 'coord': written}
                if (j + mi) % 2:
                    lkw['dim'], lkw['coord'] = other, written       # both forms side by side in the result
                if mi % 2:
                    p = env.fresh_path(suffix='')
                    paths.append(p)
                    tgt = p
                else:
                    tgt = io.StringIO()
                mon.label = {'target': None, 'k': k, 'credit_file': [f'unicode_name:{lab}:{mode}:file'],
                             'credit': [f'unicode_name:{lab}:{mode}:loaded']}
                try:
                    env.save(tgt, da, **kw)
                    if isinstance(tgt, io.StringIO):
                        tgt.seek(0)
                    env.load(tgt, **lkw)
                except Exception:  # noqa: BLE001  judged by the monitors
                    pass
    finally:
        env.end_case()
        for p in paths:
            if os.path.exists(p):
                os.remove(p)
    ctx.case(('unicode_names',), trivial=False)


# ---- first call in a fresh interpreter ------------------------------------------------------------------------
FRESH_SAVE = r'''
import sys, json
from scippneutron.io.xye import save_xye        # the module of the entry point and nothing else of the package
import io, numpy as np, scipp as sc
job = json.load(open(sys.argv[1]))
f = lambda hs: np.array([float.fromhex(h) for h in hs])
da = sc.DataArray(sc.array(dims=[job['dim']], values=f(job['y']), variances=f(job['var']), unit=job['unit']),
                  coords={job['coord']: sc.array(dims=[job['dim']], values=f(job['x']), unit=job['coord_unit'])})
kw = {} if job['header'] is None else {'header': job['header']}
if job['path'] is None:
    s = io.StringIO()
    save_xye(s, da, **kw)
    json.dump({'text': s.getvalue(), 'tree': sys.modules['scippneutron'].__file__}, sys.stdout)
else:
    save_xye(job['path'], da, **kw)
    json.dump({'text': None, 'tree': sys.modules['scippneutron'].__file__}, sys.stdout)
'''
FRESH_LOAD = r'''
import sys, json
from scippneutron.io.xye import load_xye        # the module of the entry point and nothing else of the package
job = json.load(open(sys.argv[1]))
r = load_xye(job['path'], dim=job['dim'], unit=job['unit'], coord_unit=job['coord_unit'], coord=job['coord'])
c = r.coords[job['coord']]
json.dump({'tree': sys.modules['scippneutron'].__file__, 'dims': list(r.dims), 'coords': [str(n) for n in r.coords.keys()], 'unit': str(r.unit), 'coord_unit': str(c.unit),
           'x': [float(v).hex() for v in c.values], 'y': [float(v).hex() for v in r.values],
           'var': None if r.variances is None else [float(v).hex() for v in r.variances]}, sys.stdout)
'''


def run_fresh(shard, k, env, rng, spec):
    """The first call an interpreter ever makes into the module gives what every other call gives: a subprocess
    imports the module of the entry point only and calls it once.  What it wrote is decoded by the independent
    parser and compared with the data; what it loaded (a file a monitored save_xye of this worker wrote) is
    compared with the data."""
    import json
    import subprocess
    import sys
    ctx, mon = env.ctx, env.mon
    hx = lambda a: [float(v).hex() for v in np.asarray(a, dtype=np.float64)]    # noqa: E731
    tmpfiles = []

    def child(script, job):
        jp = env.fresh_path(suffix='.json')
        tmpfiles.append(jp)
        with open(jp, 'w') as f:
            json.dump(job, f)
        p = subprocess.run([sys.executable, '-c', script, jp], capture_output=True, text=True, timeout=300,
                           cwd=env.tmp)
        return p

    try:
        for j, target in enumerate(('stringio', 'path')):
            n = [1, int(rng.integers(2, 60))][j]
            x, y, var = draw_values(rng, n, 'mixed'), draw_values(rng, n, 'mixed'), np.abs(draw_values(rng, n, 'mixed'))
            dim, cname = ['tof', 'row'][j], ['tof', 'dspacing'][j]
            header = [None, '1 2 3\n4 5 6'][j]
            path = None
            if target == 'path':
                path = env.fresh_path(suffix='')
                tmpfiles.append(path)
            job = {'dim': dim, 'coord': cname, 'unit': 'counts', 'coord_unit': ['us', 'angstrom'][j], 'header': header,
                   'x': hx(x), 'y': hx(y), 'var': hx(var), 'path': path}
            case = {'k': k, 'entry_point': 'save_xye', 'target': target, 'n': n, 'x': hx(x)[:8], 'y': hx(y)[:8], 'var': hx(var)[:8]}
            p = child(FRESH_SAVE, job)
            ctx.event('fresh_interpreter.call')
            if p.returncode != 0:
                mon.viol('fresh_interpreter_call_raised', 'save_xye as the first call of a fresh interpreter that imported '
                         'scippneutron.io.xye only: ' + (p.stderr or '').strip()[-300:], case, function='save_xye')
                continue
            try:
                reply = json.loads(p.stdout)
                if os.path.realpath(reply['tree']) != os.path.realpath(sys.modules['scippneutron'].__file__):
                    ctx.inconclusive_because('the fresh interpreter imported another source tree than the worker')
                    continue
                text = reply['text'] if path is None else path_reader(path)()
                rows, bad, _, _ = parse_table(text or '', 'lf' if path is None else 'universal')
                exp_e = np.sqrt(var.astype(np.longdouble)).astype(np.float64)
                ok = text is not None and len(rows) == n and not bad and mon._rows_match(rows, x, y, exp_e)[0] is None
            except Exception:  # noqa: BLE001
                ctx.oracle_error('C15 fresh interpreter (decoding what the child wrote)')
                continue
            if not ok:
                mon.viol('fresh_interpreter_file_differs', 'the table save_xye wrote as the first call of a fresh interpreter '
                         f'is not the data: {len(rows)} table lines ({len(bad)} malformed) for {n} rows, or numbers differ',
                         dict(case, file_head=(text or '')[:300]), function='save_xye')
            else:
                ctx.hit('fresh_interpreter:save_xye:' + target)
        # load: a file a monitored save of this worker wrote
        t = Table(rng, env, k, int(rng.integers(1, 60)), 'default', 'explicit')
        path = env.fresh_path(suffix='')
        tmpfiles.append(path)
        mon.label = {'target': None, 'k': k}
        before = ctx.n_violations
        env.save(path, t.da, **t.kw)
        env.load(path, **t.lkw)
        if ctx.n_violations == before:
            lk = t.lkw
            job = {'path': path, 'dim': lk['dim'], 'unit': lk['unit'], 'coord_unit': lk['coord_unit'], 'coord': lk['coord']}
            case = {'k': k, 'entry_point': 'load_xye', 'n': t.da.shape[0], 'load_args': {a: str(b) for a, b in lk.items()}}
            p = child(FRESH_LOAD, job)
            ctx.event('fresh_interpreter.call')
            if p.returncode != 0:
                mon.viol('fresh_interpreter_call_raised', 'load_xye as the first call of a fresh interpreter that imported '
                         'scippneutron.io.xye only: ' + (p.stderr or '').strip()[-300:], case, function='load_xye')
            else:
                try:
                    got = json.loads(p.stdout)
                    if os.path.realpath(got.pop('tree')) != os.path.realpath(sys.modules['scippneutron'].__file__):
                        raise RuntimeError('the fresh interpreter imported another source tree than the worker')
                    f = lambda hs: np.array([float.fromhex(h) for h in hs], dtype=np.float64)    # noqa: E731
                    x = np.asarray(t.da.coords[lk['coord']].values, dtype=np.float64)
                    y = np.asarray(t.da.values, dtype=np.float64)
                    var = np.asarray(t.da.variances, dtype=np.float64)
                    ok = (got['dims'] == [lk['dim']] and got['coords'] == [lk['coord']] and got['var'] is not None
                          and got['unit'] == str(sc.Unit(lk['unit']) if lk['unit'] is not None else None)
                          and got['coord_unit'] == str(sc.Unit(lk['coord_unit']) if lk['coord_unit'] is not None else None)
                          and len(got['x']) == len(x) and f(got['x']).tobytes() == x.tobytes()
                          and f(got['y']).tobytes() == y.tobytes() and ulp_dist(f(got['var']), var)[0] <= VAR_ULP)
                except Exception:  # noqa: BLE001
                    ctx.oracle_error('C15 fresh interpreter (comparing what the child loaded)')
                    ok = None
                if ok is False:
                    mon.viol('fresh_interpreter_result_differs', 'what load_xye returned as the first call of a fresh '
                             'interpreter is not what was saved', dict(case, got={a: (b[:4] if isinstance(b, list) else b)
                                                                                  for a, b in got.items()}),
                             function='load_xye')
                elif ok:
                    ctx.hit('fresh_interpreter:load_xye')
    finally:
        env.end_case()
        for p in tmpfiles:
            if os.path.exists(p):
                os.remove(p)
    ctx.case(('fresh_interpreter',), trivial=False)


def run_one(shard, k, env):
    ctx, mon = env.ctx, env.mon
    seed, index = int(shard['seed']), int(shard['index'])
    rng = np.random.Generator(np.random.PCG64([seed, index, k]))
    sched = shard.get('scheduled') or []
    spec = sched[k] if k < len(sched) else random_spec(rng)
    mon.label = {'target': spec.get('target'), 'k': k}
    before = ctx.n_violations
    if spec['kind'] == 'stream':
        run_stream(shard, k, env, rng, spec)
        return
    if spec['kind'] == 'foreign':
        run_foreign(env, rng, spec)
        return
    if spec['kind'] == 'second':
        run_second(shard, k, env, rng, spec)
        return
    if spec['kind'] in ('fs', 'unicode', 'fresh'):
        {'fs': run_fs, 'unicode': run_unicode, 'fresh': run_fresh}[spec['kind']](shard, k, env, rng, spec)
        return
    if spec['kind'] == 'refuse':
        da, kw, parts = build_refuse(rng, spec['cls'])
        tgt, path, closer = env.open_target(spec['target'])
        try:
            env.save(tgt, da, **kw)
        except Exception:  # noqa: BLE001  judged by the refusal monitor (PY_UNWIND)
            pass
        finally:
            if closer:
                closer()
            env.end_case()
            if path and os.path.exists(path):
                os.remove(path)
        ctx.case(('refuse', spec['cls'], spec['target'], 'coord' in kw, 'header' in kw))
        return
    da, kw, dim, chosen, unit, cunit, sig, trivial = build_accept(rng, spec, env.tier, k)
    ctx.hit('header:' + spec['header'])
    ctx.hit('target:' + spec['target'])
    suffix = spec.get('suffix')
    if spec.get('reader') and suffix is None:
        suffix = ''        # a reader that does not decompress cannot read what a compressing name wrote
    if spec.get('state') == 'cwd_relative_name' and suffix is None:
        suffix = ''
    tgt, path, closer = env.open_target(spec['target'], suffix, bool(spec.get('existing')))
    # the calling side: convention, kind of str / unit objects, process-wide state; classes are credited by the
    # round-trip monitor when the load made under them was decided
    conv, sform, uform, state = spec.get('call'), spec.get('strform'), spec.get('unitform'), spec.get('state')
    credit = []
    if conv:
        mon.label['call'] = conv
        credit.append('call:' + conv)
    if sform:
        for a in ('coord', 'header'):
            if a in kw and not (a == 'header' and sform == 'str_enum'):
                kw[a] = str_form(sform, kw[a])
        credit.append(f"names_as:{sform}:coord_{'given' if 'coord' in kw else 'deduced'}")
    if uform:
        credit.append('units_as:' + uform)
    if spec.get('dim_name') and dim == spec['dim_name']:
        credit.append('dim_named:' + dim)
    if spec.get('da_subclass'):
        credit.append('data_array_subclass')
    if state:
        mon.label['process_state'], mon.label['state_phase'] = state, spec['phase']
    relative = state == 'cwd_relative_name' and isinstance(tgt, str | os.PathLike)

    def rel(x, which):
        """The name relative to the working directory the state sets (the scratch directory of the worker)."""
        if not relative or spec['phase'] not in (which, 'both') or not isinstance(x, str | os.PathLike):
            return x
        r = os.path.relpath(os.path.realpath(os.fspath(x)), os.path.realpath(env.tmp))
        return type(x)(r)

    saved = False
    try:
        try:
            with under_state(env, spec, 'save'):
                call_save(env, conv, rel(tgt, 'save'), da, kw)
            saved = True
        except Exception:  # noqa: BLE001  judged by the save monitor
            pass
        finally:
            if closer:
                closer()
        if saved:
            lkw = {'dim': dim, 'unit': unit, 'coord_unit': cunit}
            if rng.random() < 0.5 or chosen != dim:
                lkw['coord'] = chosen
            if sform:
                lkw = {a: str_form(sform, v) if a in ('dim', 'coord') else v for a, v in lkw.items()}
            if uform:
                lkw = {a: unit_form(uform, v) if a in ('unit', 'coord_unit') else v for a, v in lkw.items()}
            mon.label['credit'] = credit
            fh = None
            if spec.get('reader'):
                mon.label['reader'] = spec['reader']
                src, fh_close = env.make_reader(spec['reader'], spec['target'], tgt, path)
                if fh_close:
                    env.cleanup.append(fh_close)
            elif path is None:
                tgt.seek(0)
                src = tgt
            elif spec['target'].startswith('handle') and rng.random() < 0.5:
                fh = open(path)   # default text mode, as a user would
                src = fh
            else:
                src = path if rng.random() < 0.5 else pathlib.Path(path)
            try:
                with under_state(env, spec, 'load'):
                    call_load(env, conv, rel(src, 'load'), lkw)
            except Exception:  # noqa: BLE001  judged by the round-trip monitor
                pass
            finally:
                if fh:
                    fh.close()
                mon.label.pop('reader', None)
            if spec['target'].startswith('path') and not path.endswith(('.gz', '.bz2', '.xz')) \
                    and (spec.get('nonascii') or rng.random() < 0.25):
                # the file save_xye put under the path, read through a text handle opened the default way
                with open(path) as fh2:
                    try:
                        with under_state(env, spec, 'load'):
                            call_load(env, conv, fh2, lkw)
                    except Exception:  # noqa: BLE001  judged by the round-trip monitor
                        pass
    finally:
        env.end_case()
        if path and os.path.exists(path):
            os.remove(path)
    ctx.case(sig, trivial=trivial)
    if k < 2 or ctx.n_violations > before:
        ctx.sample({'k': k, 'sig': sig, 'save_kwargs': {a: _hdr_repr(b) for a, b in kw.items()},
                    'coords': [str(c) for c in da.coords.keys()], 'dim': dim, 'n': da.shape[0]})


def arm(ctx):
    from scippneutron.io import xye as X

    mon = Monitors(ctx)
    tr = Tracer()
    tr.watch(X.save_xye, 'save_xye', on_start=mon.save_start, on_return=mon.save_return)
    tr.watch(X.load_xye, 'load_xye', on_start=mon.load_start, on_return=mon.load_return)
    tr.watch(X._deduce_coord, '_deduce_coord', on_return=mon.deduce_return)
    tr.watch(X._generate_xye_header, '_generate_xye_header', on_return=mon.header_return)
    return X, mon, tr


# ------------------------------------------------------------------ driver ---
NA_TCLASSES = ['path', 'path_compressed', 'handle', 'stringio']
# code points outside ASCII in the string forms of the unit pool (what the generated header must carry)
NA_UNIT_SYMBOLS = sorted({'U+%04X' % ord(ch) for u in NON_ASCII_UNITS for ch in str(sc.Unit(u)) if ord(ch) > 127})
# quick: 13 shards + the heavy case on a shard of its own (one wave together with the runner's two environment variants)
N_SHARDS = {'quick': 13, 'thorough': 15}
CASES = {'quick': 48, 'thorough': 1400}
# sizes beyond every threshold of the text reader / writer underneath (numpy reads in chunks of 50000 rows)
HEAVY_ROWS = {'quick': 2**17 + 7, 'thorough': 2**20 + 7}


def plan(tier, seed):
    sched = schedule()
    shards = []
    n = N_SHARDS[tier]
    for i in range(n):
        mine = sched[i::n]
        shards.append({'cases': max(CASES[tier], len(mine) + 6), 'scheduled': mine})
    shards.append({'cases': 1, 'scheduled': [{'kind': 'accept', 'header': 'default', 'target': 'path_str',
                                              'rows': HEAVY_ROWS[tier], 'vcls': 'bits', 'nonascii': '', 'suffix': '',
                                              'layout': 'dict'}]})
    return shards


def requirements(tier):
    q = tier == 'quick'
    forced = (['header:' + h for h in HEADER_CLASSES] + ['target:' + t for t in TARGETS]
              + ['refuse:' + c for c in PINNED]
              + ['value:-0.0', 'value:denormal', 'value:max', 'value:min_normal', 'value:1+-ulp',
                 'rows:1', 'rows:>=1e4']
              + ['target:stream_' + t for t in STREAM_TARGETS]
              + ['coords:some_unaligned', 'coords:all_unaligned', 'coords:single_unaligned',
                 'coords:scalar_among_several', 'coords:dimension_coordinate_unaligned',
                 'coords:dimension_coordinate_present', 'coords:dimension_coordinate_absent',
                 'stream:table_written_behind_other_content', 'refuse:into_stream_with_content',
                 'refuse:masks_all_row_independent',
                 'read_from:stream_start', 'read_from:table_start', 'read_from:inside_header',
                 'read_from:inside_table', 'read:several_tables_to_end_of_stream']
              + [f'nonascii_units:{m}:{tc}' for m in ('generated', 'explicit', 'empty') for tc in NA_TCLASSES]
              + ['nonascii_unit_on:' + p for p in NA_POSITIONS]
              + [f'nonascii_coord_name:{m}:{tc}' for m in ('generated',) for tc in NA_TCLASSES]
              + ['nonascii_coord_name:explicit:path', 'nonascii_coord_name:empty:path']
              + ['nonascii_generated_header:' + tc for tc in NA_TCLASSES]
              + ['nonascii_generated_header:path_written_read_through_path',
                 'nonascii_generated_header:path_written_read_through_handle',
                 'nonascii_generated_header:rows_1', 'nonascii_generated_header:path:beyond_latin1',
                 'nonascii_generated_header:path:beyond_bmp',
                 'path:file_existed_before', 'path:file_existed_before_and_header_not_ascii']
              + ['nonascii_generated_header:path:' + cp for cp in NA_UNIT_SYMBOLS]
              # every kind of file-like target, written and read back; refusals on them
              + ['file_judged:' + w for w in FILELIKE_WRITERS]
              + sorted({f'roundtrip:{w}->{r}' for w, _, r in FILELIKE_PAIRS})
              + ['refuse_on:' + t for t in FILELIKE_REFUSE_TARGETS]
              # every kind of coordinate that is not written, next to a written one named / deduced
              + [f'other_coord:{OTHER_KINDS[kd]}:{mode}' for kd in OTHER_LIST for mode in ('explicit', 'deduced')]
              + ['other_coord:edges_is_dimension_coordinate:explicit', 'other_coord:rows_1',
                 'other_coord:several_kinds_side_by_side']
              # process-wide settings x the call(s) they cover
              + [f'process_state:{st}:{ph}' for st in PROCESS_STATES for ph in STATE_PHASES]
              + ['file_judged_under_process_state:' + fam for fam in sorted({f for f, _ in PROCESS_STATES.values()})]
              + ['call:' + cv for cv in CALLS]
              + [f'names_as:{sf}:coord_{m}' for sf in STR_FORMS for m in ('given', 'deduced')]
              + ['file_judged:coord_given_as:' + t for t in ('str_/str', 'StrSub/str', 'Names/str')]
              + ['units_as:' + uf for uf in UNIT_FORMS]
              + ['dim_named:' + dn for dn in DIM_NAMES]
              + ['second_use:' + sub for sub in SECOND_USES]
              + fs_requirements()
              + ['rows:%d' % nr for nr in COINCIDING_ROWS]
              + [f'unicode_name:{lab}:{mode}:{w}' for lab, _ in UNICODE_NAMES for mode in UNICODE_MODES
                 for w in ('file', 'loaded')]
              + ['fresh_interpreter:save_xye:stringio', 'fresh_interpreter:save_xye:path', 'fresh_interpreter:load_xye']
              + ['data_array_subclass', 'file_judged:data_array_subclass', 'rows:heavy', 'file_judged:rows_heavy',
                 'refuse:binned_data', 'refuse:binned_data_with_event_masks', 'refuse:binned_data_with_bin_masks'])
    return {'events': {'save_xye.file': 250 if q else 10000, 'load_xye.roundtrip': 250 if q else 10000,
                       'save_xye.refusal': 80 if q else 3000, '_deduce_coord': 60 if q else 2000,
                       '_generate_xye_header': 60 if q else 2000,
                       'load_xye.roundtrip.generated_header_not_ascii': 40 if q else 400,
                       'fresh_interpreter.call': 3},
            'forced': forced,
            'counters': {'out_of_domain:unknown_target_type': len(FOREIGN_TARGETS),
                         'out_of_domain:data_or_written_coordinate_not_plain_float64': 1}}


def run(shard, ctx):
    import scippneutron  # noqa: F401

    X, mon, tr = arm(ctx)
    tmp = tempfile.mkdtemp(prefix='rv-c15-')
    env = Env(tmp, X.save_xye, X.load_xye, mon, ctx, shard.get('tier', 'quick'))
    env.generate_header = X.GenerateHeader
    try:
        with tr:
            for k in range(int(shard['cases'])):
                run_one(shard, k, env)
    finally:
        shutil.rmtree(tmp, ignore_errors=True)
    ctx.extra['tolerances'] = {'variance_ulp': VAR_ULP, 'file_stddev_ulp': FILE_E_ULP,
                               'coordinate_and_values': 'bitwise'}


def replay(v, ctx):
    """Re-execute exactly the witness case (cases are a function of seed, shard index, k)."""
    shard = v.get('shard') or {}
    k = (v.get('case') or {}).get('k')
    if k is None or 'seed' not in shard:
        run(shard, ctx)
    else:
        X, mon, tr = arm(ctx)
        tmp = tempfile.mkdtemp(prefix='rv-c15-')
        env = Env(tmp, X.save_xye, X.load_xye, mon, ctx, shard.get('tier', 'quick'))
        env.generate_header = X.GenerateHeader
        try:
            with tr:
                run_one(shard, int(k), env)
        finally:
            shutil.rmtree(tmp, ignore_errors=True)
    ctx.violations = [x for x in ctx.violations if x['kind'] == v['kind']]


# --------------------------------------------------------- known findings ---
def _bare_cr_escape(v):
    """Header text containing a bare CR reaches a target that is read with universal newlines:
    np.savetxt only puts the comment prefix after LF, so the text after the CR is a line of its own."""
    k = v.get('keys') or {}
    if not (k.get('header_has_bare_cr') is True and k.get('reader_newlines') == 'universal'):
        return False
    kind = v.get('kind')
    if kind == 'header_escapes_comment_prefix':
        return True
    if kind == 'roundtrip_load_raised':
        return k.get('file_header_escaped') is True
    if kind == 'roundtrip_row_count':
        return (k.get('file_header_escaped') is True and k.get('more_rows_loaded') is True
                and k.get('table_tail_intact') is True)
    return False


FINDING_PREDICATES = {'xye.header.bare_cr_escapes_comment_prefix': _bare_cr_escape}


# strict-caller variant shard of the runner (numpy floating-point events raise while package code runs): on the
# unchanged tree squaring tiny uncertainties on load underflows;
# these benign events are therefore not trapped for this property
STRICT_NUMPY = {'under': 'ignore'}
