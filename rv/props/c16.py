"""C16 Peak and background models satisfy their analytic definitions.

Observation (sys.monitoring on the code objects): ``Model.__call__``, the ``_call`` of
every model class, the three ``fwhm`` implementations and the base ``Model.fwhm``,
``Model.guess``, ``Model.param_bounds``, ``Model.with_prefix`` and the constructors.
The constructors / ``with_prefix`` are observed so that the *structure* of every model
(kind, degree, prefix, left/right) is known from the documented public arguments it was
built with -- never from the private attributes of the object under test.

Two oracle layers (DESIGN section 4, C16):

(a) pointwise -- every abscissa actually handed to a model is re-evaluated with the
    closed form in long double at that exact float (rv/oracle/peakdefs.py) and compared
    within the forward error bound of the definition (64 eps x condition number);
(b) identities on conditioned parameter sets (|loc| <= 1e3 scale): integral = amplitude
    (400-node Gauss-Legendre in u, x = loc + scale tan u), symmetry on exactly
    representable abscissa pairs, half maximum at loc +- fwhm/2 with the fwhm the model
    itself reports, composite = left + right on the observed sub-calls, bitwise equal
    results under every prefix, result unit, refusal of missing / extra / unknown names.
(c) families of related prefixes (``family_case``): the same model under a base prefix and siblings whose
    prefixes are related to it in every way (equal length with a different first / inner / last / every
    character, reversed, one a proper prefix of the other in both directions, longer / shorter unrelated,
    empty), every sibling with its own values, asked with every kind of dict a caller holds: exactly own,
    the full dict of the composite of the family (what fit_peaks hands to ``peak.fwhm(popt)``), own +
    sibling in both orders, the sibling's names, single names swapped, mixtures.  ``__call__`` must refuse
    everything but its exact names; ``fwhm`` -- which the unchanged code and fit_peaks use with a superset
    dict -- must equal factor(kind) x the model's OWN scale (analytic FWHM) and be bitwise what it reports
    for its own dict alone; without its own scale entry it has nothing to report and must refuse.
(d) units given in every way a caller may (``*_unit_case``): from a consistent assignment every single argument
    in turn is given in another scale of its unit (mm next to m, ms next to s, percent next to a pure number, ...)
    and in a unit of another dimension, for every model kind and inside composites.  Judged by
    ``Monitors.judge_units`` through the independent unit table of rv/oracle/peakdefs.py: a refusal is always
    fine; a returned result must be the physical value of the definition (everything brought to SI) in a unit of
    the implied dimension, and must not exist at all when the terms have no common dimension.
(e) the estimate under every way to carry prefixes (``guess_case``): a prefix on a leaf, on a composite (given to
    the constructor or attached with with_prefix), on a composite nested in another composite (left / right, the
    outer one with or without its own prefix), related or empty leaf prefixes inside, a prefixed composite given
    another / the empty prefix -- each x every way the data name the independent variable (coord not given, the
    dimension-coordinate by name, another coordinate of the data, data with variances).  ``guess`` must return
    exactly the documented names (= ``param_names`` = what ``__call__`` accepts; judged on the answer of every
    implementation of ``guess``, base class and overrides), the values must be bitwise those of the same tree with
    plain prefixes under renaming, ``model(x, **model.guess(data))`` must be accepted and have the unit of the
    data; the same for ``param_bounds`` (names are parameters, content independent of the prefixes).  Whatever
    the package returns is judged as it is: an answer of another shape is a violation, never a harness error.
"""

from __future__ import annotations

import numpy as np
import scipp as sc

from rv.oracle import peakdefs as pk
from rv.trace import Tracer

ID = 'C16'
LEVEL = 'exploration'
RULE = (
    'one case = one parameter set (peak model conditioned |loc|<=1e3 scale, peak model with '
    'location anywhere, polynomial of degree 1..6, composite of 2..3 parts incl. nested) driven '
    'through the real constructors, with_prefix, __add__, __call__, fwhm, guess, param_bounds under '
    '3 prefixes (empty, ASCII, leading-characters-of-parameter-names, unicode, mutually nested); '
    'amplitude +-(1e-6..1e6), loc +-1e6 (or within 1e3 scale), scale 1e-6..1e6, fraction in [0,1] '
    'incl. 0 and 1; x scalar and 1-d in 9 units, amplitude in 8 units; a case is non-trivial unless '
    'empty prefix + dimensionless + scalar x; distinct = distinct (kind, conditioning, prefix class, '
    'x unit, amplitude unit, x shape class, scale decade band, sign, fraction class / degree). '
    'In every shard one family per model kind (3 peaks, polynomial, prefixed composite): the model under a '
    'base prefix and 8..12 sibling prefixes (same length differing in first/inner/last/every character, '
    'reversed, extension, doubling, truncation, longer/shorter unrelated, empty), each with its own values, '
    'called and asked for fwhm/guess/param_bounds with its own dict, the full dict of the composite of the '
    'family in 3 orders, own+sibling in both orders, sibling names (sibling or own values), one name swapped, '
    'names mixed. In every shard one units case per model kind (3 peaks, polynomial, polynomial + peak composite built '
    'with + and with a prefixed CompositeModel): units are descriptors over an own table of 25 base units; from a '
    'consistent assignment (x, loc, scale in one unit, a_i in y/x^i, fraction a pure number, parts with one result '
    'unit) every single argument in turn (x, loc, scale, loc and scale, amplitude, fraction, a0, the first / an inner / '
    'the highest coefficient, the result unit of one part) is given in another scale of the same quantity (another '
    'base unit of that dimension, or percent) and in a unit of another dimension (x or / K, s, m, kg; the unit of '
    'the neighbouring coefficient; all coefficients in the unit of a0); the polynomial additionally with pure '
    'numbers (percent next to dimensionless). In every shard one guess case: one data set (irregular abscissae, peak on a '
    'sloping background, 3 coordinates in different units, with and without variances) and, for leaves and for trees '
    'of 2 and 3 leaves (nested left / right), every placement of non-empty prefixes (leaf; composite via constructor / '
    'via with_prefix; nested composite with / without a prefix on the outer one; un-prefixed composite in a prefixed '
    'one; related / empty leaf prefixes inside; re-prefixed and un-prefixed again) x coord not given / the '
    'dimension-coordinate by name / another coordinate / data with variances: guess, param_bounds, param_names '
    'against the documented naming and against the same tree with plain prefixes'
)
ASSUMPTIONS = [
    'numpy long double (x87 80 bit) evaluates the closed forms with error << 64 eps (mpmath self-test per run)',
    'pseudo-Voigt width convention is the documented one: the Gaussian part has sigma_G = scale/sqrt(2 ln 2) '
    'so that both parts have FWHM 2*scale (class docstring)',
    'the closed forms are written for loc, scale and x in one unit, a_i in y-unit / x-unit^i, fraction a pure number '
    'and parts with one result unit (scipp does not convert units implicitly): such calls must succeed and give '
    'amplitude unit / x unit resp. the unit of a0',
    'arguments in other units ("x and y in arbitrary units", results "carry the units implied by the parameters"): '
    'the arguments are physical quantities, so a returned result must be the physical value of the definition '
    '(all arguments brought to SI with the own unit table, forward bound of the definition for inputs rounded by a '
    'conversion) in a unit of the implied dimension; where the terms have no common dimension in length / mass / '
    'time / temperature there is no implied unit and the call must be refused; a refusal (sc.UnitError, ValueError, '
    'TypeError, KeyError) is always allowed for non-exact units; units that differ in angle / counts only (pure '
    'numbers in SI, distinct for scipp) are not judged',
    'the own unit table (exact rational SI factors, dimension vectors) agrees with sc.to_unit on its 25 base units '
    '(self-test per run); scipp is trusted to build the container unit of a product of base units and to compare '
    'units for equality',
    'a refusal is an exception of type ValueError (what the code raises), KeyError or TypeError '
    '(conventional for bad names); the property text only says "refuse"; other types are violations',
    'fwhm(params) may be given a superset of the model\'s names (the package does: fit_peaks passes the full '
    'popt of background + peak) and then depends on the model\'s own scale only; a dict that lacks the '
    'model\'s own scale entry must be refused (any value returned would come from a foreign name); dicts '
    'with the own scale but other own names missing are not judged',
    '400-node Gauss-Legendre in u reproduces the amplitude of the closed forms to < 1e-12 (self-test per run)',
    'the values guess returns are not specified ("roughly estimate"): they are only compared between prefix variants '
    'of one tree (bitwise under the documented renaming prefix + name, composite prefix in front); the names are: '
    'exactly the documented names, which are what param_names reports and __call__ accepts',
    'guess(data, coord=c) estimates from data.coords[c] and data.data (docstring: "a chosen coord is the independent '
    'variable; if not given, data.dim is used"): not giving coord equals naming the dimension-coordinate, and naming '
    'another coordinate equals handing over the same numbers as the dimension-coordinate',
    'for data without variances model(x, **model.guess(data)) is a complete parameter set in consistent units: it is '
    'accepted and the result has the unit of the data; estimates from data with variances carry variances (scipp '
    'refuses to broadcast them) and are not fed back',
    'param_bounds maps parameter names of the model to (lower, upper); omitted names are unbounded',
]
TECHNIQUE = ('runtime monitors (sys.monitoring) on Model.__call__, every _call, fwhm, guess, param_bounds, '
             'with_prefix and the constructors; long-double closed forms at the exact abscissae + analytic '
             'identities (quadrature, symmetry, half maximum, additivity, prefix invariance, units, refusal); '
             'arguments in non-matching units judged in SI through an independent unit table (refusal or the '
             'physical value; refusal only for dimensionally inconsistent terms)')
LEVEL_TEXT = ('exploration: every observed model evaluation in generated workloads (direct and inside fit_peaks) '
              'is compared with the analytic definition in 80-bit arithmetic at the forward error bound of the '
              'definition, and the normalisation / symmetry / FWHM / additivity / prefix / unit / refusal '
              'identities are checked on the returned values. Sampling of a continuous parameter space: held on '
              'the decided executions reported, not a proof.')
LEVEL_NOTE = ('trusted: numpy long double, own closed forms and Gauss-Legendre nodes (self-tested against mpmath '
              'and against the closed forms), scipp containers and unit algebra')
DESIGN_REF = 'DESIGN.md section 4, C16'
TIMEOUT_S = {'quick': 600, 'thorough': 2 * 3600}

LD = pk.LD
EPS = pk.EPS
TOL_NORM = 1e-10
PEAKS = ('gauss', 'lorentz', 'pvoigt')
PEAK_NAMES = ('amplitude', 'loc', 'scale')
REFUSAL_TYPES = (ValueError, KeyError, TypeError)
# refusing units: scipp's typed unit error (what the in-place unit algebra of the unchanged code raises) or
# the conventional ones
UNIT_REFUSAL_TYPES = (sc.UnitError, ValueError, KeyError, TypeError)

X_UNITS = ['m', 'mm', 'angstrom', 'us', 'ms', 'deg', 'meV', 'dimensionless', '1/angstrom']
A_UNITS = ['counts', 'dimensionless', 'kg', 'K', 'counts*angstrom', 'm', 'J/s', '1/us']
DIMS = ['x', 'tof', 'dspacing', 'xx', 'λ']

# prefix classes: empty / plain / made of leading characters of parameter names (what
# str.lstrip would eat) / unicode / odd characters
PREFIXES = {
    'empty': [''],
    'plain': ['p_', 'n_', 'g1_', 'bkg_', 'P_', 'x', 'q2', 'Z', 'pre.fix-', 'p_p_', 'x '],
    'leading': ['a', 'am', 'amp', 'amplitude', 'l', 'lo', 'loc', 's', 'sc', 'scale', 'f', 'fr',
                'a0', 'a1', 'a_', 'aa', 'ss', 'peak_', 'lorentz_', 'scale_loc_', 'fa'],
    'unicode': ['λ_', 'пик_', '峰', 'é_', 'σ', 'ａ', '𝛼_'],
    'odd': [' ', '0', '_', '__', '-', '1_', '**', '\t'],
}
NESTED_PAIRS = [('a', 'am'), ('', 'amplitude'), ('p_', 'p_p_'), ('l', 'lo'), ('', 'a'), ('s', 'sc'),
                ('λ_', 'λ_λ_'), ('_', '__'), ('a', 'aa'), ('', 'loc'), ('sc', 'scale'), ('a0', 'a0a1')]


# ------------------------------------------------------------------ specs ---
def base_names(spec):
    k = spec['kind']
    if k in ('gauss', 'lorentz'):
        return PEAK_NAMES
    if k == 'pvoigt':
        return (*PEAK_NAMES, 'fraction')
    if k == 'poly':
        return tuple(f'a{i}' for i in range(spec['degree'] + 1))
    raise KeyError(k)


def spec_names(spec) -> frozenset:
    """Documented naming: prefix + name; a composite's prefix is prepended to the
    (already prefixed) names of its parts."""
    if spec['kind'] == 'comp':
        inner = spec_names(spec['left']) | spec_names(spec['right'])
    else:
        inner = base_names(spec)
    return frozenset(spec['prefix'] + n for n in inner)


def spec_str(spec):
    if spec['kind'] == 'comp':
        return f"comp[{spec['prefix']!r}]({spec_str(spec['left'])} + {spec_str(spec['right'])})"
    d = f",deg={spec['degree']}" if spec['kind'] == 'poly' else ''
    return f"{spec['kind']}[{spec['prefix']!r}{d}]"


def spec_kinds(spec):
    if spec['kind'] == 'comp':
        return spec_kinds(spec['left']) + spec_kinds(spec['right'])
    return (spec['kind'],)


class OutOfDomain(Exception):
    pass


class UnitsNotExact(OutOfDomain):
    """The units of the arguments are not exactly the ones the closed form is written for (x, loc, scale in
    one unit; a_i in a_0.unit / x.unit**i; fraction a plain number; parts with equal result units): judged
    by ``Monitors.judge_units`` through the independent unit table instead."""


def _val(p, allow_variance=False):
    """Float value of a scalar parameter; OutOfDomain when not a plain finite float scalar."""
    if not isinstance(p, sc.Variable) or p.ndim != 0 or (p.variance is not None and not allow_variance):
        raise OutOfDomain('parameter is not a plain scalar')
    if p.dtype not in (sc.DType.float64, sc.DType.float32, sc.DType.int64, sc.DType.int32):
        raise OutOfDomain('dtype')
    v = float(p.value)
    if not np.isfinite(v):
        raise OutOfDomain('non-finite parameter')
    return v


def expected(spec, x: sc.Variable, params: dict):
    """(value, abs tolerance, unit) of the analytic definition at the floats in x.

    ``params`` has the full (prefixed) names of ``spec``."""
    p = spec['prefix']
    inner = {k[len(p):]: v for k, v in params.items()}
    kind = spec['kind']
    xv = np.asarray(x.values, dtype=np.float64)
    if kind == 'comp':
        ln, rn = spec_names(spec['left']), spec_names(spec['right'])
        lv, lt, lu = expected(spec['left'], x, {k: inner[k] for k in ln})
        rv, rt, ru = expected(spec['right'], x, {k: inner[k] for k in rn})
        if lu != ru:
            raise UnitsNotExact('parts with different units')
        v, t = pk.sum_ref(lv, lt, rv, rt)
        return v, t, lu
    if kind == 'poly':
        cs = [_val(inner[f'a{i}']) for i in range(spec['degree'] + 1)]
        for i in range(spec['degree'] + 1):
            if inner[f'a{i}'].unit != inner['a0'].unit / x.unit ** i:
                raise UnitsNotExact('coefficient units not y/x^i')
        if max(abs(c) for c in cs) > 1e30 or (xv.size and np.max(np.abs(xv)) > 1e30):
            raise OutOfDomain('overflow range')
        v, t = pk.polynomial_ref(xv, cs)
        return v, t, inner['a0'].unit
    a, m, s = _val(inner['amplitude']), _val(inner['loc']), _val(inner['scale'])
    if not (1e-6 * (1 - 1e-12) <= s <= 1e6 * (1 + 1e-12)):
        raise OutOfDomain('scale outside 1e-6..1e6')
    if inner['loc'].unit != x.unit or inner['scale'].unit != x.unit:
        raise UnitsNotExact('loc/scale unit differs from x unit')
    unit = inner['amplitude'].unit / x.unit
    if kind == 'gauss':
        v, t = pk.gaussian_ref(xv, a, m, s)
    elif kind == 'lorentz':
        v, t = pk.lorentzian_ref(xv, a, m, s)
    else:
        f = _val(inner['fraction'])
        if inner['fraction'].unit != sc.units.one:
            raise UnitsNotExact('fraction with unit')
        if not 0.0 <= f <= 1.0:
            raise OutOfDomain('fraction outside [0, 1]')
        v, t = pk.pseudo_voigt_ref(xv, a, m, s, f)
    return v, t, unit


def _uinfo(unit):
    try:
        return pk.u_lookup(unit)
    except KeyError:
        raise OutOfDomain('unit not in the independent table') from None


def _worst(rels):
    return 'hard' if 'hard' in rels else ('soft' if 'soft' in rels else 'same')


def si_expected(spec, x: sc.Variable, params: dict):
    """What the definition gives as a physical quantity, whatever (known) units the arguments are in.

    Every argument is brought to SI with the factors of the independent table (rv/oracle/peakdefs.py).
    Returns a dict with ``relation``:

    * ``'inconsistent'``: the terms have no common dimension (a_i x^i against a_0; loc or scale against x;
      a fraction that is not a pure number; parts of a composite against each other) in at least one of
      length / mass / time / temperature -- there is no implied unit, ``why`` names the terms;
    * ``'undecided'``: they differ in angle / counts only (pure numbers in SI, distinct for scipp);
    * ``'consistent'``: ``value`` (long double, SI), ``tol`` (forward bound of the definition for inputs
      rounded once more by the conversion) and ``dim`` (dimension of the result)."""
    p = spec['prefix']
    inner = {k[len(p):]: v for k, v in params.items()}
    kind = spec['kind']
    if kind == 'comp':
        ln, rn = spec_names(spec['left']), spec_names(spec['right'])
        li = si_expected(spec['left'], x, {k: inner[k] for k in ln})
        ri = si_expected(spec['right'], x, {k: inner[k] for k in rn})
        why = li.get('why', []) + ri.get('why', [])
        rels = []
        for part in (li, ri):
            rels.append({'inconsistent': 'hard', 'undecided': 'soft', 'consistent': 'same'}[part['relation']])
        if 'hard' not in rels and 'soft' not in rels:
            rel = pk.dim_relation(li['dim'], ri['dim'])
            rels.append(rel)
            if rel != 'same':
                why = [*why, 'left part against right part']
        w = _worst(rels)
        if w == 'hard':
            return {'relation': 'inconsistent', 'why': why}
        if w == 'soft':
            return {'relation': 'undecided', 'why': why}
        v, t = pk.sum_ref(li['value'], li['tol'], ri['value'], ri['tol'])
        return {'relation': 'consistent', 'value': v, 'tol': t, 'dim': li['dim'], 'why': []}
    xv = np.asarray(x.values, dtype=np.float64).astype(LD)
    fx, dx = _uinfo(x.unit)
    if kind == 'poly':
        n = spec['degree'] + 1
        cs = [_val(inner[f'a{i}']) for i in range(n)]
        if max(abs(c) for c in cs) > 1e30 or (xv.size and np.max(np.abs(xv)) > 1e30):
            raise OutOfDomain('overflow range')
        info = [_uinfo(inner[f'a{i}'].unit) for i in range(n)]
        d0 = info[0][1]
        rels = [pk.dim_relation(pk.dim_add(info[i][1], dx, i), d0) for i in range(n)]
        why = [f'a{i} x^{i} against a0' for i in range(n) if rels[i] != 'same']
        w = _worst(rels)
        if w != 'same':
            return {'relation': 'inconsistent' if w == 'hard' else 'undecided', 'why': why}
        v, t = pk.polynomial_ref(xv * fx, [LD(c) * info[i][0] for i, c in enumerate(cs)])
        return {'relation': 'consistent', 'value': v, 'tol': t, 'dim': d0, 'why': []}
    a, m, s = _val(inner['amplitude']), _val(inner['loc']), _val(inner['scale'])
    if not (1e-6 * (1 - 1e-12) <= s <= 1e6 * (1 + 1e-12)):
        raise OutOfDomain('scale outside 1e-6..1e6')
    (fa, da), (fm, dm), (fs, ds) = (_uinfo(inner[k].unit) for k in PEAK_NAMES)
    rels = [pk.dim_relation(dm, dx), pk.dim_relation(ds, dx)]
    why = [w_ for w_, r in zip(('loc against x', 'scale against x'), rels, strict=True) if r != 'same']
    frac = None
    if kind == 'pvoigt':
        f = _val(inner['fraction'])
        ff, df = _uinfo(inner['fraction'].unit)
        rels.append(pk.dim_relation(df, pk.ZERO_DIM))
        if rels[-1] != 'same':
            why.append('fraction against a pure number')
        frac = LD(f) * ff
    w = _worst(rels)
    if w != 'same':
        return {'relation': 'inconsistent' if w == 'hard' else 'undecided', 'why': why}
    if frac is not None and not 0.0 <= float(frac) <= 1.0:
        raise OutOfDomain('fraction outside [0, 1]')
    v, t = pk.peak_ref_inputs(kind, xv * fx, LD(a) * fa, LD(m) * fm, LD(s) * fs, frac)
    return {'relation': 'consistent', 'value': v, 'tol': t, 'dim': pk.dim_add(da, dx, -1), 'why': []}


def _sub_calls(ev):
    """The evaluations of OTHER models observed inside the evaluation ``ev`` of a model: the nearest
    ``__call__`` frames below it that belong to another object (frames of the model itself -- an override
    that defers to the base implementation, its ``_call`` -- are looked through)."""
    me = ev.args.get('self')
    out = []

    def walk(node):
        for c in node.children:
            if c.name == 'call' and c.args.get('self') is not me:
                out.append(c)
            else:
                walk(c)
    walk(ev)
    return out


def _hex(v):
    try:
        return float(v).hex()
    except Exception:  # noqa: BLE001
        return repr(v)


def describe_params(params):
    out = {}
    for k, v in params.items():
        if isinstance(v, sc.Variable) and v.ndim == 0:
            out[k] = [_hex(v.value), str(v.unit)]
        else:
            out[k] = repr(v)[:80]
    return out


def describe_x(x):
    if not isinstance(x, sc.Variable):
        return repr(x)[:80]
    vals = np.ravel(np.asarray(x.values, dtype=np.float64))
    return {'dims': list(x.dims), 'shape': list(x.shape), 'unit': str(x.unit),
            'values_hex': [float(v).hex() for v in vals[:8]], 'n': int(vals.size)}


# --------------------------------------------------------------- monitors ---
class Monitors:
    def __init__(self, ctx):
        self.ctx = ctx
        self.reg: dict[int, tuple] = {}  # id(model) -> (model kept alive, spec)
        self.origin = 'direct'
        self.last_fwhm = None
        # harness label of the kind of parameter dict being handed over (evidence and grouping of
        # witnesses only: every verdict is taken from the names actually observed)
        self.dict_kind = None
        # harness label of the class of units being handed over (evidence and grouping only: the verdict
        # comes from the units actually observed, through the independent table)
        self.unit_class = None

    # -- registry driven by the observed constructor arguments ----------------
    def spec_of(self, model):
        hit = self.reg.get(id(model))
        return hit[1] if hit is not None and hit[0] is model else None

    def _register(self, model, spec):
        self.reg[id(model)] = (model, spec)

    def on_init(self, kind):
        def h(ev):
            if ev.exc is not None:
                return
            a = ev.args
            spec = {'kind': kind, 'prefix': a.get('prefix', '')}
            if kind == 'poly':
                spec['degree'] = int(a['degree'])
            self._register(a['self'], spec)
            self.ctx.event('init.' + kind)
        return h

    def on_comp_init(self, ev):
        a = ev.args
        ls, rs = self.spec_of(a['left']), self.spec_of(a['right'])
        if ls is None or rs is None:
            self.ctx.count('composite_of_unobserved_parts')
            return
        overlap = spec_names(ls) & spec_names(rs)
        case = {'left': spec_str(ls), 'right': spec_str(rs), 'prefix': a.get('prefix', '')}
        if ev.exc is not None:
            if overlap and isinstance(ev.exc, ValueError):
                self.ctx.count('composite_overlap_refused')
            elif not overlap:
                self.ctx.violation(
                    'composite_refused_disjoint',
                    f'CompositeModel refused parts with disjoint parameter names: '
                    f'{type(ev.exc).__name__}: {ev.exc}', case, where='CompositeModel.__init__')
            else:
                self.ctx.count('composite_overlap_raised_' + type(ev.exc).__name__)
            return
        if overlap:
            # not part of the property text (the docstring asks the caller to disambiguate)
            self.ctx.count('composite_overlap_accepted')
            return
        self._register(a['self'], {'kind': 'comp', 'prefix': a.get('prefix', ''), 'left': ls, 'right': rs})
        self.ctx.event('init.comp')

    def on_with_prefix(self, ev):
        if ev.exc is not None:
            self.ctx.violation('with_prefix_raised', f'with_prefix raised {type(ev.exc).__name__}: {ev.exc}',
                               {'prefix': ev.args.get('prefix')}, where='with_prefix')
            return
        spec = self.spec_of(ev.args['self'])
        if spec is None:
            self.ctx.count('with_prefix_on_unobserved_model')
            return
        if ev.result is ev.args['self']:
            self.ctx.violation('with_prefix_not_a_copy', 'with_prefix returned the model itself',
                               {'spec': spec_str(spec)}, where='with_prefix')
            return
        if type(ev.result) is not type(ev.args['self']):
            self.ctx.violation('with_prefix_type', f'with_prefix of {spec_str(spec)} returned '
                               f'{type(ev.result).__name__}, expected a copy of the model',
                               {'spec': spec_str(spec), 'prefix': ev.args.get('prefix')}, where='with_prefix')
            return
        new = dict(spec)
        new['prefix'] = ev.args['prefix']
        self._register(ev.result, new)
        self.ctx.event('with_prefix')

    # -- evaluation -----------------------------------------------------------
    def on_call(self, ev):
        if ev.depth != 0:
            return  # nested calls are judged from their composite parent
        if not {'self', 'x', 'params'} <= set(ev.args):
            self.ctx.count('call_with_other_signature_not_judged')
            return
        try:
            self.judge_call(ev, None)
        except OutOfDomain as e:
            self.ctx.count('out_of_domain:' + str(e))
        except Exception:  # noqa: BLE001
            self.ctx.oracle_error('C16 judge_call')

    def judge_call(self, ev, spec):
        ctx = self.ctx
        model, x, params = ev.args['self'], ev.args['x'], ev.args['params']
        if spec is None:
            spec = self.spec_of(model)
        if spec is None:
            ctx.count('call_on_unobserved_model')
            return
        names = spec_names(spec)
        case = {'origin': self.origin, 'spec': spec_str(spec), 'params': describe_params(params),
                'x': describe_x(x)}
        kind = spec['kind']
        keys = set(params)
        if keys != names:
            missing, extra = names - keys, keys - names
            how = 'missing' if missing and not extra else ('extra' if extra and not missing else 'unknown')
            label = self.dict_kind or '-'
            if ev.exc is None:
                ctx.violation('accepted_bad_params',
                              f'{spec_str(spec)} accepted parameter names with {how}: '
                              f'missing={sorted(missing)} extra={sorted(extra)}', case, how=how, model=kind,
                              names=label)
            elif isinstance(ev.exc, REFUSAL_TYPES):
                ctx.event('refusal.' + how)
                if self.dict_kind:
                    ctx.event('refused: ' + self.dict_kind)
                ctx.count('refusal_type:' + type(ev.exc).__name__)
            else:
                ctx.violation('refusal_wrong_type',
                              f'{spec_str(spec)} refused {how} names with {type(ev.exc).__name__}: {ev.exc}',
                              case, how=how, model=kind, exc=type(ev.exc).__name__)
            return
        # in-domain?  (raises OutOfDomain before any verdict, also for the raised case)
        try:
            exp, tol, unit = expected(spec, x, params)
        except UnitsNotExact:
            self.judge_units(ev, spec, x, params, case)
            return
        if ev.depth == 0:
            ctx.count('judged_top_level_calls:' + self.origin)
        if ev.exc is not None:
            ctx.violation('raised_on_valid',
                          f'{spec_str(spec)} raised {type(ev.exc).__name__}: {ev.exc} for a complete parameter set',
                          case, model=kind, exc=type(ev.exc).__name__, prefix_class=prefix_class(spec['prefix']))
            return
        res = ev.result
        if not isinstance(res, sc.Variable):
            ctx.violation('result_type', f'{spec_str(spec)} returned {type(res).__name__}', case, model=kind)
            return
        ctx.event('unit.' + kind)
        if res.unit != unit:
            ctx.violation('wrong_unit', f'{spec_str(spec)}: result unit {res.unit}, expected {unit}', case,
                          model=kind)
            return
        if tuple(res.dims) != tuple(x.dims) or tuple(res.shape) != tuple(x.shape):
            ctx.violation('wrong_shape', f'{spec_str(spec)}: result dims {res.dims}{res.shape} for x '
                          f'{x.dims}{x.shape}', case, model=kind)
            return
        got = np.asarray(res.values, dtype=np.float64)
        self._compare(got, exp, tol, x, 'pointwise.' + kind, case, kind)
        if kind == 'comp':
            self._judge_parts(ev, spec, params, got, case)

    def judge_units(self, ev, spec, x, params, case):
        """A complete parameter set whose units are not exactly those of the closed form.

        "the polynomial equals the sum of a_i x^i", "a composite equals the sum of its parts", results "carry
        the units implied by the parameters": the arguments are physical quantities, so whenever a result is
        returned it is the physical value of the definition in a unit of the implied dimension -- whatever
        scale each argument was given in -- and where the terms have no common dimension there is no
        implied unit and nothing to return.  Allowed: a refusal (scipp does not convert units implicitly:
        sc.UnitError, or the conventional ValueError / TypeError / KeyError), or, for dimensionally
        consistent arguments only, the physically correct value."""
        ctx = self.ctx
        kind = spec['kind']
        info = si_expected(spec, x, params)  # OutOfDomain when a unit is not in the independent table
        rel = info['relation']
        label = self.unit_class or '-'
        if rel == 'undecided':
            ctx.count('undecided:units differ in angle / counts only')
            return
        rel = 'scaled' if rel == 'consistent' else rel
        ctx.event(f'unit_judged.{rel}.{kind}')
        if ev.depth == 0:
            ctx.count('judged_top_level_calls:' + self.origin)
        if ev.exc is not None:
            if isinstance(ev.exc, UNIT_REFUSAL_TYPES):
                ctx.event(f'unit_refusal.{rel}.{kind}')
                ctx.count('unit_refusal_type:' + type(ev.exc).__name__)
                if self.unit_class:
                    ctx.event('units refused: ' + self.unit_class)
            else:
                ctx.violation('unit_refusal_wrong_type',
                              f'{spec_str(spec)} refused {rel} units with {type(ev.exc).__name__}: {ev.exc}',
                              case, model=kind, relation=rel, exc=type(ev.exc).__name__)
            if kind == 'comp':
                self._judge_parts_of_refused(ev, spec)
            return
        res = ev.result
        if rel == 'inconsistent':
            ctx.violation('accepted_inconsistent_units',
                          f'{spec_str(spec)} returned a result'
                          f'{" in " + str(res.unit) if isinstance(res, sc.Variable) else ""} for arguments '
                          f'without a common dimension ({"; ".join(info["why"])}): x in {x.unit}, parameters in '
                          f'{ {k: str(v.unit) for k, v in params.items()} }', case, model=kind, units=label)
            if kind == 'comp':
                self._judge_parts_of_refused(ev, spec)
            return
        if not isinstance(res, sc.Variable):
            ctx.violation('result_type', f'{spec_str(spec)} returned {type(res).__name__}', case, model=kind)
            return
        try:
            fr, dr = pk.u_lookup(res.unit)
        except KeyError:
            ctx.count('undecided:result unit not in the independent table')
            return
        drel = pk.dim_relation(dr, info['dim'])
        if drel == 'soft':
            ctx.count('undecided:units differ in angle / counts only')
            return
        if drel == 'hard':
            ctx.violation('wrong_unit', f'{spec_str(spec)}: result unit {res.unit} does not have the dimension '
                          f'implied by the parameters', case, model=kind)
            return
        if tuple(res.dims) != tuple(x.dims) or tuple(res.shape) != tuple(x.shape):
            ctx.violation('wrong_shape', f'{spec_str(spec)}: result dims {res.dims}{res.shape} for x '
                          f'{x.dims}{x.shape}', case, model=kind)
            return
        ctx.event('unit_scaled_value.' + kind)
        if self.unit_class:
            ctx.event('units accepted and judged: ' + self.unit_class)
        got = np.asarray(res.values, dtype=np.float64)
        if got.size == 0:
            return
        exp, tol = info['value'], info['tol'] + LD(pk.K * EPS) * np.abs(info['value'])
        if not np.all(np.isfinite(got)):
            ctx.violation('non_finite', f'{spec_str(spec)}: non-finite value for finite in-domain input', case,
                          model=kind)
            return
        err = np.abs(got.astype(LD) * fr - exp)
        ratio = err / tol
        worst = float(np.max(ratio))
        ctx.dev(f'unit_scaled_value.{kind} [fraction of bound]', worst)
        if worst > 1.0:
            i = int(np.argmax(ratio))
            xv = np.ravel(np.asarray(x.values, dtype=np.float64))
            case = dict(case)
            want_i = np.ravel(exp)[i] / fr
            case['worst'] = {'x_hex': float(xv[i]).hex(), 'got': repr(np.ravel(got)[i]),
                             'expected_in_result_unit': repr(want_i), 'result_unit': str(res.unit)}
            ctx.violation('value_ignores_units',
                          f'{spec_str(spec)}: x in {x.unit}, parameters in '
                          f'{ {k: str(v.unit) for k, v in params.items()} }: returned {float(np.ravel(got)[i])!r} '
                          f'{res.unit} at x={float(xv[i])!r}, the definition gives {float(want_i)!r} {res.unit} '
                          f'({worst:.3g} x bound)', case, model=kind, units=label)
        if kind == 'comp':
            self._judge_parts_of_refused(ev, spec)

    def _judge_parts_of_refused(self, ev, spec):
        """Sub-calls of a composite that was not judged through the exact closed form (it refused, or its
        parts are in different units): every part that was reached is judged on its own."""
        subs = _sub_calls(ev)
        for part in (spec['left'], spec['right']):
            names = spec_names(part)
            for c in subs:
                if set(c.args['params']) == names:
                    try:
                        self.judge_call(c, part)
                    except OutOfDomain as e:
                        self.ctx.count('out_of_domain:' + str(e))

    def _compare(self, got, exp, tol, x, name, case, kind):
        ctx = self.ctx
        ctx.event(name, 1)
        ctx.count('points.' + name, int(np.size(got)))
        if got.size == 0:
            return True
        if not np.all(np.isfinite(got)):
            ctx.violation('non_finite', f'{name}: non-finite value for finite in-domain input', case, model=kind)
            return False
        err = np.abs(got.astype(LD) - exp)
        ratio = err / tol
        worst = float(np.max(ratio))
        # deviation in units of the 64-eps bound (1 = at the tolerance)
        ctx.dev(f'{name} [fraction of bound]', worst)
        if worst > 1.0:
            i = int(np.argmax(ratio))
            xv = np.ravel(np.asarray(x.values, dtype=np.float64))
            case = dict(case)
            case['worst'] = {'x_hex': float(xv[i]).hex(), 'got': repr(np.ravel(got)[i]),
                             'expected': repr(np.ravel(exp)[i]), 'abs_err': repr(np.ravel(err)[i]),
                             'tol': repr(np.ravel(tol)[i])}
            e_i, x_i = np.ravel(exp)[i], float(xv[i])
            how = (f'{float(np.ravel(err)[i] / abs(e_i)):.3g} relative' if abs(e_i) > LD('1e-290')
                   else f'{float(np.ravel(err)[i]):.3g} absolute (expected {float(e_i):.3g})')
            ctx.violation('value', f'{name}: {case["spec"]} differs from the analytic definition by '
                          f'{how} ({worst:.3g} x bound) at x={x_i!r}', case,
                          model=kind, layer='pointwise')
            return False
        return True

    def _judge_parts(self, ev, spec, params, got, case):
        """composite = left + right on the observed sub-calls; recurse into the parts."""
        ctx = self.ctx
        subs = _sub_calls(ev)
        ln, rn = spec_names(spec['left']), spec_names(spec['right'])
        p = spec['prefix']
        left = [c for c in subs if set(c.args['params']) == ln]
        right = [c for c in subs if set(c.args['params']) == rn]
        if len(left) != 1 or len(right) != 1 or len(subs) != 2:
            ctx.violation('composite_routing',
                          f'{spec_str(spec)}: sub-calls observed with parameter names '
                          f'{[sorted(c.args["params"]) for c in subs]}, expected {sorted(ln)} and {sorted(rn)}',
                          case, model='comp', mechanism='names')
            return
        le, re_ = left[0], right[0]
        for sub in (le, re_):
            for k, v in sub.args['params'].items():
                w = params[p + k]
                same = v is w or (isinstance(v, sc.Variable) and isinstance(w, sc.Variable) and sc.identical(v, w))
                if not same:
                    ctx.violation('composite_routing',
                                  f'{spec_str(spec)}: part received {k}={getattr(v, "value", v)!r}, composite '
                                  f'was given {p + k}={getattr(w, "value", w)!r}', case, model='comp',
                                  mechanism='values')
                    return
        if (le.exc is None and re_.exc is None and isinstance(le.result, sc.Variable)
                and isinstance(re_.result, sc.Variable) and le.result.shape == re_.result.shape
                and tuple(le.result.shape) == tuple(got.shape)):
            # (a part that returned something else is reported by its own judge_call below)
            lv = np.asarray(le.result.values, dtype=np.float64).astype(LD)
            rv = np.asarray(re_.result.values, dtype=np.float64).astype(LD)
            s = lv + rv
            tol = LD(pk.K * EPS) * (np.abs(lv) + np.abs(rv)) + pk.FLOOR
            dev = np.abs(got.astype(LD) - s) / tol
            worst = float(np.max(dev)) if dev.size else 0.0
            ctx.event('composite_sum')
            ctx.dev('composite_sum [fraction of bound]', worst)
            if worst > 1.0:
                ctx.violation('composite_sum', f'{spec_str(spec)}: result differs from left + right of the '
                              f'observed sub-calls ({worst:.3g} x bound)', case, model='comp')
        self.judge_call(le, spec['left'])
        self.judge_call(re_, spec['right'])

    def on_base_call(self, kind):
        """``_call`` of a concrete class: documented to receive names *without* prefix."""
        def h(ev):
            if ev.exc is not None:
                return
            ctx = self.ctx
            try:
                x, params = ev.args['x'], ev.args['params']
                keys = set(params)
                if kind == 'poly':
                    spec = {'kind': 'poly', 'prefix': '', 'degree': len(keys) - 1}
                else:
                    spec = {'kind': kind, 'prefix': ''}
                case = {'origin': self.origin, 'spec': '_call ' + kind, 'params': describe_params(params),
                        'x': describe_x(x)}
                if len(keys) < 2 or keys != set(base_names(spec)):
                    ctx.violation('call_names_not_unprefixed',
                                  f'{kind}._call received names {sorted(keys)}', case, model=kind,
                                  mechanism='prefix_strip')
                    return
                exp, tol, unit = expected(spec, x, params)
                res = ev.result
                if not isinstance(res, sc.Variable) or res.unit != unit:
                    return  # reported by the __call__ monitor
                got = np.asarray(res.values, dtype=np.float64)
                if got.shape != exp.shape:
                    return
                self._compare(got, exp, tol, x, '_call.' + kind, case, kind)
            except OutOfDomain:
                ctx.count('out_of_domain:_call')
            except Exception:  # noqa: BLE001
                ctx.oracle_error('C16 _call monitor')
        return h

    # -- fwhm / guess / bounds ---------------------------------------------------
    def on_fwhm(self, kind):
        def h(ev):
            ctx = self.ctx
            if ev.depth != 0:
                return
            spec = self.spec_of(ev.args['self'])
            if spec is None:
                ctx.count('fwhm_on_unobserved_model')
                return
            params = ev.args['params']
            case = {'spec': spec_str(spec), 'params': describe_params(params)}
            try:
                if kind is None:
                    # base implementation: documented NotImplementedError
                    if isinstance(ev.exc, NotImplementedError):
                        ctx.event('fwhm.unsupported')
                    else:
                        ctx.violation('fwhm_unsupported', f'{spec_str(spec)}.fwhm: expected NotImplementedError, '
                                      f'got {type(ev.exc).__name__ if ev.exc else "a result"}', case,
                                      model=spec['kind'])
                    return
                # What fwhm may be given: the unchanged code and documentation take "parameter values for
                # which to compute the FWHM" as a dict and the package itself (fit_peaks) hands over the full
                # dict of the composite background + peak, i.e. a SUPERSET of the model's names.  The FWHM is
                # a function of the model's own scale only ("independent of the parameter-name prefix"):
                #   own names all present (exact or superset) -> fwhm = factor(kind) * own scale, whatever
                #       else the dict holds and in whatever order;
                #   own scale absent -> there is no value the result could legitimately be computed from:
                #       returning one is a result that depends on foreign names (refusal expected);
                #   own scale present but other own names absent -> not judged (the property does not say).
                names, keys = spec_names(spec), set(params)
                own = spec['prefix'] + 'scale'
                label = self.dict_kind or '-'
                if own not in keys:
                    if ev.exc is None:
                        ctx.violation('fwhm_without_own_scale',
                                      f'{spec_str(spec)}.fwhm returned {getattr(ev.result, "value", ev.result)!r} '
                                      f'for a dict without {own!r} (names {sorted(keys)})', case, model=kind,
                                      names=label)
                    elif isinstance(ev.exc, REFUSAL_TYPES):
                        ctx.event('fwhm_refusal.' + kind)
                    else:
                        ctx.count('fwhm_without_own_scale_raised:' + type(ev.exc).__name__)
                    return
                if not names <= keys:
                    ctx.count('fwhm_partial_names_not_judged')
                    return
                relation = 'exact' if keys == names else 'superset'
                scale = params[own]
                s_val = _val(scale, allow_variance=True)
                if not (1e-6 * (1 - 1e-12) <= s_val <= 1e6 * (1 + 1e-12)):
                    raise OutOfDomain('scale outside 1e-6..1e6')
                if ev.exc is not None:
                    ctx.violation('fwhm_raised', f'{spec_str(spec)}.fwhm raised {type(ev.exc).__name__}: {ev.exc} '
                                  f'({relation} dict)', case, model=kind, prefix_class=prefix_class(spec['prefix']),
                                  names=label)
                    return
                w = ev.result
                ctx.event('fwhm.' + kind)
                ctx.event(f'fwhm_{relation}.' + kind)
                ctx.count(f'fwhm_judged:{self.origin}:{relation}')
                if self.dict_kind:
                    ctx.event('fwhm judged: ' + self.dict_kind)
                if not isinstance(w, sc.Variable) or w.ndim != 0 or w.unit != scale.unit:
                    ctx.violation('fwhm_unit', f'{spec_str(spec)}.fwhm returned {w!r}, expected a scalar in '
                                  f'{scale.unit}', case, model=kind)
                elif not (np.isfinite(w.value) and w.value > 0):
                    ctx.violation('fwhm_value', f'{spec_str(spec)}.fwhm = {w.value!r}', case, model=kind)
                else:
                    # analytic FWHM of the definition: 2 sqrt(2 ln 2) sigma (Gaussian), 2 gamma (Lorentzian,
                    # and the pseudo-Voigt whose parts share the FWHM 2*scale)
                    want = (pk.GAUSS_FWHM_FACTOR if kind == 'gauss' else pk.TWO) * LD(s_val)
                    dev = float(abs(LD(float(w.value)) - want) / want) / (pk.K * EPS)
                    ctx.dev(f'fwhm_{relation}.{kind} [fraction of 64 eps]', dev)
                    if dev > 1.0:
                        ctx.violation('fwhm_not_own_scale',
                                      f'{spec_str(spec)}.fwhm = {float(w.value)!r} for a dict ({relation}) whose '
                                      f'{own!r} = {s_val!r}: the definition gives {float(want)!r}', case,
                                      model=kind, relation=relation, names=label)
            except OutOfDomain:
                ctx.count('out_of_domain:fwhm')
            except Exception:  # noqa: BLE001
                ctx.oracle_error('C16 fwhm monitor')
        return h

    def on_guess(self, ev):
        """``guess`` of any model (the public method of the base class and every override of it): the names
        it returns are exactly the documented names of the model (prefix + name, a composite's prefix in
        front of the names of its parts) -- the ones ``__call__`` accepts."""
        if ev.depth != 0 or ev.exc is not None:
            return
        spec = self.spec_of(ev.args['self'])
        if spec is None:
            return
        self.ctx.event('guess')
        coord = ev.args.get('coord')
        self.ctx.event('guess.coord=None' if coord is None else 'guess.coord=name')
        case = {'spec': spec_str(spec), 'coord': coord}
        judge_guess_names(self.ctx, spec, ev.result, case, 'monitor')

    def on_bounds(self, ev):
        if ev.depth != 0 or ev.exc is not None:
            return
        spec = self.spec_of(ev.args['self'])
        if spec is None:
            return
        self.ctx.event('param_bounds')
        judge_bounds_names(self.ctx, spec, ev.result, {'spec': spec_str(spec)}, 'monitor')

    def install(self, tr, M):
        tr.watch(M.Model.__call__, 'call', on_return=self.on_call)
        tr.watch(M.GaussianModel._call, '_call.gauss', on_return=self.on_base_call('gauss'))
        tr.watch(M.LorentzianModel._call, '_call.lorentz', on_return=self.on_base_call('lorentz'))
        tr.watch(M.PseudoVoigtModel._call, '_call.pvoigt', on_return=self.on_base_call('pvoigt'))
        tr.watch(M.PolynomialModel._call, '_call.poly', on_return=self.on_base_call('poly'))
        tr.watch(M.CompositeModel._call, '_call.comp')
        tr.watch(M.GaussianModel.__init__, 'init.gauss', on_return=self.on_init('gauss'))
        tr.watch(M.LorentzianModel.__init__, 'init.lorentz', on_return=self.on_init('lorentz'))
        tr.watch(M.PseudoVoigtModel.__init__, 'init.pvoigt', on_return=self.on_init('pvoigt'))
        tr.watch(M.PolynomialModel.__init__, 'init.poly', on_return=self.on_init('poly'))
        tr.watch(M.CompositeModel.__init__, 'init.comp', on_return=self.on_comp_init)
        tr.watch(M.Model.with_prefix, 'with_prefix', on_return=self.on_with_prefix)
        tr.watch(M.GaussianModel.fwhm, 'fwhm.gauss', on_return=self.on_fwhm('gauss'))
        tr.watch(M.LorentzianModel.fwhm, 'fwhm.lorentz', on_return=self.on_fwhm('lorentz'))
        tr.watch(M.PseudoVoigtModel.fwhm, 'fwhm.pvoigt', on_return=self.on_fwhm('pvoigt'))
        tr.watch(M.Model.fwhm, 'fwhm.base', on_return=self.on_fwhm(None))
        tr.watch(M.Model.guess, 'guess', on_return=self.on_guess)
        tr.watch(M.Model.param_bounds, 'param_bounds', on_return=self.on_bounds)
        # the public methods are judged wherever they are implemented: an override in a model class is
        # observed under the same name as the implementation of the base class (depth 0 = the outermost)
        public = {'__call__': ('call', self.on_call), 'guess': ('guess', self.on_guess),
                  'param_bounds': ('param_bounds', self.on_bounds), 'with_prefix': ('with_prefix',
                                                                                    self.on_with_prefix)}
        for cls in vars(M).values():
            if isinstance(cls, type) and issubclass(cls, M.Model) and cls is not M.Model:
                for attr, (name, handler) in public.items():
                    if attr in vars(cls):
                        try:
                            tr.watch(vars(cls)[attr], name, on_return=handler)
                            self.ctx.count(f'override_observed:{cls.__name__}.{attr}')
                        except TypeError:
                            self.ctx.count(f'override_not_observable:{cls.__name__}.{attr}')


# -------------------------------------------------------------- generators ---
def prefix_class(p):
    for cls, lst in PREFIXES.items():
        if p in lst:
            return cls
    return 'other'


def draw_prefix(rng, ctx, avoid=()):
    for _ in range(20):
        cls = list(PREFIXES)[int(rng.integers(0, len(PREFIXES)))]
        lst = PREFIXES[cls]
        p = lst[int(rng.integers(0, len(lst)))]
        if p not in avoid:
            ctx.hit('prefix:' + cls)
            return p
    return 'zz_'


def logu(rng, lo, hi):
    return float(10.0 ** rng.uniform(lo, hi))


def draw_peak_values(rng, ctx, kind, conditioned):
    amp = logu(rng, -6, 6) * (1.0 if rng.random() < 0.6 else -1.0)
    r = rng.random()
    scale = 1e-6 if r < 0.03 else (1e6 if r < 0.06 else logu(rng, -6, 6))
    if conditioned:
        r = rng.random()
        if r < 0.15:
            loc = 0.0
        else:
            loc = scale * logu(rng, -3, 3) * (1.0 if rng.random() < 0.5 else -1.0)
            if rng.random() < 0.5:
                # location on a dyadic grid of the scale: loc +- k q are exact floats (symmetry pairs)
                q = 2.0 ** (np.floor(np.log2(scale)) - 20)
                loc = float(np.rint(loc / q) * q)
            if abs(loc) > 1e3 * scale:
                loc = float(np.copysign(1e3 * scale, loc))
    else:
        loc = logu(rng, -6, 6) * (1.0 if rng.random() < 0.5 else -1.0)
        if rng.random() < 0.1:
            loc = float(np.copysign(1e6, loc))
        if abs(loc) > 1e6 * scale:
            ctx.hit('|loc| > 1e6 scale')
    vals = {'amplitude': amp, 'loc': loc, 'scale': scale}
    fcls = '-'
    if kind == 'pvoigt':
        r = rng.random()
        if r < 0.15:
            f, fcls = 0.0, '0'
        elif r < 0.30:
            f, fcls = 1.0, '1'
        elif r < 0.37:
            f, fcls = logu(rng, -15, -6), 'tiny'
        elif r < 0.44:
            f, fcls = 1.0 - logu(rng, -15, -6), 'near1'
        else:
            f, fcls = float(rng.uniform(0, 1)), 'mid'
        vals['fraction'] = f
        ctx.hit('fraction:' + fcls)
    if amp < 0:
        ctx.hit('amplitude < 0')
    return vals, fcls


def peak_vars(vals, xunit, aunit):
    out = {'amplitude': sc.scalar(vals['amplitude'], unit=aunit),
           'loc': sc.scalar(vals['loc'], unit=xunit),
           'scale': sc.scalar(vals['scale'], unit=xunit)}
    if 'fraction' in vals:
        out['fraction'] = sc.scalar(vals['fraction'])
    return out


def draw_x_peak(rng, ctx, vals, conditioned, n):
    loc, scale = vals['loc'], vals['scale']
    k = rng.integers(0, 8, size=n)
    t = rng.uniform(-10, 10, size=n)
    t = np.where(k == 0, 0.0, t)
    sgn = np.where(rng.random(n) < 0.5, 1.0, -1.0)
    t = np.where(k == 1, sgn * 10.0 ** rng.uniform(-9, 0, size=n), t)
    t = np.where(k == 2, sgn * rng.uniform(10, 38, size=n), t)  # Gaussian tail, z up to ~720
    t = np.where(k == 3, sgn * 10.0 ** rng.uniform(1.5, 4, size=n), t)  # beyond underflow / Lorentz tail
    x = loc + scale * t
    if not conditioned:
        absx = sgn * 10.0 ** rng.uniform(-6, 6.3, size=n)
        x = np.where(k == 4, absx, x)
        x = np.where(k == 5, np.nextafter(loc, sgn * np.inf), x)
    if np.any(k == 0):
        ctx.hit('x == loc')
    if np.any(k == 2):
        ctx.hit('gaussian tail 10..38 sigma')
    return np.asarray(x, dtype=np.float64)


def make_x(rng, ctx, values, unit):
    """scalar / 1-d variable (and its class)."""
    values = np.asarray(values, dtype=np.float64)
    if values.size == 1 and rng.random() < 0.8:
        ctx.hit('scalar x')
        return sc.scalar(float(values[0]), unit=unit), 'scalar'
    dim = DIMS[int(rng.integers(0, len(DIMS)))]
    return sc.array(dims=[dim], values=values, unit=unit), ('1d' if values.size > 1 else '1d-len1')


def bits(v: sc.Variable):
    return (tuple(v.dims), tuple(v.shape), str(v.unit), str(v.dtype),
            np.ascontiguousarray(v.values).tobytes())


def shuffled(rng, d):
    keys = list(d)
    rng.shuffle(keys)
    return {k: d[k] for k in keys}


# -------------------------------------------------------- identity monitors ---
def safe_call(model, x, params):
    try:
        return model(x, **params)
    except Exception:  # noqa: BLE001  (the __call__ monitor has already judged it)
        return None


def data_of(y, xs):
    """Data array of a curve the model returned over the abscissae xs; None when the model did not return a
    curve over xs (reported by the __call__ monitor)."""
    if not isinstance(y, sc.Variable) or tuple(y.dims) != tuple(xs.dims) or tuple(y.shape) != tuple(xs.shape):
        return None
    return sc.DataArray(y, coords={xs.dim: xs})


def values_of(f, n):
    """float64 values of a result the identities can use: a Variable with n finite-or-not numbers; anything
    else (reported as result_type / wrong_shape by the __call__ monitor) gives None."""
    if not isinstance(f, sc.Variable):
        return None
    try:
        v = np.asarray(f.values, dtype=np.float64)
    except Exception:  # noqa: BLE001
        return None
    return v if v.shape == (n,) else None


def check_prefix_bitwise(ctx, results, what, case, kind):
    """results: list of (prefix, Variable | None)."""
    ok = [(p, r) for p, r in results if isinstance(r, sc.Variable)]
    if len(ok) < 2:
        return
    ref_p, ref = ok[0]
    ctx.event('prefix_bitwise.' + what)
    for p, r in ok[1:]:
        if bits(r) != bits(ref):
            ctx.violation('prefix_dependence',
                          f'{what} of {kind} differs between prefix {ref_p!r} and prefix {p!r}', case,
                          model=kind, quantity=what, prefix_class=prefix_class(p))
            return


def check_refusals(rng, ctx, model, names, good, extra_pool):
    """Three calls with a missing / an extra / an unknown name; judged by the __call__ monitor."""
    names = sorted(names)
    drop = names[int(rng.integers(0, len(names)))]
    bad = {k: v for k, v in good.items() if k != drop}
    safe_call(model, good['__x__'], {k: v for k, v in bad.items() if k != '__x__'})
    ex = extra_pool[int(rng.integers(0, len(extra_pool)))]
    if ex in names:
        ex = ex + '_'
    bad = dict(good)
    bad[ex] = good[drop]
    safe_call(model, good['__x__'], {k: v for k, v in bad.items() if k != '__x__'})
    bad = {k: v for k, v in good.items() if k != drop}
    r = rng.random()
    new = drop + 'x' if r < 0.3 else (drop[1:] if r < 0.6 and len(drop) > 1 else 'q' + drop)
    if new in names:
        new = new + '?'
    bad[new] = good[drop]
    safe_call(model, good['__x__'], {k: v for k, v in bad.items() if k != '__x__'})


def exact_pairs(rng, loc, scale, n):
    """Abscissae (xp, xm) with xp + xm == 2 loc exactly (both are floats by construction).

    Candidates: loc + d for arbitrary d, and loc + k q on a dyadic grid q ~ 2^-20 scale
    (locations drawn on that grid make every such pair exact); kept only when the
    error-free TwoSum proves xp + xm == 2 loc."""
    d0 = scale * 10.0 ** rng.uniform(-3, 1.5, size=n)
    q = 2.0 ** (np.floor(np.log2(scale)) - 20)
    xp = np.concatenate([loc + d0, loc + np.maximum(np.rint(d0 / q), 1.0) * q])
    xm = 2.0 * loc - xp
    good = pk.two_sum_exact(xp, xm, 2.0 * loc) & (xp != loc)
    return xp[good], xm[good]


def peak_identities(rng, ctx, model, prefix, kind, vals, pv, xunit, case):
    """Normalisation, symmetry, half maximum on one conditioned parameter set."""
    loc, scale, amp = vals['loc'], vals['scale'], vals['amplitude']
    params = {prefix + k: v for k, v in pv.items()}
    cond = 1.0 + abs(loc) / scale
    # -- normalisation
    xq, wq = pk.tan_nodes(loc, scale, 400)
    f = values_of(safe_call(model, sc.array(dims=['x'], values=xq, unit=xunit), params), len(xq))
    if f is not None:
        integral = pk.integrate(f, xq, wq, loc, scale)
        dev = float(abs(integral - LD(amp)) / abs(LD(amp)))
        ctx.event('normalisation.' + kind)
        ctx.dev('normalisation.' + kind + ' [relative]', dev)
        if not dev <= TOL_NORM:
            ctx.violation('normalisation', f'{kind}: integral = {float(integral)!r}, amplitude = {amp!r} '
                          f'(relative defect {dev:.3g} > {TOL_NORM:g})', case, model=kind, layer='identity')
    # -- symmetry on exactly representable pairs
    xp, xm = exact_pairs(rng, loc, scale, 8)
    if xp.size == 0:
        ctx.count('symmetry_no_exact_pair')
    else:
        xs = np.concatenate([xp, xm])
        f = values_of(safe_call(model, sc.array(dims=['x'], values=xs, unit=xunit), params), len(xs))
        if f is not None:
            fv = f.astype(LD)
            fp, fm = fv[: xp.size], fv[xp.size:]
            z = ((xp.astype(LD) - LD(loc)) / LD(scale)) ** 2 / 2 if kind != 'lorentz' else LD(0)
            tol = 2 * LD(pk.K * EPS) * (1 + z) * np.maximum(np.abs(fp), np.abs(fm)) + pk.FLOOR
            dev = float(np.max(np.abs(fp - fm) / tol))
            ctx.event('symmetry.' + kind)
            ctx.count('symmetry_pairs', int(xp.size))
            ctx.dev('symmetry.' + kind + ' [fraction of bound]', dev)
            if dev > 1.0:
                i = int(np.argmax(np.abs(fp - fm) / tol))
                c = dict(case)
                c['pair'] = {'xp_hex': float(xp[i]).hex(), 'xm_hex': float(xm[i]).hex(),
                             'f_xp': repr(fp[i]), 'f_xm': repr(fm[i])}
                ctx.violation('asymmetry', f'{kind}: f(loc+d) = {float(fp[i])!r} but f(loc-d) = {float(fm[i])!r}',
                              c, model=kind, layer='identity')
    # -- half maximum at loc +- fwhm/2 with the fwhm the model reports
    halfmax_identity(ctx, model, kind, params, params, loc, scale, xunit, case)


def halfmax_identity(ctx, model, kind, params, fwhm_params, loc, scale, xunit, case):
    """f(loc +- fwhm/2) = f(loc)/2 with the fwhm the model reports when asked with ``fwhm_params`` (the
    model's own dict, or -- as fit_peaks does -- the full dict of a composite that contains the model)."""
    cond = 1.0 + abs(loc) / scale
    try:
        w = model.fwhm(fwhm_params)
    except Exception:  # noqa: BLE001  (judged by the fwhm monitor)
        w = None
    if isinstance(w, sc.Variable) and w.ndim == 0 and w.unit == sc.Unit(xunit) and np.isfinite(w.value):
        half = float(w.value) / 2.0
        xs = np.array([loc, loc + half, loc - half], dtype=np.float64)
        f = values_of(safe_call(model, sc.array(dims=['x'], values=xs, unit=xunit), params), len(xs))
        if f is not None:
            fv = f.astype(LD)
            want = fv[0] / 2
            dev = np.abs(fv[1:] - want) / np.abs(want)
            units = float(np.max(dev)) / (EPS * cond)
            ctx.event('halfmax.' + kind)
            ctx.dev('halfmax.' + kind + ' [eps (1+|loc|/scale)]', units)
            if not units <= pk.K:
                c = dict(case)
                c['halfmax'] = {'fwhm_hex': float(w.value).hex(), 'f_loc': repr(fv[0]), 'f_plus': repr(fv[1]),
                                'f_minus': repr(fv[2])}
                ctx.violation('half_maximum', f'{kind}: f(loc +- fwhm/2)/f(loc) = {float(fv[1] / fv[0])!r}, '
                              f'{float(fv[2] / fv[0])!r} with the reported fwhm {w.value!r} (scale {scale!r}); '
                              f'off by {units:.3g} eps(1+|loc|/scale)', c, model=kind, layer='identity')


def bits_full(v):
    """Everything a returned parameter value consists of (values, variances, unit, dtype, shape); any
    other kind of object by its repr."""
    if not isinstance(v, sc.Variable):
        return ('not a Variable', type(v).__name__, repr(v)[:120])
    var = None if v.variances is None else np.ascontiguousarray(v.variances).tobytes()
    return (*bits(v), var)


def _names_of(answer):
    """The names in a dict the package returned; None when the answer is not a dict of strings (whatever
    the package returns is judged, never trusted to have the expected shape)."""
    if not isinstance(answer, dict) or not all(isinstance(k, str) for k in answer):
        return None
    return set(answer)


def judge_guess_names(ctx, spec, answer, case, seen_by):
    """The dict ``guess`` returned: exactly the documented names of the model (which are what ``__call__``
    accepts), every value a scalar Variable.  True when it has that shape."""
    names = spec_names(spec)
    got = _names_of(answer)
    kind = spec['kind']
    ctx.event('guess_names_judged')
    if got is None:
        ctx.violation('guess_type', f'{spec_str(spec)}.guess returned {type(answer).__name__}: {answer!r:.200}, '
                      f'expected a dict of parameter name -> value', case, model=kind, seen_by=seen_by)
        return False
    if got != names:
        missing, extra = names - got, got - names
        ctx.violation('guess_names', f'{spec_str(spec)}.guess returned names {sorted(got)}, the model accepts '
                      f'{sorted(names)} (missing {sorted(missing)}, not parameters {sorted(extra)})', case,
                      model=kind, where='guess', seen_by=seen_by,
                      own_prefix='empty' if spec['prefix'] == '' else 'non-empty')
        return False
    bad = {k: v for k, v in answer.items() if not (isinstance(v, sc.Variable) and v.ndim == 0)}
    if bad:
        ctx.violation('guess_type', f'{spec_str(spec)}.guess returned values that are not scalar variables: '
                      f'{ {k: repr(v)[:60] for k, v in bad.items()} }', case, model=kind, seen_by=seen_by)
        return False
    return True


def judge_bounds_names(ctx, spec, answer, case, seen_by):
    """``param_bounds``: a dict whose names are parameters of the model (omitted = unbounded), each value
    a (lower, upper) pair.  True when it has that shape."""
    names = spec_names(spec)
    got = _names_of(answer)
    kind = spec['kind']
    ctx.event('bounds_names_judged')
    if got is None:
        ctx.violation('bounds_type', f'{spec_str(spec)}.param_bounds is {type(answer).__name__}: {answer!r:.200}, '
                      f'expected a dict of parameter name -> (lower, upper)', case, model=kind, seen_by=seen_by)
        return False
    if not got <= names:
        ctx.violation('bounds_names', f'{spec_str(spec)}.param_bounds has names {sorted(got - names)} that are '
                      f'not parameters {sorted(names)}', case, model=kind, where='param_bounds', seen_by=seen_by,
                      own_prefix='empty' if spec['prefix'] == '' else 'non-empty')
        return False
    for k, v in answer.items():
        try:
            lo, hi = v
            ok = float(lo) <= float(hi)
        except Exception:  # noqa: BLE001  (not a pair of numbers)
            ok = False
        if not ok:
            ctx.violation('bounds_type', f'{spec_str(spec)}.param_bounds[{k!r}] = {v!r:.80} is not a '
                          f'(lower, upper) pair', case, model=kind, seen_by=seen_by)
            return False
    return True


def renamed(answer, strip, value_of):
    """A dict the package returned, keyed by the prefix-free name of every entry (documented naming);
    names that are not parameters of the model stay visible as '?name'."""
    return {strip(k): value_of(v) for k, v in answer.items()}


def check_guess_bounds(rng, ctx, models, y_of, kind, case, spec_of=None):
    """guess / param_bounds: same content under every prefix, names accepted by __call__.

    models: list of (model, prefix-map function name->name).  ``spec_of(model)`` gives the spec the model
    was built from (names judged here as well as by the monitors)."""
    gs, bs = [], []
    for i, (model, strip) in enumerate(models):
        spec = spec_of(model) if spec_of is not None else None
        data = y_of(model)
        if data is None:
            return
        try:
            g = model.guess(data)
        except Exception as e:  # noqa: BLE001
            if i == 0:
                ctx.count('guess_raised:' + type(e).__name__)  # nothing to compare with: not judged
            else:
                # the same data under another prefix was accepted
                ctx.violation('prefix_dependence', f'guess of {kind} raised {type(e).__name__}: {e} under one '
                              f'prefix and returned a result under another', case, model=kind, quantity='guess',
                              prefix_class='-')
            return
        if spec is not None:
            if not judge_guess_names(ctx, spec, g, case, 'harness'):
                return
        elif _names_of(g) is None:
            return  # judged by the monitor on guess
        gs.append(renamed(g, strip, bits_full))
        try:
            b = model.param_bounds
        except Exception as e:  # noqa: BLE001
            ctx.violation('bounds_raised', f'param_bounds of {kind} raised {type(e).__name__}: {e}', case,
                          model=kind)
            return
        if spec is not None:
            if not judge_bounds_names(ctx, spec, b, case, 'harness'):
                return
        elif _names_of(b) is None:
            return  # judged by the monitor on param_bounds
        bs.append(renamed(b, strip, repr))
        # round trip: the names guess returns are handed back to __call__ (judged by its monitor)
        safe_call(model, data.coords[data.dim], g)
    ctx.event('prefix_bitwise.guess')
    if any(g != gs[0] for g in gs[1:]):
        ctx.violation('prefix_dependence', f'guess of {kind} differs between prefixes', case, model=kind,
                      quantity='guess', prefix_class='-')
    ctx.event('prefix_bitwise.param_bounds')
    if any(b != bs[0] for b in bs[1:]):
        ctx.violation('prefix_dependence', f'param_bounds of {kind} differs between prefixes', case, model=kind,
                      quantity='param_bounds', prefix_class='-')


# --------------------------------------------------------------------- cases ---
def history_probe(m):
    """Do what a caller may do with what the model hands out (the returned name set and bounds dict are
    the caller's): on a model whose accessors return independent objects this changes nothing."""
    try:
        names = m.param_names
        names.add('__injected__')
        if len(names) > 1:
            names.discard(sorted(names)[0])
        bounds = m.param_bounds
        bounds.clear()
        bounds['__injected__'] = (0.0, 1.0)
    except Exception:  # noqa: BLE001
        pass
    return m


def build_leaf(M, spec):
    k = spec['kind']
    if k == 'gauss':
        return history_probe(M.GaussianModel(prefix=spec['prefix']))
    if k == 'lorentz':
        return history_probe(M.LorentzianModel(prefix=spec['prefix']))
    if k == 'pvoigt':
        return history_probe(M.PseudoVoigtModel(prefix=spec['prefix']))
    return history_probe(M.PolynomialModel(degree=spec['degree'], prefix=spec['prefix']))


def scale_band(s):
    return int(np.floor(np.log10(s) / 3))


def peak_case(rng, ctx, mon, M, kind, conditioned):
    vals, fcls = draw_peak_values(rng, ctx, kind, conditioned)
    xunit = X_UNITS[int(rng.integers(0, len(X_UNITS)))]
    aunit = A_UNITS[int(rng.integers(0, len(A_UNITS)))]
    pv = peak_vars(vals, xunit, aunit)
    p1 = draw_prefix(rng, ctx, avoid=('',))
    p2 = draw_prefix(rng, ctx, avoid=('', p1))
    ctx.hit('prefix:empty')
    m0 = build_leaf(M, {'kind': kind, 'prefix': ''})
    m1 = build_leaf(M, {'kind': kind, 'prefix': p1})
    m2 = (m0 if rng.random() < 0.5 else m1).with_prefix(p2)
    models = [(m0, ''), (m1, p1), (m2, p2)]
    n = 1 if rng.random() < 0.3 else int(rng.integers(2, 48))
    x, xcls = make_x(rng, ctx, draw_x_peak(rng, ctx, vals, conditioned, n), xunit)
    case = {'kind': kind, 'conditioned': conditioned, 'values_hex': {k: _hex(v) for k, v in vals.items()},
            'x_unit': xunit, 'amplitude_unit': aunit, 'prefixes': ['', p1, p2]}
    res = [(p, safe_call(m, x, shuffled(rng, {p + k: v for k, v in pv.items()}))) for m, p in models]
    check_prefix_bitwise(ctx, res, 'value', case, kind)
    # fwhm under every prefix
    ws = []
    for m, p in models:
        try:
            ws.append((p, m.fwhm({p + k: v for k, v in pv.items()})))
        except Exception:  # noqa: BLE001
            ws.append((p, None))
    check_prefix_bitwise(ctx, ws, 'fwhm', case, kind)
    which = int(rng.integers(0, 3))
    if conditioned:
        peak_identities(rng, ctx, models[which][0], models[which][1], kind, vals, pv, xunit, case)
    m, p = models[1 + int(rng.integers(0, 2))]
    good = {p + k: v for k, v in pv.items()}
    good['__x__'] = x
    check_refusals(rng, ctx, m, [p + k for k in pv], good,
                   ['extra', p + 'extra', p + 'a7', 'amplitude', 'fraction', p + 'fraction', p + p + 'loc',
                    p[:-1] + 'scale', 'λ'])
    if conditioned and rng.random() < 0.3:
        def y_of(model, _m0=m0):
            xs = sc.array(dims=['x'], values=vals['loc'] + vals['scale'] * np.linspace(-6, 6, 41), unit=xunit)
            y = safe_call(_m0, xs, dict(pv))
            return data_of(y, xs)
        check_guess_bounds(rng, ctx, [(mm, (lambda k, _p=pp: k[len(_p):])) for mm, pp in models], y_of, kind, case,
                           spec_of=mon.spec_of)
    sig = (kind, 'cond' if conditioned else 'wild', prefix_class(p1), xunit, aunit, xcls,
           scale_band(vals['scale']), vals['amplitude'] > 0, fcls)
    return sig, False, case


def draw_poly(rng, ctx, degree, xunit, yunit):
    ctx.hit(f'degree {degree}')
    style = int(rng.integers(0, 3))
    xmag = logu(rng, -3, 3)
    cs = []
    for i in range(degree + 1):
        s = 1.0 if rng.random() < 0.5 else -1.0
        if style == 0:
            c = s * logu(rng, -6, 6)
        elif style == 1:  # balanced terms at |x| ~ xmag: heavy cancellation is likely
            c = s * rng.uniform(0.5, 2.0) / xmag ** i
        else:
            c = s * logu(rng, -2, 2) if rng.random() < 0.75 else 0.0
        cs.append(float(c))
    if cs[-1] == 0.0:
        cs[-1] = 1.0
    uy, ux = sc.Unit(yunit), sc.Unit(xunit)
    pv = {f'a{i}': sc.scalar(c, unit=uy / ux ** i) for i, c in enumerate(cs)}
    return cs, pv, xmag


def draw_x_poly(rng, ctx, cs, xmag, n):
    k = rng.integers(0, 6, size=n)
    sgn = np.where(rng.random(n) < 0.5, 1.0, -1.0)
    x = sgn * xmag * rng.uniform(0.1, 3.0, size=n)
    x = np.where(k == 0, sgn * 10.0 ** rng.uniform(-3, 3, size=n), x)
    x = np.where(k == 1, 0.0, x)
    # near a real root of the polynomial (own computation): exercises the cancellation-aware bound
    try:
        roots = np.roots(cs[::-1])
        real = roots[np.abs(roots.imag) < 1e-9 * (1 + np.abs(roots.real))].real
        real = real[(np.abs(real) > 1e-4) & (np.abs(real) < 1e4)]
    except Exception:  # noqa: BLE001
        real = np.zeros(0)
    if real.size:
        r = real[rng.integers(0, real.size, size=n)]
        x = np.where(k == 2, r * (1 + rng.normal(0, 1e-12, size=n)), x)
        if np.any(k == 2):
            ctx.hit('polynomial near a root')
    return np.asarray(x, dtype=np.float64)


def poly_case(rng, ctx, mon, M):
    degree = int(rng.integers(1, 7))
    xunit = X_UNITS[int(rng.integers(0, len(X_UNITS)))]
    yunit = A_UNITS[int(rng.integers(0, len(A_UNITS)))]
    cs, pv, xmag = draw_poly(rng, ctx, degree, xunit, yunit)
    p1 = draw_prefix(rng, ctx, avoid=('',))
    p2 = draw_prefix(rng, ctx, avoid=('', p1))
    m0 = build_leaf(M, {'kind': 'poly', 'prefix': '', 'degree': degree})
    m1 = build_leaf(M, {'kind': 'poly', 'prefix': p1, 'degree': degree})
    m2 = (m0 if rng.random() < 0.5 else m1).with_prefix(p2)
    models = [(m0, ''), (m1, p1), (m2, p2)]
    n = 1 if rng.random() < 0.3 else int(rng.integers(2, 48))
    x, xcls = make_x(rng, ctx, draw_x_poly(rng, ctx, cs, xmag, n), xunit)
    case = {'kind': 'poly', 'degree': degree, 'coeffs_hex': [_hex(c) for c in cs], 'x_unit': xunit,
            'y_unit': yunit, 'prefixes': ['', p1, p2]}
    res = [(p, safe_call(m, x, shuffled(rng, {p + k: v for k, v in pv.items()}))) for m, p in models]
    check_prefix_bitwise(ctx, res, 'value', case, 'poly')
    m, p = models[1 + int(rng.integers(0, 2))]
    good = {p + k: v for k, v in pv.items()}
    good['__x__'] = x
    check_refusals(rng, ctx, m, [p + k for k in pv], good,
                   ['extra', p + f'a{degree + 1}', p + 'a', f'a{degree + 1}', 'a0', p + p + 'a0', p + 'amplitude'])
    try:
        m.fwhm({k: v for k, v in good.items() if k != '__x__'})
    except Exception:  # noqa: BLE001  (judged by the monitor on Model.fwhm)
        pass
    if rng.random() < 0.3:
        def y_of(model, _m0=m0):
            xs = sc.array(dims=['x'], values=xmag * np.linspace(-2, 2, 31), unit=xunit)
            y = safe_call(_m0, xs, dict(pv))
            return data_of(y, xs)
        check_guess_bounds(rng, ctx, [(mm, (lambda k, _p=pp: k[len(_p):])) for mm, pp in models], y_of, 'poly', case,
                           spec_of=mon.spec_of)
    sig = ('poly', degree, prefix_class(p1), xunit, yunit, xcls, int(np.floor(np.log10(xmag))))
    return sig, False, case


def draw_tree(rng, ctx, n_parts):
    """Plan of a composite: shape of the tree and the kinds of the leaves (no prefixes yet)."""
    kinds = ['gauss', 'lorentz', 'pvoigt', 'poly']
    leaves = [kinds[int(rng.integers(0, 4))] for _ in range(n_parts)]
    if n_parts == 2:
        return ('c', leaves[0], leaves[1])
    if rng.random() < 0.5:
        return ('c', ('c', leaves[0], leaves[1]), leaves[2])
    return ('c', leaves[0], ('c', leaves[1], leaves[2]))


def assign_prefixes(rng, ctx, tree, leaf_prefixes, comp_prefixes):
    """Turn a tree plan into a spec using the given prefix pools (consumed left to right)."""
    if isinstance(tree, str):
        spec = {'kind': tree, 'prefix': leaf_prefixes.pop(0)}
        return spec
    _, left, right = tree
    ls = assign_prefixes(rng, ctx, left, leaf_prefixes, comp_prefixes)
    rs = assign_prefixes(rng, ctx, right, leaf_prefixes, comp_prefixes)
    return {'kind': 'comp', 'prefix': comp_prefixes.pop(0), 'left': ls, 'right': rs}


def n_leaves(tree):
    return 1 if isinstance(tree, str) else n_leaves(tree[1]) + n_leaves(tree[2])


def n_comps(tree):
    return 0 if isinstance(tree, str) else 1 + n_comps(tree[1]) + n_comps(tree[2])


def leaves_of(spec):
    if spec['kind'] == 'comp':
        return leaves_of(spec['left']) + leaves_of(spec['right'])
    return [spec]


def build_model(rng, M, spec, use_add):
    if spec['kind'] != 'comp':
        return build_leaf(M, spec)
    left = build_model(rng, M, spec['left'], use_add)
    right = build_model(rng, M, spec['right'], use_add)
    if spec['prefix'] == '' and use_add:
        return history_probe(left + right)
    return history_probe(M.CompositeModel(left, right, prefix=spec['prefix']))


def full_params(spec, leaf_values, acc=''):
    """Full parameter dict of a spec; leaf_values: list (in leaf order) of dict base name -> Variable."""
    out = {}
    it = iter(leaf_values)

    def walk(s, pre):
        pre = pre + s['prefix']
        if s['kind'] == 'comp':
            walk(s['left'], pre)
            walk(s['right'], pre)
        else:
            vals = next(it)
            for k, v in vals.items():
                out[pre + k] = v
    walk(spec, acc)
    return out


def composite_case(rng, ctx, mon, M):
    n_parts = 2 if rng.random() < 0.6 else 3
    tree = draw_tree(rng, ctx, n_parts)
    xunit = X_UNITS[int(rng.integers(0, len(X_UNITS)))]
    yunit = A_UNITS[int(rng.integers(0, len(A_UNITS)))]
    aunit = sc.Unit(yunit) * sc.Unit(xunit)
    # leaf values: peaks close to each other so that no part is negligible
    centre = logu(rng, -3, 3) * (1.0 if rng.random() < 0.5 else -1.0)
    width = abs(centre) * logu(rng, -3, 0) if rng.random() < 0.7 else logu(rng, -4, 4)
    width = float(np.clip(width, 1e-6, 1e6))
    leaf_values, leaf_kinds = [], []

    def collect(t):
        if isinstance(t, str):
            leaf_kinds.append(t)
        else:
            collect(t[1])
            collect(t[2])
    collect(tree)
    degs = []
    for k in leaf_kinds:
        if k == 'poly':
            deg = int(rng.integers(1, 7))
            cs, pv, _ = draw_poly(rng, ctx, deg, xunit, yunit)
            # make it comparable with the peaks around the centre
            degs.append(deg)
            leaf_values.append(pv)
        else:
            vals, _ = draw_peak_values(rng, ctx, k, True)
            vals['scale'] = float(np.clip(width * logu(rng, -1, 1), 1e-6, 1e6))
            vals['loc'] = centre + width * float(rng.uniform(-2, 2))
            degs.append(None)
            leaf_values.append(peak_vars(vals, xunit, aunit))

    def mk_spec(leaf_pre, comp_pre):
        spec = assign_prefixes(rng, ctx, tree, list(leaf_pre), list(comp_pre))
        for leaf, d in zip(leaves_of(spec), degs, strict=True):
            if d is not None:
                leaf['degree'] = d
        return spec

    nl, nc = n_leaves(tree), n_comps(tree)
    # variant A: plain distinct prefixes; variant B: mutually nested / leading-character / unicode prefixes
    plain = ['p_', 'n_', 'g1_', 'bkg_', 'q2', 'Z']
    rng.shuffle(plain)
    spec_a = mk_spec(plain[:nl], [''] * nc)
    pair = NESTED_PAIRS[int(rng.integers(0, len(NESTED_PAIRS)))]
    pool = list(pair) + [draw_prefix(rng, ctx, avoid=pair)]
    rng.shuffle(pool)
    comp_pre = [draw_prefix(rng, ctx) if rng.random() < 0.6 else '' for _ in range(nc)]
    spec_b = mk_spec(pool[:nl], comp_pre)
    ctx.hit('prefix:nested pair')
    specs = [spec_a, spec_b]
    models = []
    for i, spec in enumerate(specs):
        # overlapping names are refused by the constructor (counted by the monitor): skip the variant
        try:
            m = build_model(rng, M, spec, use_add=bool(rng.integers(0, 2)))
        except ValueError:
            ctx.count('composite_variant_refused')
            continue
        if mon.spec_of(m) is None:
            ctx.count('composite_variant_unregistered')
            continue
        if mon.spec_of(m) != spec:
            ctx.inconclusive_because('harness: observed composite structure differs from the plan: '
                                     f'{spec_str(mon.spec_of(m))} vs {spec_str(spec)}')
            continue
        models.append((m, spec))
    if models and rng.random() < 0.7:
        m, spec = models[-1]
        p3 = draw_prefix(rng, ctx)
        m3 = m.with_prefix(p3)
        s3 = dict(spec)
        s3['prefix'] = p3
        models.append((m3, s3))
    n = 1 if rng.random() < 0.25 else int(rng.integers(2, 40))
    xv = centre + width * rng.uniform(-6, 6, size=n)
    if rng.random() < 0.3:
        xv[0] = centre
    x, xcls = make_x(rng, ctx, xv, xunit)
    case = {'kind': 'comp', 'tree': repr(tree), 'x_unit': xunit, 'y_unit': yunit,
            'specs': [spec_str(s) for _, s in models],
            'leaf_values': [describe_params(v) for v in leaf_values]}
    res = []
    for m, spec in models:
        params = shuffled(rng, full_params(spec, leaf_values))
        res.append((spec_str(spec), safe_call(m, x, params)))
    check_prefix_bitwise(ctx, res, 'value', case, 'comp')
    if models:
        m, spec = models[int(rng.integers(0, len(models)))]
        good = full_params(spec, leaf_values)
        names = list(good)
        good['__x__'] = x
        sub = leaves_of(spec)[0]
        check_refusals(rng, ctx, m, names, good,
                       ['extra', spec['prefix'] + 'extra', sub['prefix'] + 'loc', 'amplitude', 'a0',
                        spec['prefix'] + 'a9', names[0] + names[0]])
        try:
            m.fwhm({k: v for k, v in good.items() if k != '__x__'})
        except Exception:  # noqa: BLE001  (judged by the monitor on Model.fwhm)
            pass
        if rng.random() < 0.25:
            def strip_for(spec):
                # map full names to prefix-free leaf-indexed names using the documented naming
                table = {}
                idx = [0]

                def walk(s, pre):
                    pre = pre + s['prefix']
                    if s['kind'] == 'comp':
                        walk(s['left'], pre)
                        walk(s['right'], pre)
                    else:
                        for b in base_names(s):
                            table[pre + b] = f'{idx[0]}:{b}'
                        idx[0] += 1
                walk(spec, '')
                return lambda k: table.get(k, '?' + k)

            def y_of(model):
                xs = sc.array(dims=['x'], values=centre + width * np.linspace(-6, 6, 41), unit=xunit)
                sp = mon.spec_of(model)
                y = safe_call(model, xs, full_params(sp, leaf_values)) if sp else None
                return data_of(y, xs)
            check_guess_bounds(rng, ctx, [(mm, strip_for(ss)) for mm, ss in models], y_of, 'comp', case,
                               spec_of=mon.spec_of)
    sig = ('comp', repr(tree), tuple(sorted(set(leaf_kinds))), xunit, yunit, xcls, len(models))
    return sig, False, case


# ------------------------------------------------- families of related prefixes ---
# bases used by the deterministic family cases of every shard: long enough (>= 3 characters, with a
# digit) for every relation below to exist
NUMBERED = ['p1_', 'g2_', 'pk1_', 'peak_1_', 'n01', 'bkg1_', 'λ1_']
_ALT = 'qZ7_-λ'

REL_LAST = 'same length, last character differs'
REL_FIRST = 'same length, first character differs'
REL_INNER = 'same length, inner character differs'
REL_ALL = 'same length, every character differs'
REL_REV = 'same length, reversed'
REL_EXT = 'base is a proper prefix of it'
REL_DBL = 'base doubled'
REL_CUT = 'it is a proper prefix of base'
REL_LONG = 'longer, unrelated text'
REL_SHORT = 'shorter, unrelated text'
REL_EMPTY = 'empty'
RELATIONS = [REL_LAST, REL_FIRST, REL_INNER, REL_ALL, REL_REV, REL_EXT, REL_DBL, REL_CUT, REL_LONG, REL_SHORT,
             REL_EMPTY]

# kinds of parameter dicts a caller produces for model i of a family (labels for the evidence)
DK_COMP_FIRST = 'composite dict, own entries first'
DK_COMP_LAST = 'composite dict, own entries last'
DK_COMP_SHUF = 'composite dict, shuffled'
DK_SIB = 'sibling names, sibling values'
DK_SIB_OWNVAL = 'sibling names, own values'
DK_OWN_SIB = 'own + sibling'
DK_SIB_OWN = 'sibling + own'
DK_SWAP1 = 'one name taken from the sibling'
DK_MIXED = 'names mixed between own and sibling'
DICT_KINDS = [DK_COMP_FIRST, DK_COMP_LAST, DK_COMP_SHUF, DK_SIB, DK_SIB_OWNVAL, DK_OWN_SIB, DK_SIB_OWN, DK_SWAP1,
              DK_MIXED]


def _other(c, k=0):
    for ch in _ALT[k:] + _ALT[:k]:
        if ch != c:
            return ch
    return 'q'


def prefix_family(rng, base):
    """[(relation to base, prefix)]: the base and sibling prefixes related to it in every way two prefixes
    can be related (equal length with different text in the first / an inner / the last / every position,
    one a proper prefix of the other in both directions, longer / shorter unrelated text, empty).  Derived
    generically from any non-empty base; duplicates (short bases) are dropped."""
    n = len(base)
    every = ''.join(_other(c, 2) for c in base)
    fam = [('base', base),
           (REL_LAST, base[:-1] + _other(base[-1])),
           (REL_FIRST, _other(base[0], 1) + base[1:])]
    if n >= 3:
        i = 1 + int(rng.integers(0, n - 2))
        c = base[i]
        fam.append((REL_INNER, base[:i] + (str((int(c) + 1) % 10) if c in '0123456789' else _other(c, 3))
                    + base[i + 1:]))
    digits = [i for i, c in enumerate(base) if c in '0123456789']
    if digits:  # the numbered sibling: p1_ -> p2_
        i = digits[-1]
        fam.append((REL_INNER if 0 < i < n - 1 else (REL_LAST if i == n - 1 else REL_FIRST),
                    base[:i] + str((int(base[i]) + 1) % 10) + base[i + 1:]))
    fam += [(REL_ALL, every), (REL_REV, base[::-1]), (REL_EXT, base + base[-1]), (REL_DBL, base + base),
            (REL_CUT, base[:-1]), (REL_LONG, every + 'x'), (REL_SHORT, every[:-1]), (REL_EMPTY, '')]
    out, seen = [], set()
    for rel, p in fam:
        if p not in seen:
            seen.add(p)
            out.append((rel, p))
    return out


def relation_of(p, q):
    """Relation of prefix q to prefix p (for witnesses)."""
    if len(p) == len(q):
        return 'same length'
    if q.startswith(p) or p.startswith(q):
        return 'one a prefix of the other'
    return 'different length'


def name_map(spec):
    """full parameter name -> 'leaf index:base name' from the documented naming of the spec."""
    table = {}
    idx = [0]

    def walk(s, pre):
        pre = pre + s['prefix']
        if s['kind'] == 'comp':
            walk(s['left'], pre)
            walk(s['right'], pre)
        else:
            for b in base_names(s):
                table[pre + b] = f'{idx[0]}:{b}'
            idx[0] += 1
    walk(spec, '')
    return lambda k: table.get(k, '?' + k)


def family_case(rng, ctx, mon, M, kind, base):
    """One family: the same model under a base prefix and every related sibling prefix, evaluated and asked
    for fwhm / guess / param_bounds with every kind of parameter dict a caller holds: exactly its own, the
    full dict of the composite of the whole family (what fit_peaks hands to ``peak.fwhm``), own + one
    sibling in both orders, the sibling's names (with the sibling's or with its own values) and mixtures.
    Every sibling has its own parameter values, so a result taken from a foreign entry differs."""
    fam = prefix_family(rng, base)
    for rel, _ in fam[1:]:
        ctx.hit('family: ' + rel)
    xunit = X_UNITS[int(rng.integers(0, len(X_UNITS)))]
    yunit = A_UNITS[int(rng.integers(0, len(A_UNITS)))]
    aunit = sc.Unit(yunit) * sc.Unit(xunit)
    centre = logu(rng, -3, 3) * (1.0 if rng.random() < 0.5 else -1.0)
    width = abs(centre) * logu(rng, -3, 0) if rng.random() < 0.7 else logu(rng, -4, 4)
    width = float(np.clip(width, 1e-6, 1e6))
    degree = int(rng.integers(1, 7))
    if kind == 'comp':
        lp, rp = NESTED_PAIRS[int(rng.integers(0, len(NESTED_PAIRS)))] if rng.random() < 0.5 else ('b_', 'g_')
        pk_kind = PEAKS[int(rng.integers(0, 3))]
        leaf_kinds = ['poly', pk_kind]

        def spec_for(p):
            return {'kind': 'comp', 'prefix': p, 'left': {'kind': 'poly', 'prefix': lp, 'degree': degree},
                    'right': {'kind': pk_kind, 'prefix': rp}}
    elif kind == 'poly':
        leaf_kinds = ['poly']

        def spec_for(p):
            return {'kind': 'poly', 'prefix': p, 'degree': degree}
    else:
        leaf_kinds = [kind]

        def spec_for(p):
            return {'kind': kind, 'prefix': p}

    def draw_values():
        out, num = [], []
        for k in leaf_kinds:
            if k == 'poly':
                _, pv, _ = draw_poly(rng, ctx, degree, xunit, yunit)
                out.append(pv)
                num.append(None)
            else:
                vals, _ = draw_peak_values(rng, ctx, k, True)
                vals['scale'] = float(np.clip(width * logu(rng, -1, 1), 1e-6, 1e6))
                vals['loc'] = centre + width * float(rng.uniform(-2, 2))
                out.append(peak_vars(vals, xunit, aunit))
                num.append(vals)
        return out, num

    # ---- the members: half built by the constructor, half by with_prefix from an earlier member
    members = []  # (model, spec, leaf values, numeric peak values, relation)
    for i, (rel, p) in enumerate(fam):
        spec = spec_for(p)
        if i > 0 and rng.random() < 0.5:
            m = members[int(rng.integers(0, len(members)))][0].with_prefix(p)
        else:
            m = build_model(rng, M, spec, use_add=False)
        if mon.spec_of(m) != spec:
            ctx.inconclusive_because('harness: observed family member differs from the plan: '
                                     f'{mon.spec_of(m)} vs {spec_str(spec)}')
            continue
        lv, num = draw_values()
        members.append((m, spec, lv, num, rel))
    n = int(rng.integers(2, 8))
    x, xcls = make_x(rng, ctx, centre + width * rng.uniform(-6, 6, size=n), xunit)
    case = {'kind': kind, 'family': [[rel, sp['prefix']] for _, sp, _, _, rel in members], 'x_unit': xunit,
            'y_unit': yunit, 'member': spec_str(spec_for(base)),
            'values': [[describe_params(v) for v in lv] for _, _, lv, _, _ in members]}
    is_peak = kind in PEAKS

    def fwhm_of(m, params):
        try:
            return m.fwhm(params)
        except Exception:  # noqa: BLE001  (judged by the fwhm monitors)
            return None

    # ---- round A: the SAME values under every prefix -> bitwise equal value / fwhm / guess / bounds
    common = members[0][2]
    mon.dict_kind = None
    res = [(sp['prefix'], safe_call(m, x, shuffled(rng, full_params(sp, common)))) for m, sp, *_ in members]
    check_prefix_bitwise(ctx, res, 'value', case, kind)
    ws = [(sp['prefix'], fwhm_of(m, full_params(sp, common))) for m, sp, *_ in members]
    if is_peak:
        check_prefix_bitwise(ctx, ws, 'fwhm', case, kind)

    def y_of(model):
        xs = sc.array(dims=['x'], values=centre + width * np.linspace(-6, 6, 41), unit=xunit)
        sp = mon.spec_of(model)
        y = safe_call(model, xs, full_params(sp, common)) if sp else None
        return data_of(y, xs)
    check_guess_bounds(rng, ctx, [(m, name_map(sp)) for m, sp, *_ in members], y_of, kind, case,
                       spec_of=mon.spec_of)

    # ---- round B: every member has its own values
    own = [full_params(sp, lv) for _, sp, lv, _, _ in members]
    full = {}
    for d in own:
        full.update(d)
    disjoint = len(full) == sum(len(d) for d in own)
    if not disjoint:
        ctx.count('family_names_overlap')  # cannot happen with the documented naming; then nothing below is sound
        return ('family', kind, 'overlap'), False, case
    # the composite that contains the whole family, as a caller builds it (m0 + m1 + ...), evaluated with
    # the full dict: judged pointwise and part by part by the __call__ monitor
    try:
        big = members[0][0]
        for m, *_ in members[1:]:
            big = (big + m) if rng.random() < 0.7 else (m + big)
        safe_call(big, x, shuffled(rng, full))
        ctx.event('family_composite')
    except Exception:  # noqa: BLE001
        ctx.count('family_composite_not_built')

    def ask(i, label, params, superset):
        """model i evaluated and asked for its fwhm with ``params`` (not its own dict)."""
        m, sp, _, num, _ = members[i]
        mon.dict_kind = label
        safe_call(m, x, params)  # names differ from the model's own: the monitor demands a refusal
        if is_peak:
            w = fwhm_of(m, params)
            if superset and isinstance(w, sc.Variable) and isinstance(w_own[i], sc.Variable):
                ctx.event('fwhm_superset_bitwise')
                if bits(w) != bits(w_own[i]):
                    c = dict(case)
                    c['asked'] = {'model': spec_str(sp), 'dict_kind': label, 'params': describe_params(params)}
                    ctx.violation('fwhm_depends_on_foreign_entries',
                                  f'{spec_str(sp)}.fwhm = {w.value!r} with a dict that holds its own parameters '
                                  f'and others ({label}), {w_own[i].value!r} with its own parameters alone',
                                  c, model=kind, names=label)
        mon.dict_kind = None

    mon.dict_kind = None
    w_own = []
    for (m, sp, _, num, _), d in zip(members, own, strict=True):
        safe_call(m, x, shuffled(rng, d))
        w_own.append(fwhm_of(m, d) if is_peak else None)
    nm = len(members)
    pairs = []
    for j in range(1, nm):
        pairs.append((0, j))  # the base against every relative
        pairs.append((j, 0))  # every relative against the base
        k = int(rng.integers(1, nm))
        if k != j:
            pairs.append((j, k))
    for i in range(nm):
        rest = shuffled(rng, {k: v for k, v in full.items() if k not in own[i]})
        ask(i, DK_COMP_FIRST, {**own[i], **rest}, True)
        ask(i, DK_COMP_LAST, {**rest, **own[i]}, True)
        ask(i, DK_COMP_SHUF, shuffled(rng, full), True)
        if is_peak:
            # half maximum with the fwhm reported for the full dict (what fit_peaks does with popt)
            num = members[i][3][0]
            halfmax_identity(ctx, members[i][0], kind, own[i], {**rest, **own[i]}, num['loc'], num['scale'],
                             xunit, case)
    for i, j in pairs:
        spi, spj = members[i][1], members[j][1]
        ctx.count('family_pair:' + relation_of(spi['prefix'], spj['prefix']))
        ask(i, DK_SIB, dict(own[j]), False)
        ask(i, DK_SIB_OWNVAL, full_params(spj, members[i][2]), False)
        ask(i, DK_OWN_SIB, {**own[i], **own[j]}, True)
        ask(i, DK_SIB_OWN, {**own[j], **own[i]}, True)
        ni, nj = list(own[i]), list(own[j])  # corresponding names (same structure, same order)
        t = next((t for t, k in enumerate(ni) if k.endswith('scale')), 0) if rng.random() < 0.5 else \
            int(rng.integers(0, len(ni)))
        ask(i, DK_SWAP1, {(nj[u] if u == t else ni[u]): (own[j][nj[u]] if u == t else own[i][ni[u]])
                          for u in range(len(ni))}, False)
        take = rng.random(len(ni)) < 0.5
        take[int(rng.integers(0, len(ni)))] = True
        if take.all():
            take[int(rng.integers(0, len(ni)))] = False
        ask(i, DK_MIXED, {(nj[u] if take[u] else ni[u]): (own[j][nj[u]] if take[u] else own[i][ni[u]])
                          for u in range(len(ni))}, False)
    sig = ('family', kind, prefix_class(base), min(len(base), 6), xunit, yunit, xcls)
    return sig, False, case


# ------------------------- guess / param_bounds / param_names under every way to carry prefixes ---
# "Results are independent of the parameter-name prefix" (prefix handling in guess, param_bounds): a prefix
# can sit on a leaf, on a composite (given to the constructor or attached with with_prefix), on a composite
# nested in another composite (left or right, the outer one with or without a prefix of its own), and on
# several of these at once.  For every such structure the estimate is compared with the estimate of the
# same tree with plain distinct leaf prefixes and no composite prefix (under the documented renaming), for
# every way the data can name the independent variable: coord not given, the dimension-coordinate by
# name, another coordinate of the data (other unit, other values), data with variances.
GC_LEAF = 'guess: leaf with a prefix'
GC_CTOR = 'guess: composite with its own prefix (constructor)'
GC_WITH = 'guess: composite with its own prefix (with_prefix)'
GC_NEST_L = 'guess: prefixed composite nested as the left part'
GC_NEST_R = 'guess: prefixed composite nested as the right part'
GC_NEST_BOTH = 'guess: prefixed composite inside a prefixed composite'
GC_OUTER_ONLY = 'guess: un-prefixed composite inside a prefixed composite'
GC_LEAVES = 'guess: related leaf prefixes inside a prefixed composite'
GC_BARE_LEAF = 'guess: un-prefixed leaf inside a prefixed composite'
GC_REPREFIX = 'guess: prefixed composite given another prefix'
GC_UNPREFIX = 'guess: prefixed composite given the empty prefix'
GM_NONE = 'guess: coord not given'
GM_DIM = 'guess: coord = the dimension-coordinate by name'
GM_OTHER = 'guess: coord = another coordinate of the data'
GM_VAR = 'guess: data with variances'
GUESS_CLASSES = [GC_LEAF, GC_CTOR, GC_WITH, GC_NEST_L, GC_NEST_R, GC_NEST_BOTH, GC_OUTER_ONLY, GC_LEAVES,
                 GC_BARE_LEAF, GC_REPREFIX, GC_UNPREFIX, GM_NONE, GM_DIM, GM_OTHER, GM_VAR]

GUESS_SHAPES = {'pair': ('c', 0, 1), 'nested left': ('c', ('c', 0, 1), 2), 'nested right': ('c', 0, ('c', 1, 2))}
CANONICAL_LEAF_PREFIXES = ['b_', 'g_', 'h_']


def shape_spec(shape, leaves, comp_prefixes):
    """Spec of a tree shape (leaf indices at the tips); composite prefixes are consumed outermost first."""
    comp_prefixes = list(comp_prefixes)

    def walk(t):
        if isinstance(t, int):
            return dict(leaves[t])
        p = comp_prefixes.pop(0)
        return {'kind': 'comp', 'prefix': p, 'left': walk(t[1]), 'right': walk(t[2])}
    return walk(shape)


def full_names(spec, acc=''):
    pre = acc + spec['prefix']
    if spec['kind'] == 'comp':
        return full_names(spec['left'], pre) + full_names(spec['right'], pre)
    return [pre + b for b in base_names(spec)]


def names_disjoint(spec):
    """No two parameters of the tree share a name, at any level (such trees are refused by the constructor:
    the documentation asks the caller to disambiguate)."""
    if spec['kind'] != 'comp':
        return True
    ln, rn = spec_names(spec['left']), spec_names(spec['right'])
    return not (ln & rn) and names_disjoint(spec['left']) and names_disjoint(spec['right'])


def build_prefixed(M, spec, how):
    """The model of a spec; every non-empty prefix is given to the constructor (how='constructor') or
    attached afterwards with with_prefix (how='with_prefix'); un-prefixed composites are made with +."""
    p = spec['prefix']
    if spec['kind'] != 'comp':
        if p == '' or how == 'constructor':
            return build_leaf(M, spec)
        return history_probe(build_leaf(M, {**spec, 'prefix': ''}).with_prefix(p))
    left, right = build_prefixed(M, spec['left'], how), build_prefixed(M, spec['right'], how)
    if p == '':
        return history_probe(left + right)
    if how == 'constructor':
        return history_probe(M.CompositeModel(left, right, prefix=p))
    return history_probe((left + right).with_prefix(p))


def guess_data(rng, xunit, tunit, yunit, dim, tname):
    """Data with a peak on a sloping background (own numbers), irregular abscissae; three coordinates: the
    dimension-coordinate, another parametrisation of the axis in another unit, and a decoy."""
    n = int(rng.integers(30, 60))
    u = np.sort(rng.uniform(-6, 6, size=n))
    centre = logu(rng, -2, 3) * (1.0 if rng.random() < 0.5 else -1.0)
    width = logu(rng, -2, 2)
    c2 = logu(rng, -2, 3) * (1.0 if rng.random() < 0.5 else -1.0)
    w2 = logu(rng, -2, 2) * (1.0 if rng.random() < 0.7 else -1.0)
    xs = centre + width * u
    ts = c2 + w2 * (u + 0.04 * u * u)
    ymag = logu(rng, -2, 3)
    sign = 1.0 if rng.random() < 0.7 else -1.0
    yv = ymag * (0.3 + 0.05 * u + sign * 2.0 * np.exp(-0.5 * ((u - 0.7) / 0.8) ** 2) + 0.01 * rng.normal(size=n))
    data = sc.DataArray(sc.array(dims=[dim], values=yv, unit=yunit),
                        coords={dim: sc.array(dims=[dim], values=xs, unit=xunit),
                                tname: sc.array(dims=[dim], values=ts, unit=tunit),
                                'decoy': sc.array(dims=[dim], values=rng.uniform(1, 2, size=n), unit='K')})
    with_var = data.copy()
    with_var.variances = (0.05 * ymag) ** 2 * (1.0 + rng.uniform(size=n))
    rekeyed = sc.DataArray(data.data, coords={dim: data.coords[tname]})
    return data, with_var, rekeyed


def ask_guess(model, data, coord, explicit):
    """('ok', answer) / ('raised', exception)."""
    try:
        return 'ok', (model.guess(data, coord=coord) if explicit else model.guess(data))
    except Exception as e:  # noqa: BLE001
        return 'raised', e


def judge_guess_model(ctx, model, spec, structure, modes, rekeyed, ref, case):
    """One model against the reference answers ``ref`` (None for the reference itself, which is judged for
    names / coordinates / round trip and fills the dict it returns).

    Returns {mode label: renamed answer | None, 'bounds': renamed bounds | None}."""
    kind = 'comp' if spec['kind'] == 'comp' else spec['kind']
    strip = name_map(spec)
    names = spec_names(spec)
    c0 = dict(case)
    c0['model'] = spec_str(spec)
    c0['structure'] = structure
    out = {}
    shaped = {}
    for label, data, coord, explicit, xname in modes:
        c = dict(c0)
        c['mode'] = label
        status, g = ask_guess(model, data, coord, explicit)
        out[label] = None
        if status == 'raised':
            if ref is None or ref.get(label) is None:
                ctx.count('guess_raised:' + type(g).__name__)  # nothing it could be compared with
            else:
                ctx.violation('prefix_dependence',
                              f'guess of {spec_str(spec)} raised {type(g).__name__}: {g} for data the same tree '
                              f'with plain prefixes gave an estimate for ({label})', c, model=kind,
                              quantity='guess', prefix_class='-')
            continue
        if not judge_guess_names(ctx, spec, g, c, 'harness'):
            continue
        shaped[label] = g
        out[label] = renamed(g, strip, bits_full)
        if ref is not None and ref.get(label) is not None:
            ctx.event('prefix_bitwise.guess')
            ctx.event('guess_values_judged: ' + structure)
            if out[label] != ref[label]:
                diff = sorted(k for k in out[label] if out[label][k] != ref[label].get(k))
                ctx.violation('prefix_dependence',
                              f'guess of {spec_str(spec)} differs from the guess of the same tree with plain '
                              f'prefixes in {diff} ({label})', c, model=kind, quantity='guess', prefix_class='-')
        # round trip: what guess returns is what __call__ takes (values judged by the __call__ monitor).  Not
        # for data with variances: the estimate then carries variances, and scipp refuses to broadcast a scalar
        # with variances over x -- parameters with variances are outside the property's quantifier
        if data.variances is not None:
            continue
        xcoord = data.coords[xname]
        try:
            r = model(xcoord, **g)
        except Exception as e:  # noqa: BLE001
            ctx.violation('guess_not_accepted',
                          f'{spec_str(spec)}(x, **guess(data)) raised {type(e).__name__}: {e} ({label})', c,
                          model=kind, exc=type(e).__name__)
            continue
        ctx.event('guess_roundtrip')
        if (not isinstance(r, sc.Variable) or r.unit != data.unit or tuple(r.dims) != tuple(xcoord.dims)
                or tuple(r.shape) != tuple(xcoord.shape)):
            got = f'{r.dims}{r.shape} in {r.unit}' if isinstance(r, sc.Variable) else type(r).__name__
            ctx.violation('guess_roundtrip_unit',
                          f'{spec_str(spec)}(x, **guess(data)) is {got}; the data are '
                          f'{data.dims}{data.shape} in {data.unit} ({label})', c, model=kind)
    # the coordinate the estimate is made from
    if GM_NONE in shaped and GM_DIM in shaped:
        ctx.event('guess_coord_judged')
        if out[GM_NONE] != out[GM_DIM]:
            ctx.violation('guess_coord', f'guess of {spec_str(spec)} differs between coord not given and coord = '
                          f'the name of the dimension-coordinate', c0, model=kind, relation='default')
    if GM_OTHER in shaped:
        status, g = ask_guess(model, rekeyed, None, False)
        if status == 'ok' and _names_of(g) == names:
            ctx.event('guess_coord_judged')
            if renamed(g, strip, bits_full) != out[GM_OTHER]:
                ctx.violation('guess_coord', f'guess of {spec_str(spec)} with coord = another coordinate differs '
                              f'from the guess for the same numbers given as the dimension-coordinate', c0,
                              model=kind, relation='named')
    # bounds and names
    out['bounds'] = None
    try:
        b = model.param_bounds
    except Exception as e:  # noqa: BLE001
        ctx.violation('bounds_raised', f'param_bounds of {spec_str(spec)} raised {type(e).__name__}: {e}', c0,
                      model=kind)
        b = None
    if b is not None and judge_bounds_names(ctx, spec, b, c0, 'harness'):
        out['bounds'] = renamed(b, strip, repr)
        if ref is not None and ref.get('bounds') is not None:
            ctx.event('prefix_bitwise.param_bounds')
            if out['bounds'] != ref['bounds']:
                ctx.violation('prefix_dependence',
                              f'param_bounds of {spec_str(spec)}: {out["bounds"]}, of the same tree with plain '
                              f'prefixes: {ref["bounds"]}', c0, model=kind, quantity='param_bounds',
                              prefix_class='-')
    try:
        pn = model.param_names
    except Exception as e:  # noqa: BLE001
        pn = e
    ctx.event('param_names_judged')
    if not isinstance(pn, set | frozenset) or set(pn) != names:
        ctx.violation('param_names', f'{spec_str(spec)}.param_names = {pn!r:.300}, documented naming gives '
                      f'{sorted(names)}', c0, model=kind)
    return out


def guess_case(rng, ctx, mon, M):
    """guess / param_bounds / param_names of every structure that carries prefixes x every way to name the
    independent variable: a deterministic part of every shard."""
    xunit = pick(rng, X_UNITS)
    tunit = pick(rng, [u for u in X_UNITS if u != xunit])
    yunit = pick(rng, A_UNITS)
    dim = pick(rng, DIMS)
    tname = pick(rng, [n for n in ('t', 'tof', 'x', 'λ', 'other coord') if n != dim])
    data, with_var, rekeyed = guess_data(rng, xunit, tunit, yunit, dim, tname)
    modes = [(GM_NONE, data, None, False, dim), (GM_DIM, data, dim, True, dim),
             (GM_OTHER, data, tname, True, tname), (GM_VAR, with_var, None, False, dim)]
    for m_ in modes:
        ctx.hit(m_[0])
    kinds = [pick(rng, ['poly', 'poly', *PEAKS]), pick(rng, PEAKS), pick(rng, ['poly', *PEAKS])]
    leaves = []
    for k in kinds:
        leaf = {'kind': k}
        if k == 'poly':
            leaf['degree'] = int(rng.integers(1, 5))
        leaves.append(leaf)
    case = {'kind': 'guess', 'leaf_kinds': kinds, 'x_unit': xunit, 'other_coord': [tname, tunit], 'y_unit': yunit,
            'dim': dim, 'n': int(data.sizes[dim]),
            'x_hex': [_hex(v) for v in data.coords[dim].values[:4]], 'y_hex': [_hex(v) for v in data.values[:4]]}

    def with_leaf_prefixes(ps):
        return [{**leaf, 'prefix': p} for leaf, p in zip(leaves, ps, strict=False)]

    def build(spec, how):
        try:
            m = build_prefixed(M, spec, how)
        except Exception as e:  # noqa: BLE001  (constructors / with_prefix are judged by their monitors)
            ctx.count('guess_model_not_built:' + type(e).__name__)
            return None
        if mon.spec_of(m) != spec:
            got = mon.spec_of(m)
            ctx.inconclusive_because('harness: observed model structure differs from the plan: '
                                     f'{spec_str(got) if got else got} vs {spec_str(spec)}')
            return None
        return m

    def drawn_prefixes(n_wanted, test):
        """n_wanted prefixes of the drawn classes for which ``test(prefixes)`` holds (names disjoint)."""
        for _ in range(30):
            pair = list(pick(rng, NESTED_PAIRS))
            pool = [*pair, draw_prefix(rng, ctx, avoid=pair), draw_prefix(rng, ctx, avoid=pair)]
            rng.shuffle(pool)
            ps = pool[:n_wanted]
            if len(set(ps)) == len(ps) and test(ps):
                return ps
        return None

    # ---- leaves: '' against a prefix given to the constructor / attached afterwards
    for leaf in leaves[:2]:
        ref_spec = {**leaf, 'prefix': ''}
        ref_model = build(ref_spec, 'constructor')
        if ref_model is None:
            continue
        ref = judge_guess_model(ctx, ref_model, ref_spec, 'leaf, no prefix', modes, rekeyed, None, case)
        for how in ('constructor', 'with_prefix'):
            spec = {**leaf, 'prefix': draw_prefix(rng, ctx, avoid=('',))}
            m = build(spec, how)
            if m is not None:
                ctx.hit(GC_LEAF)
                judge_guess_model(ctx, m, spec, GC_LEAF, modes, rekeyed, ref, case)

    # ---- composites
    for shape_name, shape in GUESS_SHAPES.items():
        nl, nc = (2, 1) if shape_name == 'pair' else (3, 2)
        canon = with_leaf_prefixes(CANONICAL_LEAF_PREFIXES[:nl])
        ref_spec = shape_spec(shape, canon, [''] * nc)
        ref_model = build(ref_spec, 'constructor')
        if ref_model is None:
            continue
        ref = judge_guess_model(ctx, ref_model, ref_spec, 'composite, plain leaf prefixes', modes, rekeyed, None,
                                case)
        outer, inner = draw_prefix(rng, ctx, avoid=('',)), draw_prefix(rng, ctx, avoid=('',))
        if nc == 1:
            comp_sets = [((outer,), None)]
        else:
            nest = GC_NEST_L if shape_name == 'nested left' else GC_NEST_R
            comp_sets = [(('', inner), nest), ((outer, inner), GC_NEST_BOTH), ((outer, ''), GC_OUTER_ONLY)]
        for j, (comp_prefixes, nest_label) in enumerate(comp_sets):
            def ok(ps, _cp=comp_prefixes):
                return names_disjoint(shape_spec(shape, with_leaf_prefixes(ps), _cp))
            related = drawn_prefixes(nl, ok)
            bare = drawn_prefixes(nl - 1, lambda ps, _ok=ok: _ok(['', *ps]))  # leaf 0 without a prefix
            leaf_sets = [(CANONICAL_LEAF_PREFIXES[:nl], None)]
            if related is not None:
                leaf_sets.append((related, GC_LEAVES))
            if bare is not None:
                leaf_sets.append((['', *bare], GC_BARE_LEAF))
            for k, (leaf_prefixes, leaf_label) in enumerate(leaf_sets):
                spec = shape_spec(shape, with_leaf_prefixes(leaf_prefixes), comp_prefixes)
                if not names_disjoint(spec):
                    continue
                # plain leaves: both ways to attach the prefixes; the other leaf sets alternate
                hows = ('constructor', 'with_prefix') if k == 0 else (('constructor', 'with_prefix')[(k + j) % 2],)
                for how in hows:
                    m = build(spec, how)
                    if m is None:
                        continue
                    labels = [nest_label or (GC_CTOR if how == 'constructor' else GC_WITH)]
                    if comp_prefixes[0] != '':
                        labels.append(GC_CTOR if how == 'constructor' else GC_WITH)
                    if leaf_label:
                        labels.append(leaf_label)
                    for lab in dict.fromkeys(labels):
                        ctx.hit(lab)
                    judge_guess_model(ctx, m, spec, labels[0], modes, rekeyed, ref, case)
                    if k == 0 and how == 'constructor' and comp_prefixes[0] != '':
                        # the prefixed composite given another prefix / the empty prefix again
                        for p, lab in ((draw_prefix(rng, ctx, avoid=('', comp_prefixes[0])), GC_REPREFIX),
                                       ('', GC_UNPREFIX)):
                            try:
                                m2 = m.with_prefix(p)
                            except Exception:  # noqa: BLE001  (judged by the with_prefix monitor)
                                continue
                            s2 = {**spec, 'prefix': p}
                            if mon.spec_of(m2) != s2:
                                ctx.count('guess_model_not_registered')
                                continue
                            ctx.hit(lab)
                            judge_guess_model(ctx, m2, s2, lab, modes, rekeyed, ref, case)
    sig = ('guess', tuple(kinds), xunit, tunit, yunit, dim)
    return sig, False, case


# ------------------------------------------- units given in every way a caller may ---
# "x and y in arbitrary units": the arguments are physical quantities and nothing obliges a caller to give
# a_i in exactly a_0.unit / x.unit**i, or loc / scale in exactly the unit of x.  Units are descriptors of
# the independent table (rv/oracle/peakdefs.py); the container units are built from them by scipp's unit
# algebra.  From a consistent assignment every single argument in turn is given (a) in another scale of
# the same quantity (another base unit of the same dimension for one factor of its unit, or x percent) and
# (b) in a unit of another dimension (x or / a base unit of length, time, mass, temperature; the unit of a
# neighbouring coefficient).
UX_POOL = [(('m', 1),), (('mm', 1),), (('cm', 1),), (('angstrom', 1),), (('s', 1),), (('ms', 1),), (('us', 1),),
           (('deg', 1),), (('meV', 1),), (), (('angstrom', -1),), (('K', 1),)]
UY_POOL = [(('counts', 1),), (), (('kg', 1),), (('K', 1),), (('counts', 1), ('angstrom', 1)), (('m', 1),),
           (('cm', 1),), (('J', 1), ('s', -1)), (('us', -1),), (('counts', 1), ('us', -1))]
HARD_BASES = ('K', 's', 'm', 'kg')

UC_POLY_AI_SCALED = 'units: polynomial coefficient a_i (i>=1) in another scale of its unit'
UC_POLY_A0_SCALED = 'units: polynomial a0 in another scale of its unit'
UC_POLY_X_SCALED = 'units: polynomial x in another scale of its unit'
UC_PERCENT = 'units: percent next to dimensionless'
UC_POLY_AI_DIM = 'units: polynomial coefficient a_i (i>=1) of another dimension'
UC_POLY_A0_DIM = 'units: polynomial a0 of another dimension'
UC_POLY_X_DIM = 'units: polynomial x of another dimension'
UC_POLY_ALL_A0 = 'units: all polynomial coefficients in the unit of a0'
UC_PEAK_LOC_SCALED = 'units: peak loc in another scale of the unit of x'
UC_PEAK_SCALE_SCALED = 'units: peak scale in another scale of the unit of x'
UC_PEAK_BOTH_SCALED = 'units: peak loc and scale in another scale of the unit of x'
UC_PEAK_X_SCALED = 'units: peak x in another scale of the unit of loc and scale'
UC_PEAK_AMP_SCALED = 'units: peak amplitude in another scale of its unit'
UC_FRACTION_PERCENT = 'units: fraction in percent'
UC_PEAK_LOC_DIM = 'units: peak loc of another dimension'
UC_PEAK_SCALE_DIM = 'units: peak scale of another dimension'
UC_PEAK_X_DIM = 'units: peak x of another dimension'
UC_FRACTION_DIM = 'units: fraction with a dimension'
UC_COMP_POLY_SCALED = 'units: composite, polynomial part with a coefficient in another scale'
UC_COMP_PEAK_SCALED = 'units: composite, peak part with loc in another scale'
UC_COMP_X_SCALED = 'units: composite, x in another scale'
UC_COMP_PARTS_SCALED = 'units: composite, parts in different scales of one unit'
UC_COMP_POLY_DIM = 'units: composite, polynomial part with a coefficient of another dimension'
UC_COMP_PEAK_DIM = 'units: composite, peak part with scale of another dimension'
UC_COMP_PARTS_DIM = 'units: composite, parts of different dimensions'
UNIT_CLASSES_POLY = [UC_POLY_AI_SCALED, UC_POLY_A0_SCALED, UC_POLY_X_SCALED, UC_PERCENT, UC_POLY_AI_DIM,
                     UC_POLY_A0_DIM, UC_POLY_X_DIM, UC_POLY_ALL_A0]
UNIT_CLASSES_PEAK = [UC_PEAK_LOC_SCALED, UC_PEAK_SCALE_SCALED, UC_PEAK_BOTH_SCALED, UC_PEAK_X_SCALED,
                     UC_PEAK_AMP_SCALED, UC_FRACTION_PERCENT, UC_PEAK_LOC_DIM, UC_PEAK_SCALE_DIM, UC_PEAK_X_DIM,
                     UC_FRACTION_DIM]
UNIT_CLASSES_COMP = [UC_COMP_POLY_SCALED, UC_COMP_PEAK_SCALED, UC_COMP_X_SCALED, UC_COMP_PARTS_SCALED,
                     UC_COMP_POLY_DIM, UC_COMP_PEAK_DIM, UC_COMP_PARTS_DIM]
# classes the unchanged semantics of scipp (no implicit conversion) lets through: exact relation
UNIT_CLASSES_VALID = [UC_PEAK_AMP_SCALED]


def scaled_variants(desc):
    """Descriptors of the same dimension with another SI factor: one base unit exchanged for another base
    unit of the same dimension, or the whole unit taken in percent."""
    out = []
    for k, (base, e) in enumerate(desc):
        for sib in pk.siblings(base):
            if all(b != sib for b, _ in desc):
                out.append((*desc[:k], (sib, e), *desc[k + 1:]))
    if all(b != 'percent' for b, _ in desc):
        out.append((*desc, ('percent', 1)))
    return [d for d in out if pk.u_dim(d) == pk.u_dim(desc) and pk.u_factor(d) != pk.u_factor(desc)]


def other_dimension_variants(desc, extra=()):
    """Descriptors whose dimension differs from ``desc`` in length / time / mass / temperature."""
    out = list(extra)
    for b in HARD_BASES:
        out.append(pk.u_mul(desc, ((b, 1),)))
        out.append(pk.u_mul(desc, ((b, 1),), -1))
    return [d for d in out if pk.dim_relation(pk.u_dim(d), pk.u_dim(desc)) == 'hard']


def pick(rng, lst):
    return lst[int(rng.integers(0, len(lst)))]


def uvar(value, desc):
    return sc.scalar(float(value), unit=pk.u_register(desc))


def rescaled(value, old, new):
    """The number that expresses the same quantity in unit ``new`` (what a caller who measures in ``new``
    holds); own table arithmetic."""
    return float(value) * float(pk.u_factor(old) / pk.u_factor(new))


def _ask_units(rng, ctx, mon, model, x, params, label, fwhm=False):
    ctx.hit(label)
    mon.unit_class = label
    try:
        safe_call(model, x, shuffled(rng, params))
        if fwhm:
            try:
                model.fwhm(params)
            except Exception:  # noqa: BLE001  (judged by the fwhm monitor)
                pass
    finally:
        mon.unit_class = None


def poly_unit_variants(rng, ctx, ux, uy, degree):
    """[(class, coefficient descriptors, x descriptor)] around the consistent assignment a_i in uy / ux^i."""
    base = [pk.u_mul(uy, ux, -i) for i in range(degree + 1)]
    idxs = sorted({degree, 1, max(1, degree // 2)})
    out = []

    def repl(i, d):
        return [d if j == i else b for j, b in enumerate(base)]

    percent = not ux and not uy
    for i in idxs:
        ctx.count('unit_variant_coefficient:' + ('highest' if i == degree else ('first' if i == 1 else 'inner')))
        out.append((UC_POLY_AI_SCALED, repl(i, pick(rng, scaled_variants(base[i]))), ux))
        cands = other_dimension_variants(base[i], extra=[base[i - 1], base[i + 1] if i < degree else
                                                         pk.u_mul(uy, ux, -(i + 1)), uy])
        out.append((UC_POLY_AI_DIM, repl(i, pick(rng, cands)), ux))
    out.append((UC_POLY_A0_SCALED, repl(0, pick(rng, scaled_variants(base[0]))), ux))
    out.append((UC_POLY_A0_DIM, repl(0, pick(rng, other_dimension_variants(base[0], extra=[base[1]]))), ux))
    out.append((UC_POLY_X_SCALED, base, pick(rng, scaled_variants(ux))))
    out.append((UC_POLY_X_DIM, base, pick(rng, other_dimension_variants(ux))))
    if pk.dim_relation(pk.u_dim(ux), pk.ZERO_DIM) == 'hard':
        out.append((UC_POLY_ALL_A0, [uy] * (degree + 1), ux))
    if percent:  # pure numbers: the only other scale is percent
        out = [(UC_PERCENT if cls in (UC_POLY_AI_SCALED, UC_POLY_A0_SCALED, UC_POLY_X_SCALED) else cls, c, x)
               for cls, c, x in out]
    return out


def register_poly_results(cdescs, xdesc):
    for i, d in enumerate(cdescs):
        pk.u_register(pk.u_mul(d, xdesc, i))


def unit_numbers_poly(rng, degree):
    xmag = logu(rng, -1, 1)
    cs = [float((1.0 if rng.random() < 0.5 else -1.0) * rng.uniform(0.5, 2.0) / xmag ** i)
          for i in range(degree + 1)]
    n = int(rng.integers(2, 8))
    xs = xmag * rng.uniform(0.3, 3.0, size=n) * np.where(rng.random(n) < 0.5, 1.0, -1.0)
    return cs, np.asarray(xs, dtype=np.float64)


def poly_unit_case(rng, ctx, mon, M):
    """The polynomial with every single argument in turn in another scale of its unit / in a unit of
    another dimension; once with drawn x and y units and once with pure numbers (percent)."""
    degree = int(rng.integers(1, 7))
    ctx.hit(f'degree {degree}')
    p1 = draw_prefix(rng, ctx, avoid=('',))
    models = [(build_leaf(M, {'kind': 'poly', 'prefix': '', 'degree': degree}), ''),
              (build_leaf(M, {'kind': 'poly', 'prefix': p1, 'degree': degree}), p1)]
    blocks = [(pick(rng, UX_POOL), pick(rng, UY_POOL)), ((), ())]
    case = {'kind': 'poly units', 'degree': degree, 'prefixes': ['', p1], 'blocks': []}
    for ux, uy in blocks:
        cs, xs = unit_numbers_poly(rng, degree)
        variants = poly_unit_variants(rng, ctx, ux, uy, degree)
        case['blocks'].append({'x_unit': pk.u_name(ux), 'y_unit': pk.u_name(uy),
                               'coeffs_hex': [_hex(c) for c in cs],
                               'variants': [[cls, [pk.u_name(d) for d in cd], pk.u_name(xd)]
                                            for cls, cd, xd in variants]})
        for cls, cdescs, xdesc in variants:
            register_poly_results(cdescs, xdesc)
            x = sc.array(dims=[pick(rng, DIMS)], values=xs, unit=pk.u_register(xdesc))
            for m, p in models:
                _ask_units(rng, ctx, mon, m, x, {f'{p}a{i}': uvar(c, d)
                                                 for i, (c, d) in enumerate(zip(cs, cdescs, strict=True))}, cls)
    sig = ('units', 'poly', degree, pk.u_name(blocks[0][0]), pk.u_name(blocks[0][1]), prefix_class(p1))
    return sig, False, case


def unit_numbers_peak(rng, kind):
    scale = logu(rng, -2, 2)
    loc = scale * float(rng.uniform(0.5, 20.0)) * (1.0 if rng.random() < 0.5 else -1.0)
    vals = {'amplitude': logu(rng, -3, 3) * (1.0 if rng.random() < 0.6 else -1.0), 'loc': loc, 'scale': scale}
    if kind == 'pvoigt':
        vals['fraction'] = float(rng.uniform(0.05, 0.95))
    n = int(rng.integers(2, 8))
    xs = loc + scale * rng.uniform(-3, 3, size=n)
    return vals, np.asarray(xs, dtype=np.float64)


def peak_unit_variants(rng, kind, ux, ua):
    """[(class, {argument: descriptor} incl. 'x')] around x, loc, scale in ux, amplitude in ua, fraction a
    pure number."""
    base = {'x': ux, 'amplitude': ua, 'loc': ux, 'scale': ux}
    if kind == 'pvoigt':
        base['fraction'] = ()
    sx = pick(rng, scaled_variants(ux))
    out = [(UC_PEAK_LOC_SCALED, {**base, 'loc': pick(rng, scaled_variants(ux))}),
           (UC_PEAK_SCALE_SCALED, {**base, 'scale': pick(rng, scaled_variants(ux))}),
           (UC_PEAK_BOTH_SCALED, {**base, 'loc': sx, 'scale': sx}),
           (UC_PEAK_X_SCALED, {**base, 'x': pick(rng, scaled_variants(ux))}),
           (UC_PEAK_AMP_SCALED, {**base, 'amplitude': pick(rng, scaled_variants(ua))}),
           (UC_PEAK_LOC_DIM, {**base, 'loc': pick(rng, other_dimension_variants(ux))}),
           (UC_PEAK_SCALE_DIM, {**base, 'scale': pick(rng, other_dimension_variants(ux))}),
           (UC_PEAK_X_DIM, {**base, 'x': pick(rng, other_dimension_variants(ux))})]
    if kind == 'pvoigt':
        out.append((UC_FRACTION_PERCENT, {**base, 'fraction': (('percent', 1),)}))
        out.append((UC_FRACTION_DIM, {**base, 'fraction': pick(rng, other_dimension_variants(()))}))
    return base, out


def peak_unit_args(rng, vals, xs, base, descs):
    """Numbers for a variant: an argument given in another scale of its unit holds (coin) the number that
    expresses the same quantity there or the same number; scale stays in 1e-6..1e6, fraction in [0, 1]."""
    nums = dict(vals)
    xv = xs
    for k, d in descs.items():
        if d == base[k] or pk.u_dim(d) != pk.u_dim(base[k]):
            continue
        convert = k == 'fraction' or rng.random() < 0.6
        if not convert:
            continue
        if k == 'x':
            xv = np.asarray([rescaled(v, base[k], d) for v in xs], dtype=np.float64)
        else:
            new = rescaled(vals[k], base[k], d)
            if k != 'scale' or 1e-6 <= new <= 1e6:
                nums[k] = new
    params = {k: uvar(v, descs[k]) for k, v in nums.items()}
    return xv, params


def register_peak_results(descs):
    for k in ('x', 'loc', 'scale'):
        pk.u_register(pk.u_mul(descs['amplitude'], descs[k], -1))


def peak_unit_case(rng, ctx, mon, M, kind):
    """A peak model with every single argument in turn in another scale of the common unit / in a unit of
    another dimension (fraction: percent / a unit with a dimension)."""
    ux, uy = pick(rng, UX_POOL), pick(rng, UY_POOL)
    ua = pk.u_mul(uy, ux)
    p1 = draw_prefix(rng, ctx, avoid=('',))
    models = [(build_leaf(M, {'kind': kind, 'prefix': ''}), ''), (build_leaf(M, {'kind': kind, 'prefix': p1}), p1)]
    vals, xs = unit_numbers_peak(rng, kind)
    base, variants = peak_unit_variants(rng, kind, ux, ua)
    case = {'kind': kind + ' units', 'x_unit': pk.u_name(ux), 'amplitude_unit': pk.u_name(ua),
            'values_hex': {k: _hex(v) for k, v in vals.items()}, 'prefixes': ['', p1],
            'variants': [[cls, {k: pk.u_name(d) for k, d in ds.items()}] for cls, ds in variants]}
    for cls, descs in variants:
        register_peak_results(descs)
        xv, params = peak_unit_args(rng, vals, xs, base, descs)
        x = sc.array(dims=[pick(rng, DIMS)], values=xv, unit=pk.u_register(descs['x']))
        for m, p in models:
            _ask_units(rng, ctx, mon, m, x, {p + k: v for k, v in params.items()}, cls, fwhm=True)
    sig = ('units', kind, pk.u_name(ux), pk.u_name(uy), prefix_class(p1))
    return sig, False, case


def comp_unit_case(rng, ctx, mon, M):
    """polynomial + peak (built with ``+`` and with a prefixed CompositeModel): a single argument of one part
    in another scale / of another dimension, x in another scale, and the two parts in different scales of
    one unit / in units of different dimensions."""
    ux, uy = pick(rng, UX_POOL), pick(rng, UY_POOL)
    ua = pk.u_mul(uy, ux)
    degree = int(rng.integers(1, 4))
    ctx.hit(f'degree {degree}')
    kind = pick(rng, PEAKS)
    lp, rp = pick(rng, [('b_', 'g_'), ('', 'p_'), ('bkg_', ''), ('a', 'am')])
    cp = draw_prefix(rng, ctx, avoid=('',))
    specs = [{'kind': 'comp', 'prefix': pre, 'left': {'kind': 'poly', 'prefix': lp, 'degree': degree},
              'right': {'kind': kind, 'prefix': rp}} for pre in ('', cp)]
    models = []
    for spec, use_add in zip(specs, (True, False), strict=True):
        m = build_model(rng, M, spec, use_add=use_add)
        if mon.spec_of(m) != spec:
            ctx.inconclusive_because('harness: observed composite structure differs from the plan: '
                                     f'{mon.spec_of(m)} vs {spec_str(spec)}')
            continue
        models.append((m, spec))
    vals, xs = unit_numbers_peak(rng, kind)
    # every term of the polynomial and the peak of order one near loc: no part hides in the bound of another
    vals['amplitude'] = float(np.sign(vals['amplitude']) * rng.uniform(0.5, 2.0) * 2.5 * vals['scale'])
    span = max(abs(vals['loc']), vals['scale'])
    cs = [float((1.0 if rng.random() < 0.5 else -1.0) * rng.uniform(0.5, 2.0) / span ** j)
          for j in range(degree + 1)]
    pbase = [pk.u_mul(uy, ux, -i) for i in range(degree + 1)]
    kbase = {'x': ux, 'amplitude': ua, 'loc': ux, 'scale': ux}
    if kind == 'pvoigt':
        kbase['fraction'] = ()
    i = int(rng.integers(1, degree + 1))

    def repl(d):
        return [d if j == i else b for j, b in enumerate(pbase)]

    sx = pick(rng, scaled_variants(ux))
    variants = [
        (UC_COMP_POLY_SCALED, repl(pick(rng, scaled_variants(pbase[i]))), kbase),
        (UC_COMP_PEAK_SCALED, pbase, {**kbase, 'loc': pick(rng, scaled_variants(ux))}),
        (UC_COMP_X_SCALED, pbase, {**kbase, 'x': sx}),
        (UC_COMP_PARTS_SCALED, pbase, {**kbase, 'amplitude': pk.u_mul(pick(rng, scaled_variants(uy)), ux)}),
        (UC_COMP_POLY_DIM, repl(pick(rng, other_dimension_variants(pbase[i], extra=[uy]))), kbase),
        (UC_COMP_PEAK_DIM, pbase, {**kbase, 'scale': pick(rng, other_dimension_variants(ux))}),
        (UC_COMP_PARTS_DIM, pbase, {**kbase, 'amplitude': pk.u_mul(pick(rng, other_dimension_variants(uy)), ux)}),
    ]
    case = {'kind': 'comp units', 'specs': [spec_str(sp) for _, sp in models], 'x_unit': pk.u_name(ux),
            'y_unit': pk.u_name(uy), 'peak_values_hex': {k: _hex(v) for k, v in vals.items()},
            'coeffs_hex': [_hex(c) for c in cs],
            'variants': [[cls, [pk.u_name(d) for d in cd], {k: pk.u_name(d) for k, d in kd.items()}]
                         for cls, cd, kd in variants]}
    for cls, cdescs, kdescs in variants:
        register_poly_results(cdescs, kdescs['x'])
        register_peak_results(kdescs)
        xv, kparams = peak_unit_args(rng, vals, xs, kbase, kdescs)
        pparams = {f'a{j}': uvar(c, d) for j, (c, d) in enumerate(zip(cs, cdescs, strict=True))}
        x = sc.array(dims=[pick(rng, DIMS)], values=xv, unit=pk.u_register(kdescs['x']))
        for m, spec in models:
            _ask_units(rng, ctx, mon, m, x, full_params(spec, [pparams, kparams]), cls)
    sig = ('units', 'comp', kind, degree, pk.u_name(ux), pk.u_name(uy))
    return sig, False, case


def in_situ_fit(rng, ctx, mon, M):
    """The models evaluated inside the real fitting pipeline, with the monitors armed."""
    from scippneutron.peaks import fit_peaks

    mon.origin = 'fit_peaks'
    xunit = ['angstrom', 'us', 'm'][int(rng.integers(0, 3))]
    n = int(rng.integers(120, 300))
    locs = np.array([2.0, 5.5]) * logu(rng, -1, 2)
    span = locs[1] - locs[0]
    xs = np.linspace(locs[0] - span, locs[1] + span, n)
    peak_kind = ['gaussian', 'lorentzian', 'pseudo_voigt'][int(rng.integers(0, 3))]
    bkg = ['linear', 'quadratic'][int(rng.integers(0, 2))]
    sig = span * rng.uniform(0.03, 0.08)
    y = 3.0 + 0.1 * (xs - xs[0]) / span
    for mu in locs:
        y = y + 40 * np.exp(-0.5 * ((xs - mu) / sig) ** 2)
    y = y + rng.normal(0, 0.2, size=n)
    data = sc.DataArray(sc.array(dims=['x'], values=y, variances=np.maximum(y, 1.0) / 10, unit='counts'),
                        coords={'x': sc.array(dims=['x'], values=xs, unit=xunit)})
    peak = peak_kind
    if rng.random() < 0.5:
        cls = {'gaussian': M.GaussianModel, 'lorentzian': M.LorentzianModel,
               'pseudo_voigt': M.PseudoVoigtModel}[peak_kind]
        peak = cls(prefix=draw_prefix(rng, ctx))
    try:
        fit_peaks(data, peak_estimates=sc.array(dims=['x'], values=locs, unit=xunit),
                  windows=sc.scalar(span * 0.8, unit=xunit), background=bkg, peak=peak)
        ctx.count('fit_peaks_runs')
    except Exception as e:  # noqa: BLE001  (fit_peaks itself is C17's business)
        ctx.count('fit_peaks_raised:' + type(e).__name__)
    mon.origin = 'direct'
    return ('in_situ', peak_kind, bkg, xunit)


# -------------------------------------------------------------------- driver ---
def plan(tier, seed):
    n_shards = 16
    sets = 131 if tier == 'quick' else 6250
    fits = 1 if tier == 'quick' else 12
    return [{'sets': sets, 'fits': fits} for _ in range(n_shards)]


def requirements(tier):
    ev = {}
    for k in PEAKS:
        for name in ('pointwise.', '_call.', 'unit.', 'normalisation.', 'symmetry.', 'halfmax.', 'fwhm.'):
            ev[name + k] = 20
    ev.update({'pointwise.poly': 20, '_call.poly': 20, 'unit.poly': 20, 'pointwise.comp': 20,
               'unit.comp': 20, 'composite_sum': 20, 'with_prefix': 20, 'init.comp': 20,
               'refusal.missing': 20, 'refusal.extra': 20, 'refusal.unknown': 20,
               'prefix_bitwise.value': 50, 'prefix_bitwise.fwhm': 20, 'prefix_bitwise.guess': 10,
               'prefix_bitwise.param_bounds': 10, 'guess': 10, 'param_bounds': 10, 'fwhm.unsupported': 10})
    for k in (*PEAKS, 'poly', 'comp'):
        ev[f'unit_judged.scaled.{k}'] = 20
        ev[f'unit_judged.inconsistent.{k}'] = 20
    forced = ['fraction:0', 'fraction:1', 'fraction:mid', 'prefix:empty', 'prefix:unicode', 'prefix:leading',
              'prefix:nested pair', 'scalar x', '|loc| > 1e6 scale', 'amplitude < 0', 'x == loc',
              'gaussian tail 10..38 sigma', 'polynomial near a root'] + [f'degree {d}' for d in range(1, 7)]
    forced += UNIT_CLASSES_POLY + UNIT_CLASSES_PEAK + UNIT_CLASSES_COMP + GUESS_CLASSES
    ev.update({'guess_names_judged': 100, 'bounds_names_judged': 100, 'param_names_judged': 100,
               'guess_roundtrip': 100, 'guess_coord_judged': 100, 'guess.coord=None': 20, 'guess.coord=name': 20})
    for c in (GC_CTOR, GC_WITH, GC_NEST_L, GC_NEST_R, GC_NEST_BOTH, GC_OUTER_ONLY, GC_REPREFIX, GC_UNPREFIX, GC_LEAF):
        ev['guess_values_judged: ' + c] = 8
    return {'events': ev, 'forced': forced, 'counters': {'fit_peaks_runs': 1, 'symmetry_pairs': 100}}


def run(shard, ctx):
    from scippneutron.peaks import model as M

    q = pk.self_test(400)
    ctx.extra['quadrature_selftest_max_rel_defect'] = q
    if not q < 1e-12:
        ctx.inconclusive_because(f'quadrature self-test: closed forms integrate to amplitude only within {q:.3g}')
        return
    ctx.extra['mpmath_selftest'] = _mp_selftest(ctx)
    bad = pk.units_self_test()
    ctx.extra['unit_table_selftest'] = {'base_units': len(pk.UNIT_BASE), 'disagreements': bad}
    if bad:
        ctx.inconclusive_because('independent unit table disagrees with sc.to_unit: ' + '; '.join(bad[:4]))
        return
    rng = np.random.Generator(np.random.PCG64([shard['seed'], shard['index'], 16]))
    mon = Monitors(ctx)
    tr = Tracer(keep_children=True)
    mon.install(tr, M)
    with tr:
        for i in range(shard['sets']):
            mon.reg.clear()
            before = ctx.n_violations
            r = rng.random()
            # every kind first (incl. one family of related prefixes per model kind, with a base prefix for
            # which every relation exists: a deterministic part of every shard), then the mixture
            pick = i if i < 19 else None
            fam_kinds = (*PEAKS, 'poly', 'comp')
            mon.dict_kind = None
            try:
                if pick in (0, 1, 2) or (pick is None and r < 0.42):
                    kind = PEAKS[pick] if pick is not None else PEAKS[int(rng.integers(0, 3))]
                    sig, trivial, case = peak_case(rng, ctx, mon, M, kind, True)
                elif pick in (3, 4, 5) or (pick is None and r < 0.56):
                    kind = PEAKS[pick - 3] if pick is not None else PEAKS[int(rng.integers(0, 3))]
                    sig, trivial, case = peak_case(rng, ctx, mon, M, kind, False)
                elif pick in (6, 7) or (pick is None and r < 0.70):
                    sig, trivial, case = poly_case(rng, ctx, mon, M)
                elif pick in (8, 9, 10, 11, 12):
                    base = NUMBERED[int(rng.integers(0, len(NUMBERED)))]
                    sig, trivial, case = family_case(rng, ctx, mon, M, fam_kinds[pick - 8], base)
                elif pick in (13, 14, 15) or (pick is None and r >= 0.99):
                    # units of every single argument in another scale / of another dimension: a deterministic
                    # part of every shard (one case per model kind), and part of the mixture
                    kind = PEAKS[pick - 13] if pick is not None else PEAKS[int(rng.integers(0, 3))]
                    sig, trivial, case = peak_unit_case(rng, ctx, mon, M, kind)
                elif pick == 16 or (pick is None and r >= 0.98):
                    sig, trivial, case = poly_unit_case(rng, ctx, mon, M)
                elif pick == 17 or (pick is None and r >= 0.97):
                    sig, trivial, case = comp_unit_case(rng, ctx, mon, M)
                elif pick == 18 or (pick is None and r >= 0.965):
                    # guess / param_bounds / param_names of every structure that carries prefixes x every way to
                    # name the independent variable: a deterministic part of every shard
                    sig, trivial, case = guess_case(rng, ctx, mon, M)
                elif pick is None and r < 0.94:
                    sig, trivial, case = composite_case(rng, ctx, mon, M)
                else:
                    kind = fam_kinds[int(rng.integers(0, len(fam_kinds)))]
                    sig, trivial, case = family_case(rng, ctx, mon, M, kind, draw_prefix(rng, ctx, avoid=('',)))
            except Exception:  # noqa: BLE001  (model calls are wrapped; this is harness code)
                ctx.oracle_error('C16 driver')
                continue
            ctx.case(sig, trivial=trivial)
            if i < 1 or (ctx.n_violations > before and len(ctx.samples) < 6):
                ctx.sample(case)
        for _ in range(shard['fits']):
            mon.reg.clear()
            try:
                sig = in_situ_fit(rng, ctx, mon, M)
                ctx.case(sig)
            except Exception:  # noqa: BLE001
                ctx.oracle_error('C16 in-situ driver')
    ctx.extra['tracer_counts'] = dict(tr.counts)


def _mp_selftest(ctx):
    """Closed forms in long double against mpmath at 40 digits (oracle self-test)."""
    try:
        import mpmath as mp
    except ImportError:
        ctx.inconclusive_because('mpmath not importable for the oracle self-test')
        return None
    mp.mp.dps = 40
    rng = np.random.Generator(np.random.PCG64(1600))
    worst = 0.0

    def mpf(v):
        return mp.mpf(float(v))

    def ld2mp(v):
        v = LD(v)
        hi = float(v)
        return mp.mpf(hi) + mp.mpf(float(v - LD(hi)))

    for _ in range(40):
        a, m, s = logu(rng, -6, 6), logu(rng, -6, 6), logu(rng, -6, 6)
        f = float(rng.uniform(0, 1))
        x = m + s * float(rng.uniform(-30, 30))
        d = mpf(x) - mpf(m)
        z = d * d / (2 * mpf(s) ** 2)
        g = mpf(a) / (mp.sqrt(2 * mp.pi) * mpf(s)) * mp.exp(-z)
        lo = mpf(a) / mp.pi * mpf(s) / (d * d + mpf(s) ** 2)
        sg = mpf(s) / mp.sqrt(2 * mp.log(2))
        gg = mpf(a) / (mp.sqrt(2 * mp.pi) * sg) * mp.exp(-d * d / (2 * sg ** 2))
        pvt = mpf(f) * lo + (1 - mpf(f)) * gg
        for got, want, cond in ((pk.gaussian_ref(x, a, m, s)[0], g, 1 + z),
                                (pk.lorentzian_ref(x, a, m, s)[0], lo, 1),
                                (pk.pseudo_voigt_ref(x, a, m, s, f)[0], pvt, 1 + z)):
            worst = max(worst, float(abs(ld2mp(got) - want) / abs(want) / cond))
        cs = [float(rng.normal()) for _ in range(5)]
        xx = float(rng.normal())
        want = sum(mpf(c) * mpf(xx) ** i for i, c in enumerate(cs))
        mag = sum(abs(mpf(c) * mpf(xx) ** i) for i, c in enumerate(cs))
        worst = max(worst, float(abs(ld2mp(pk.polynomial_ref(xx, cs)[0]) - want) / mag))
    if worst > 1e-17:
        ctx.inconclusive_because(f'long double closed forms vs mpmath off by {worst:.3g} (conditioned)')
    return {'samples': 160, 'max_conditioned_rel_diff': worst}


FINDING_PREDICATES: dict = {}
