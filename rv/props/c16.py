"""C16 Peak and background models satisfy their analytic definitions.

Observation (sys.monitoring on the code objects): ``Model.__call__``, the ``_call`` of
every model class, the three ``fwhm`` implementations and the base ``Model.fwhm``,
``Model.guess``, ``Model.param_bounds``, ``Model.with_prefix`` and the constructors.
The constructors / ``with_prefix`` are observed so that the *structure* of every model
(kind, degree, prefix, left/right) is known from the documented public arguments it was
built with -- never from the private attributes of the object under test.

Two oracle layers (DESIGN section 4, C16):

(a) pointwise -- every abscissa actually handed to a model is re-evaluated with the
    closed form in long double at that exact float (rv/oracle/peakdefs.py) and compared
    within the forward error bound of the definition (64 eps x condition number);
(b) identities on conditioned parameter sets (|loc| <= 1e3 scale): integral = amplitude
    (400-node Gauss-Legendre in u, x = loc + scale tan u), symmetry on exactly
    representable abscissa pairs, half maximum at loc +- fwhm/2 with the fwhm the model
    itself reports, composite = left + right on the observed sub-calls, bitwise equal
    results under every prefix, result unit, refusal of missing / extra / unknown names.
(c) families of related prefixes (``family_case``): the same model under a base prefix and siblings whose
    prefixes are related to it in every way (equal length with a different first / inner / last / every
    character, reversed, one a proper prefix of the other in both directions, longer / shorter unrelated,
    empty), every sibling with its own values, asked with every kind of dict a caller holds: exactly own,
    the full dict of the composite of the family (what fit_peaks hands to ``peak.fwhm(popt)``), own +
    sibling in both orders, the sibling's names, single names swapped, mixtures.  ``__call__`` must refuse
    everything but its exact names; ``fwhm`` -- which the unchanged code and fit_peaks use with a superset
    dict -- must equal factor(kind) x the model's OWN scale (analytic FWHM) and be bitwise what it reports
    for its own dict alone; without its own scale entry it has nothing to report and must refuse.
(d) units given in every way a caller may (``*_unit_case``): from a consistent assignment every single argument
    in turn is given in another scale of its unit (mm next to m, ms next to s, percent next to a pure number, ...)
    and in a unit of another dimension, for every model kind and inside composites.  Judged by
    ``Monitors.judge_units`` through the independent unit table of rv/oracle/peakdefs.py: a refusal is always
    fine; a returned result must be the physical value of the definition (everything brought to SI) in a unit of
    the implied dimension, and must not exist at all when the terms have no common dimension.
(e) the estimate under every way to carry prefixes (``guess_case``): a prefix on a leaf, on a composite (given to
    the constructor or attached with with_prefix), on a composite nested in another composite (left / right, the
    outer one with or without its own prefix), related or empty leaf prefixes inside, a prefixed composite given
    another / the empty prefix -- each x every way the data name the independent variable (coord not given, the
    dimension-coordinate by name, another coordinate of the data, data with variances).  ``guess`` must return
    exactly the documented names (= ``param_names`` = what ``__call__`` accepts; judged on the answer of every
    implementation of ``guess``, base class and overrides), the values must be bitwise those of the same tree with
    plain prefixes under renaming, ``model(x, **model.guess(data))`` must be accepted and have the unit of the
    data; the same for ``param_bounds`` (names are parameters, content independent of the prefixes).  Whatever
    the package returns is judged as it is: an answer of another shape is a violation, never a harness error.
(f) the documented arguments in every class they come in (``forms_case``): the degree as every kind of integer
    (numpy integer scalars of 7 dtypes, an element of np.arange / of an integer settings array, the result of
    np.argmin / of counting, an IntEnum member, an int subclass), prefixes / parameter names / the coordinate
    name as numpy.str_, (str, Enum) and StrEnum members, str subclasses, the ``params`` of fwhm as any mapping,
    every calling convention of the signatures: the constructors must build the model (monitor on every
    constructor: a refusal of documented arguments is ``constructor_raised``) and every answer (value, fwhm,
    guess, param_bounds, param_names, prefix, degree) is bitwise the one for builtin int / str given positionally.
(g) second use (``reuse_case``): the same call repeated after every other thing a caller does with a model
    (refused calls, a unit error half-way, fwhm, guess, accessors, with_prefix, use in composites, display,
    comparison, copy / deepcopy / pickle, the result fed back, another x) returns bitwise the same; copies answer
    like the original; the caller's x and parameters are untouched, also when one Variable is x, loc and scale.
(h) every layout / dtype / decoration of x (``layout_case``): 0..3-d, transposed, strided / inner slices, read-only
    broadcast, empty, coordinates of data arrays, float32 / int64 / int32, variances on x and / or the parameters
    (values judged; a scipp VariancesError is a counted refusal; the variance of fwhm = factor^2 var(scale)),
    integer-valued peak parameters, dims named like parameters / internal names; one shard with 2**20 + 7 and
    3 x 400001 abscissae.
(i) the caller's own model classes (``standin_case``): a Model subclass (names from a one-shot iterator) and a
    subclass of GaussianModel overriding _call, alone, re-prefixed and as parts of (nested) composites.
"""

from __future__ import annotations

import collections
import copy
import enum
import numbers
import pickle
import types

import numpy as np
import scipp as sc

from rv.oracle import peakdefs as pk
from rv.trace import Tracer

ID = 'C16'
LEVEL = 'exploration'
RULE = (
    'one case = one parameter set (peak model conditioned |loc|<=1e3 scale, peak model with '
    'location anywhere, polynomial of degree 1..6, composite of 2..3 parts incl. nested) driven '
    'through the real constructors, with_prefix, __add__, __call__, fwhm, guess, param_bounds under '
    '3 prefixes (empty, ASCII, leading-characters-of-parameter-names, unicode, mutually nested); '
    'amplitude +-(1e-6..1e6), loc +-1e6 (or within 1e3 scale), scale 1e-6..1e6, fraction in [0,1] '
    'incl. 0 and 1; x scalar and 1-d in 9 units, amplitude in 8 units; a case is non-trivial unless '
    'empty prefix + dimensionless + scalar x; distinct = distinct (kind, conditioning, prefix class, '
    'x unit, amplitude unit, x shape class, scale decade band, sign, fraction class / degree). '
    'In every shard one family per model kind (3 peaks, polynomial, prefixed composite): the model under a '
    'base prefix and 8..12 sibling prefixes (same length differing in first/inner/last/every character, '
    'reversed, extension, doubling, truncation, longer/shorter unrelated, empty), each with its own values, '
    'called and asked for fwhm/guess/param_bounds with its own dict, the full dict of the composite of the '
    'family in 3 orders, own+sibling in both orders, sibling names (sibling or own values), one name swapped, '
    'names mixed. In every shard one units case per model kind (3 peaks, polynomial, polynomial + peak composite built '
    'with + and with a prefixed CompositeModel): units are descriptors over an own table of 25 base units; from a '
    'consistent assignment (x, loc, scale in one unit, a_i in y/x^i, fraction a pure number, parts with one result '
    'unit) every single argument in turn (x, loc, scale, loc and scale, amplitude, fraction, a0, the first / an inner / '
    'the highest coefficient, the result unit of one part) is given in another scale of the same quantity (another '
    'base unit of that dimension, or percent) and in a unit of another dimension (x or / K, s, m, kg; the unit of '
    'the neighbouring coefficient; all coefficients in the unit of a0); the polynomial additionally with pure '
    'numbers (percent next to dimensionless). In every shard one guess case: one data set (irregular abscissae, peak on a '
    'sloping background, 3 coordinates in different units, with and without variances) and, for leaves and for trees '
    'of 2 and 3 leaves (nested left / right), every placement of non-empty prefixes (leaf; composite via constructor / '
    'via with_prefix; nested composite with / without a prefix on the outer one; un-prefixed composite in a prefixed '
    'one; related / empty leaf prefixes inside; re-prefixed and un-prefixed again) x coord not given / the '
    'dimension-coordinate by name / another coordinate / data with variances: guess, param_bounds, param_names '
    'against the documented naming and against the same tree with plain prefixes. In every shard one forms case (degree '
    'in 13 integer forms x prefix forms, prefix / with_prefix / composite prefix / parameter names / guess coord in 4 '
    'str forms, fwhm params as 6 mapping classes, 10 calling conventions; every answer against the builtin form), one '
    'second-use case (15 operations between two identical calls x 5 model kinds, copies, aliased arguments, inputs '
    'untouched), one layout case (17 layouts / dtypes / variances of x, 16 dim names, parameters with variances / '
    'integer-valued x 5 model kinds), one case with the caller\'s own Model subclasses alone and as parts; guess '
    'additionally on data with masks; one shard with x of 2**20 + 7 and 3 x 400001 elements'
)
ASSUMPTIONS = [
    'numpy long double (x87 80 bit) evaluates the closed forms with error << 64 eps (mpmath self-test per run)',
    'pseudo-Voigt width convention is the documented one: the Gaussian part has sigma_G = scale/sqrt(2 ln 2) '
    'so that both parts have FWHM 2*scale (class docstring)',
    'the closed forms are written for loc, scale and x in one unit, a_i in y-unit / x-unit^i, fraction a pure number '
    'and parts with one result unit (scipp does not convert units implicitly): such calls must succeed and give '
    'amplitude unit / x unit resp. the unit of a0',
    'arguments in other units ("x and y in arbitrary units", results "carry the units implied by the parameters"): '
    'the arguments are physical quantities, so a returned result must be the physical value of the definition '
    '(all arguments brought to SI with the own unit table, forward bound of the definition for inputs rounded by a '
    'conversion) in a unit of the implied dimension; where the terms have no common dimension in length / mass / '
    'time / temperature there is no implied unit and the call must be refused; a refusal (sc.UnitError, ValueError, '
    'TypeError, KeyError) is always allowed for non-exact units; units that differ in angle / counts only (pure '
    'numbers in SI, distinct for scipp) are not judged',
    'the own unit table (exact rational SI factors, dimension vectors) agrees with sc.to_unit on its 25 base units '
    '(self-test per run); scipp is trusted to build the container unit of a product of base units and to compare '
    'units for equality',
    'a refusal is an exception of type ValueError (what the code raises), KeyError or TypeError '
    '(conventional for bad names); the property text only says "refuse"; other types are violations',
    'fwhm(params) may be given a superset of the model\'s names (the package does: fit_peaks passes the full '
    'popt of background + peak) and then depends on the model\'s own scale only; a dict that lacks the '
    'model\'s own scale entry must be refused (any value returned would come from a foreign name); dicts '
    'with the own scale but other own names missing are not judged',
    '400-node Gauss-Legendre in u reproduces the amplitude of the closed forms to < 1e-12 (self-test per run)',
    'the values guess returns are not specified ("roughly estimate"): they are only compared between prefix variants '
    'of one tree (bitwise under the documented renaming prefix + name, composite prefix in front); the names are: '
    'exactly the documented names, which are what param_names reports and __call__ accepts',
    'guess(data, coord=c) estimates from data.coords[c] and data.data (docstring: "a chosen coord is the independent '
    'variable; if not given, data.dim is used"): not giving coord equals naming the dimension-coordinate, and naming '
    'another coordinate equals handing over the same numbers as the dimension-coordinate',
    'for data without variances model(x, **model.guess(data)) is a complete parameter set in consistent units: it is '
    'accepted and the result has the unit of the data; estimates from data with variances carry variances (scipp '
    'refuses to broadcast them) and are not fed back',
    'param_bounds maps parameter names of the model to (lower, upper); omitted names are unbounded',
    'an integer is an integer and a string a string whatever class holds it (numbers.Integral without bool; '
    'isinstance(., str), judged by its characters): PolynomialModel(degree=d) for such a d in 1..6 and any model with '
    'such a prefix exist and answer exactly like the ones made from builtin int / str; other degrees (0, negative, '
    'bool, float, str, > 6) are outside the quantifier and only counted',
    'variances: the values of a result are those of the definition whether or not x / the parameters carry '
    'variances; the variances of a model value are scipp\'s business (the in-place evaluation correlates x with '
    'itself) and not judged; a scipp.VariancesError is a refusal of scipp\'s propagation rules (polynomial of an x '
    'with variances, scalar parameters with variances broadcast over x) and counted; fwhm = factor x scale carries '
    'factor^2 x var(scale) (one operand, first order, exact)',
    'x of integer dtype together with an integer-valued loc, float32 parameters (result precision follows the dtype '
    'of one operand) and integer-valued polynomial coefficients (the unchanged tree raises DTypeError / computes in '
    'float32) are not driven: dtypes of the parameters are not part of the quantifier',
    'a composite\'s param_bounds names exactly the bounded parameters of its parts under their full names (its '
    'parameters are the union of the component parameters, class docstring): judged for composites that contain '
    'the caller\'s own model classes',
    'copy.copy / copy.deepcopy / pickle of a model give a model of the same structure (Python semantics of plain '
    'objects; with_prefix is documented to return a copy)',
]
TECHNIQUE = ('runtime monitors (sys.monitoring) on Model.__call__, every _call, fwhm, guess, param_bounds, '
             'with_prefix and the constructors; long-double closed forms at the exact abscissae + analytic '
             'identities (quadrature, symmetry, half maximum, additivity, prefix invariance, units, refusal); '
             'arguments in non-matching units judged in SI through an independent unit table (refusal or the '
             'physical value; refusal only for dimensionally inconsistent terms)')
LEVEL_TEXT = ('exploration: every observed model evaluation in generated workloads (direct and inside fit_peaks) '
              'is compared with the analytic definition in 80-bit arithmetic at the forward error bound of the '
              'definition, and the normalisation / symmetry / FWHM / additivity / prefix / unit / refusal '
              'identities are checked on the returned values. Sampling of a continuous parameter space: held on '
              'the decided executions reported, not a proof.')
LEVEL_NOTE = ('trusted: numpy long double, own closed forms and Gauss-Legendre nodes (self-tested against mpmath '
              'and against the closed forms), scipp containers and unit algebra')
DESIGN_REF = 'DESIGN.md section 4, C16'
TIMEOUT_S = {'quick': 600, 'thorough': 2 * 3600}

LD = pk.LD
EPS = pk.EPS
TOL_NORM = 1e-10
PEAKS = ('gauss', 'lorentz', 'pvoigt')
PEAK_NAMES = ('amplitude', 'loc', 'scale')
REFUSAL_TYPES = (ValueError, KeyError, TypeError)
# refusing units: scipp's typed unit error (what the in-place unit algebra of the unchanged code raises) or
# the conventional ones
UNIT_REFUSAL_TYPES = (sc.UnitError, ValueError, KeyError, TypeError)

X_UNITS = ['m', 'mm', 'angstrom', 'us', 'ms', 'deg', 'meV', 'dimensionless', '1/angstrom']
A_UNITS = ['counts', 'dimensionless', 'kg', 'K', 'counts*angstrom', 'm', 'J/s', '1/us']
DIMS = ['x', 'tof', 'dspacing', 'xx', 'λ']

# prefix classes: empty / plain / made of leading characters of parameter names (what
# str.lstrip would eat) / unicode / odd characters
PREFIXES = {
    'empty': [''],
    'plain': ['p_', 'n_', 'g1_', 'bkg_', 'P_', 'x', 'q2', 'Z', 'pre.fix-', 'p_p_', 'x '],
    'leading': ['a', 'am', 'amp', 'amplitude', 'l', 'lo', 'loc', 's', 'sc', 'scale', 'f', 'fr',
                'a0', 'a1', 'a_', 'aa', 'ss', 'peak_', 'lorentz_', 'scale_loc_', 'fa'],
    'unicode': ['λ_', 'пик_', '峰', 'é_', 'σ', 'ａ', '𝛼_'],
    'odd': [' ', '0', '_', '__', '-', '1_', '**', '\t'],
}
NESTED_PAIRS = [('a', 'am'), ('', 'amplitude'), ('p_', 'p_p_'), ('l', 'lo'), ('', 'a'), ('s', 'sc'),
                ('λ_', 'λ_λ_'), ('_', '__'), ('a', 'aa'), ('', 'loc'), ('sc', 'scale'), ('a0', 'a0a1')]


# ------------------------------------------------------------------ specs ---
def base_names(spec):
    k = spec['kind']
    if k in ('gauss', 'lorentz', 'gauss2'):
        return PEAK_NAMES
    if k == 'line':
        return ('h', 'k')
    if k == 'pvoigt':
        return (*PEAK_NAMES, 'fraction')
    if k == 'poly':
        return tuple(f'a{i}' for i in range(spec['degree'] + 1))
    raise KeyError(k)


def spec_names(spec) -> frozenset:
    """Documented naming: prefix + name; a composite's prefix is prepended to the
    (already prefixed) names of its parts."""
    if spec['kind'] == 'comp':
        inner = spec_names(spec['left']) | spec_names(spec['right'])
    else:
        inner = base_names(spec)
    return frozenset(spec['prefix'] + n for n in inner)


def spec_str(spec):
    if spec['kind'] == 'comp':
        return f"comp[{spec['prefix']!r}]({spec_str(spec['left'])} + {spec_str(spec['right'])})"
    d = f",deg={spec['degree']}" if spec['kind'] == 'poly' else ''
    return f"{spec['kind']}[{spec['prefix']!r}{d}]"


def spec_kinds(spec):
    if spec['kind'] == 'comp':
        return spec_kinds(spec['left']) + spec_kinds(spec['right'])
    return (spec['kind'],)


class OutOfDomain(Exception):
    pass


class UnitsNotExact(OutOfDomain):
    """The units of the arguments are not exactly the ones the closed form is written for (x, loc, scale in
    one unit; a_i in a_0.unit / x.unit**i; fraction a plain number; parts with equal result units): judged
    by ``Monitors.judge_units`` through the independent unit table instead."""


def plain(s):
    """numpy.str_, str subclasses, (str, Enum) and StrEnum members -> the str they are (their characters);
    anything else unchanged.  A documented ``str`` argument is judged by its characters, whatever its class."""
    return str.__str__(s) if isinstance(s, str) and type(s) is not str else s


def plain_keys(mapping):
    """dict with the characters of every str key (any mapping: dict, MappingProxyType, DataGroup, ChainMap ...)."""
    return {plain(k): mapping[k] for k in mapping}


def is_integer(v):
    """An integer in the sense of the numeric tower (builtin int and its subclasses incl. IntEnum members, every
    numpy integer scalar) -- bool and numpy.bool_ are not degrees."""
    return isinstance(v, numbers.Integral) and not isinstance(v, bool | np.bool_)


def form_of(v):
    """Few-valued label of the class of an argument (mechanism key of violations)."""
    if isinstance(v, bool | np.bool_):
        return 'bool'
    if isinstance(v, enum.Enum):
        return 'IntEnum member' if isinstance(v, int) else ('(str, Enum) / StrEnum member' if isinstance(v, str)
                                                             else 'Enum member')
    if isinstance(v, np.generic):
        return 'numpy integer' if isinstance(v, np.integer) else ('numpy.str_' if isinstance(v, np.str_)
                                                                  else 'numpy scalar')
    if type(v) in (int, str):
        return type(v).__name__
    if isinstance(v, int | str):
        return ('int' if isinstance(v, int) else 'str') + ' subclass'
    return type(v).__name__


def has_variances(x, params):
    try:
        return (getattr(x, 'variances', None) is not None
                or any(getattr(v, 'variances', None) is not None for v in params.values()))
    except Exception:  # noqa: BLE001
        return False


def _val(p, allow_variance=True):
    """Float value of a scalar parameter; OutOfDomain when not a finite number in a 0-d variable.  Variances do
    not change what the value of the definition is (the values of a result must be right with or without)."""
    if not isinstance(p, sc.Variable) or p.ndim != 0 or (p.variance is not None and not allow_variance):
        raise OutOfDomain('parameter is not a plain scalar')
    if p.dtype not in (sc.DType.float64, sc.DType.float32, sc.DType.int64, sc.DType.int32):
        raise OutOfDomain('dtype')
    v = float(p.value)
    if not np.isfinite(v):
        raise OutOfDomain('non-finite parameter')
    return v


def expected(spec, x: sc.Variable, params: dict):
    """(value, abs tolerance, unit) of the analytic definition at the floats in x.

    ``params`` has the full (prefixed) names of ``spec``."""
    p = spec['prefix']
    inner = {k[len(p):]: v for k, v in params.items()}
    kind = spec['kind']
    xv = np.asarray(x.values, dtype=np.float64)
    if kind == 'comp':
        ln, rn = spec_names(spec['left']), spec_names(spec['right'])
        lv, lt, lu = expected(spec['left'], x, {k: inner[k] for k in ln})
        rv, rt, ru = expected(spec['right'], x, {k: inner[k] for k in rn})
        if lu != ru:
            raise UnitsNotExact('parts with different units')
        v, t = pk.sum_ref(lv, lt, rv, rt)
        return v, t, lu
    if kind == 'poly':
        cs = [_val(inner[f'a{i}']) for i in range(spec['degree'] + 1)]
        for i in range(spec['degree'] + 1):
            if inner[f'a{i}'].unit != inner['a0'].unit / x.unit ** i:
                raise UnitsNotExact('coefficient units not y/x^i')
        if max(abs(c) for c in cs) > 1e30 or (xv.size and np.max(np.abs(xv)) > 1e30):
            raise OutOfDomain('overflow range')
        v, t = pk.polynomial_ref(xv, cs)
        return v, t, inner['a0'].unit
    if kind == 'line':
        # the caller's own model class (documented extension point of Model): h + k x
        cs = [_val(inner['h']), _val(inner['k'])]
        if inner['k'].unit != inner['h'].unit / x.unit:
            raise OutOfDomain('units of the caller\'s own model')
        if max(abs(c) for c in cs) > 1e30 or (xv.size and np.max(np.abs(xv)) > 1e30):
            raise OutOfDomain('overflow range')
        v, t = pk.polynomial_ref(xv, cs)
        return v, t, inner['h'].unit
    a, m, s = _val(inner['amplitude']), _val(inner['loc']), _val(inner['scale'])
    if not (1e-6 * (1 - 1e-12) <= s <= 1e6 * (1 + 1e-12)):
        raise OutOfDomain('scale outside 1e-6..1e6')
    if inner['loc'].unit != x.unit or inner['scale'].unit != x.unit:
        raise UnitsNotExact('loc/scale unit differs from x unit')
    unit = inner['amplitude'].unit / x.unit
    if kind == 'gauss':
        v, t = pk.gaussian_ref(xv, a, m, s)
    elif kind == 'gauss2':
        # the caller's subclass of GaussianModel whose _call doubles the inherited curve (2 a is exact)
        v, t = pk.gaussian_ref(xv, 2.0 * a, m, s)
    elif kind == 'lorentz':
        v, t = pk.lorentzian_ref(xv, a, m, s)
    else:
        f = _val(inner['fraction'])
        if inner['fraction'].unit != sc.units.one:
            raise UnitsNotExact('fraction with unit')
        if not 0.0 <= f <= 1.0:
            raise OutOfDomain('fraction outside [0, 1]')
        v, t = pk.pseudo_voigt_ref(xv, a, m, s, f)
    return v, t, unit


def _uinfo(unit):
    try:
        return pk.u_lookup(unit)
    except KeyError:
        raise OutOfDomain('unit not in the independent table') from None


def _worst(rels):
    return 'hard' if 'hard' in rels else ('soft' if 'soft' in rels else 'same')


def si_expected(spec, x: sc.Variable, params: dict):
    """What the definition gives as a physical quantity, whatever (known) units the arguments are in.

    Every argument is brought to SI with the factors of the independent table (rv/oracle/peakdefs.py).
    Returns a dict with ``relation``:

    * ``'inconsistent'``: the terms have no common dimension (a_i x^i against a_0; loc or scale against x;
      a fraction that is not a pure number; parts of a composite against each other) in at least one of
      length / mass / time / temperature -- there is no implied unit, ``why`` names the terms;
    * ``'undecided'``: they differ in angle / counts only (pure numbers in SI, distinct for scipp);
    * ``'consistent'``: ``value`` (long double, SI), ``tol`` (forward bound of the definition for inputs
      rounded once more by the conversion) and ``dim`` (dimension of the result)."""
    p = spec['prefix']
    inner = {k[len(p):]: v for k, v in params.items()}
    kind = spec['kind']
    if kind == 'comp':
        ln, rn = spec_names(spec['left']), spec_names(spec['right'])
        li = si_expected(spec['left'], x, {k: inner[k] for k in ln})
        ri = si_expected(spec['right'], x, {k: inner[k] for k in rn})
        why = li.get('why', []) + ri.get('why', [])
        rels = []
        for part in (li, ri):
            rels.append({'inconsistent': 'hard', 'undecided': 'soft', 'consistent': 'same'}[part['relation']])
        if 'hard' not in rels and 'soft' not in rels:
            rel = pk.dim_relation(li['dim'], ri['dim'])
            rels.append(rel)
            if rel != 'same':
                why = [*why, 'left part against right part']
        w = _worst(rels)
        if w == 'hard':
            return {'relation': 'inconsistent', 'why': why}
        if w == 'soft':
            return {'relation': 'undecided', 'why': why}
        v, t = pk.sum_ref(li['value'], li['tol'], ri['value'], ri['tol'])
        return {'relation': 'consistent', 'value': v, 'tol': t, 'dim': li['dim'], 'why': []}
    if kind in ('line', 'gauss2'):
        raise OutOfDomain('units of the caller\'s own model')
    xv = np.asarray(x.values, dtype=np.float64).astype(LD)
    fx, dx = _uinfo(x.unit)
    if kind == 'poly':
        n = spec['degree'] + 1
        cs = [_val(inner[f'a{i}']) for i in range(n)]
        if max(abs(c) for c in cs) > 1e30 or (xv.size and np.max(np.abs(xv)) > 1e30):
            raise OutOfDomain('overflow range')
        info = [_uinfo(inner[f'a{i}'].unit) for i in range(n)]
        d0 = info[0][1]
        rels = [pk.dim_relation(pk.dim_add(info[i][1], dx, i), d0) for i in range(n)]
        why = [f'a{i} x^{i} against a0' for i in range(n) if rels[i] != 'same']
        w = _worst(rels)
        if w != 'same':
            return {'relation': 'inconsistent' if w == 'hard' else 'undecided', 'why': why}
        v, t = pk.polynomial_ref(xv * fx, [LD(c) * info[i][0] for i, c in enumerate(cs)])
        return {'relation': 'consistent', 'value': v, 'tol': t, 'dim': d0, 'why': []}
    a, m, s = _val(inner['amplitude']), _val(inner['loc']), _val(inner['scale'])
    if not (1e-6 * (1 - 1e-12) <= s <= 1e6 * (1 + 1e-12)):
        raise OutOfDomain('scale outside 1e-6..1e6')
    (fa, da), (fm, dm), (fs, ds) = (_uinfo(inner[k].unit) for k in PEAK_NAMES)
    rels = [pk.dim_relation(dm, dx), pk.dim_relation(ds, dx)]
    why = [w_ for w_, r in zip(('loc against x', 'scale against x'), rels, strict=True) if r != 'same']
    frac = None
    if kind == 'pvoigt':
        f = _val(inner['fraction'])
        ff, df = _uinfo(inner['fraction'].unit)
        rels.append(pk.dim_relation(df, pk.ZERO_DIM))
        if rels[-1] != 'same':
            why.append('fraction against a pure number')
        frac = LD(f) * ff
    w = _worst(rels)
    if w != 'same':
        return {'relation': 'inconsistent' if w == 'hard' else 'undecided', 'why': why}
    if frac is not None and not 0.0 <= float(frac) <= 1.0:
        raise OutOfDomain('fraction outside [0, 1]')
    v, t = pk.peak_ref_inputs(kind, xv * fx, LD(a) * fa, LD(m) * fm, LD(s) * fs, frac)
    return {'relation': 'consistent', 'value': v, 'tol': t, 'dim': pk.dim_add(da, dx, -1), 'why': []}


def _sub_calls(ev):
    """The evaluations of OTHER models observed inside the evaluation ``ev`` of a model: the nearest
    ``__call__`` frames below it that belong to another object (frames of the model itself -- an override
    that defers to the base implementation, its ``_call`` -- are looked through)."""
    me = ev.args.get('self')
    out = []

    def walk(node):
        for c in node.children:
            if c.name == 'call' and c.args.get('self') is not me:
                out.append(c)
            else:
                walk(c)
    walk(ev)
    return out


def _hex(v):
    try:
        return float(v).hex()
    except Exception:  # noqa: BLE001
        return repr(v)


def describe_params(params):
    out = {}
    for k, v in params.items():
        if isinstance(v, sc.Variable) and v.ndim == 0:
            out[k] = [_hex(v.value), str(v.unit)]
        else:
            out[k] = repr(v)[:80]
    return out


def describe_x(x):
    if not isinstance(x, sc.Variable):
        return repr(x)[:80]
    vals = np.ravel(np.asarray(x.values, dtype=np.float64))
    return {'dims': list(x.dims), 'shape': list(x.shape), 'unit': str(x.unit),
            'values_hex': [float(v).hex() for v in vals[:8]], 'n': int(vals.size)}


# --------------------------------------------------------------- monitors ---
class Monitors:
    def __init__(self, ctx):
        self.ctx = ctx
        self.reg: dict[int, tuple] = {}  # id(model) -> (model kept alive, spec)
        self.origin = 'direct'
        self.last_fwhm = None
        # harness label of the kind of parameter dict being handed over (evidence and grouping of
        # witnesses only: every verdict is taken from the names actually observed)
        self.dict_kind = None
        # harness label of the class of units being handed over (evidence and grouping only: the verdict
        # comes from the units actually observed, through the independent table)
        self.unit_class = None

    # -- registry driven by the observed constructor arguments ----------------
    def spec_of(self, model):
        hit = self.reg.get(id(model))
        return hit[1] if hit is not None and hit[0] is model else None

    def _register(self, model, spec):
        self.reg[id(model)] = (model, spec)

    def on_init(self, kind):
        """Constructor of a leaf model.  Documented arguments: ``prefix: str`` (any str: numpy.str_, subclasses and
        str-valued Enum members are strs) and, for the polynomial, ``degree: int`` (quantifier: 1..6; an integer
        is an integer whatever its class -- numpy integer scalars, IntEnum members, int subclasses): such a
        model exists ("for all ... polynomial degree 1..6, any prefix strings"), a refusal is a violation."""
        def h(ev):
            a = ev.args
            prefix, degree = a.get('prefix', ''), a.get('degree')
            documented = isinstance(prefix, str)
            if kind == 'poly':
                try:
                    documented = documented and is_integer(degree) and 1 <= int(degree) <= 6
                except Exception:  # noqa: BLE001
                    documented = False
            if ev.exc is not None:
                if documented:
                    what = f'degree={degree!r} ({type(degree).__name__}), ' if kind == 'poly' else ''
                    self.ctx.violation(
                        'constructor_raised',
                        f'{kind} model could not be created with {what}prefix={prefix!r} ({type(prefix).__name__}): '
                        f'{type(ev.exc).__name__}: {ev.exc}',
                        {'model': kind, 'degree': repr(degree), 'degree_type': type(degree).__name__,
                         'prefix': repr(prefix), 'prefix_type': type(prefix).__name__},
                        model=kind, exc=type(ev.exc).__name__,
                        degree_form=form_of(degree) if kind == 'poly' else '-', prefix_form=form_of(prefix))
                else:
                    self.ctx.count(f'constructor_refused_undocumented_arguments:{kind}:{type(ev.exc).__name__}')
                return
            if not isinstance(prefix, str):
                self.ctx.count('constructor_accepted_non_str_prefix')
                return
            spec = {'kind': kind, 'prefix': plain(prefix)}
            if kind == 'poly':
                try:
                    spec['degree'] = int(degree)
                except Exception:  # noqa: BLE001
                    self.ctx.count('constructor_accepted_non_integer_degree')
                    return
                if not documented:
                    self.ctx.count('constructor_accepted_degree_outside_1..6')
            self._register(a['self'], spec)
            self.ctx.event('init.' + kind)
            if type(prefix) is not str:
                self.ctx.event('init.prefix_form: ' + form_of(prefix))
            if kind == 'poly' and type(degree) is not int:
                self.ctx.event('init.degree_form: ' + form_of(degree))
        return h

    def on_comp_init(self, ev):
        a = ev.args
        ls, rs = self.spec_of(a['left']), self.spec_of(a['right'])
        if ls is None or rs is None:
            self.ctx.count('composite_of_unobserved_parts')
            return
        overlap = spec_names(ls) & spec_names(rs)
        cprefix = plain(a.get('prefix', ''))
        case = {'left': spec_str(ls), 'right': spec_str(rs), 'prefix': cprefix}
        if not isinstance(cprefix, str):
            self.ctx.count('composite_with_non_str_prefix')
            return
        if ev.exc is not None:
            if overlap and isinstance(ev.exc, ValueError):
                self.ctx.count('composite_overlap_refused')
            elif not overlap:
                self.ctx.violation(
                    'composite_refused_disjoint',
                    f'CompositeModel refused parts with disjoint parameter names: '
                    f'{type(ev.exc).__name__}: {ev.exc}', case, where='CompositeModel.__init__')
            else:
                self.ctx.count('composite_overlap_raised_' + type(ev.exc).__name__)
            return
        if overlap:
            # not part of the property text (the docstring asks the caller to disambiguate)
            self.ctx.count('composite_overlap_accepted')
            return
        self._register(a['self'], {'kind': 'comp', 'prefix': cprefix, 'left': ls, 'right': rs})
        if type(a.get('prefix', '')) is not str:
            self.ctx.event('init.prefix_form: ' + form_of(a.get('prefix', '')))
        self.ctx.event('init.comp')

    def on_with_prefix(self, ev):
        if ev.exc is not None:
            self.ctx.violation('with_prefix_raised', f'with_prefix raised {type(ev.exc).__name__}: {ev.exc}',
                               {'prefix': ev.args.get('prefix')}, where='with_prefix')
            return
        spec = self.spec_of(ev.args['self'])
        if spec is None:
            self.ctx.count('with_prefix_on_unobserved_model')
            return
        if ev.result is ev.args['self']:
            self.ctx.violation('with_prefix_not_a_copy', 'with_prefix returned the model itself',
                               {'spec': spec_str(spec)}, where='with_prefix')
            return
        if type(ev.result) is not type(ev.args['self']):
            self.ctx.violation('with_prefix_type', f'with_prefix of {spec_str(spec)} returned '
                               f'{type(ev.result).__name__}, expected a copy of the model',
                               {'spec': spec_str(spec), 'prefix': ev.args.get('prefix')}, where='with_prefix')
            return
        if not isinstance(ev.args['prefix'], str):
            self.ctx.count('with_prefix_non_str')
            return
        new = dict(spec)
        new['prefix'] = plain(ev.args['prefix'])
        self._register(ev.result, new)
        self.ctx.event('with_prefix')
        if type(ev.args['prefix']) is not str:
            self.ctx.event('init.prefix_form: ' + form_of(ev.args['prefix']))

    # -- evaluation -----------------------------------------------------------
    def on_call(self, ev):
        if ev.depth != 0:
            return  # nested calls are judged from their composite parent
        if not {'self', 'x', 'params'} <= set(ev.args):
            self.ctx.count('call_with_other_signature_not_judged')
            return
        try:
            self.judge_call(ev, None)
        except OutOfDomain as e:
            self.ctx.count('out_of_domain:' + str(e))
        except Exception:  # noqa: BLE001
            self.ctx.oracle_error('C16 judge_call')

    def judge_call(self, ev, spec):
        ctx = self.ctx
        model, x, params = ev.args['self'], ev.args['x'], plain_keys(ev.args['params'])
        if spec is None:
            spec = self.spec_of(model)
        if spec is None:
            ctx.count('call_on_unobserved_model')
            return
        names = spec_names(spec)
        case = {'origin': self.origin, 'spec': spec_str(spec), 'params': describe_params(params),
                'x': describe_x(x)}
        kind = spec['kind']
        keys = set(params)
        if keys != names:
            missing, extra = names - keys, keys - names
            how = 'missing' if missing and not extra else ('extra' if extra and not missing else 'unknown')
            label = self.dict_kind or '-'
            if ev.exc is None:
                ctx.violation('accepted_bad_params',
                              f'{spec_str(spec)} accepted parameter names with {how}: '
                              f'missing={sorted(missing)} extra={sorted(extra)}', case, how=how, model=kind,
                              names=label)
            elif isinstance(ev.exc, REFUSAL_TYPES):
                ctx.event('refusal.' + how)
                if self.dict_kind:
                    ctx.event('refused: ' + self.dict_kind)
                ctx.count('refusal_type:' + type(ev.exc).__name__)
            else:
                ctx.violation('refusal_wrong_type',
                              f'{spec_str(spec)} refused {how} names with {type(ev.exc).__name__}: {ev.exc}',
                              case, how=how, model=kind, exc=type(ev.exc).__name__)
            return
        # in-domain?  (raises OutOfDomain before any verdict, also for the raised case)
        try:
            exp, tol, unit = expected(spec, x, params)
        except UnitsNotExact:
            self.judge_units(ev, spec, x, params, case)
            return
        if ev.depth == 0:
            ctx.count('judged_top_level_calls:' + self.origin)
        with_var = has_variances(x, params)
        if with_var and isinstance(ev.exc, sc.VariancesError):
            # scipp refuses operations that would correlate the variances of one operand with themselves
            # (broadcast of a scalar with variances, x with variances entering several terms): a refusal
            # of scipp's variance propagation, not of the model
            ctx.event('variances.refusal')
            ctx.count('variances_refused:' + kind)
            return
        if ev.exc is not None:
            ctx.violation('raised_on_valid',
                          f'{spec_str(spec)} raised {type(ev.exc).__name__}: {ev.exc} for a complete parameter set',
                          case, model=kind, exc=type(ev.exc).__name__, prefix_class=prefix_class(spec['prefix']))
            return
        res = ev.result
        if not isinstance(res, sc.Variable):
            ctx.violation('result_type', f'{spec_str(spec)} returned {type(res).__name__}', case, model=kind)
            return
        ctx.event('unit.' + kind)
        if res.unit != unit:
            ctx.violation('wrong_unit', f'{spec_str(spec)}: result unit {res.unit}, expected {unit}', case,
                          model=kind)
            return
        if tuple(res.dims) != tuple(x.dims) or tuple(res.shape) != tuple(x.shape):
            ctx.violation('wrong_shape', f'{spec_str(spec)}: result dims {res.dims}{res.shape} for x '
                          f'{x.dims}{x.shape}', case, model=kind)
            return
        got = np.asarray(res.values, dtype=np.float64)
        if with_var:
            ctx.event('variances.values_judged')  # the values of a result are judged; its variances are scipp's
        self._compare(got, exp, tol, x, 'pointwise.' + kind, case, kind)
        if kind == 'comp':
            self._judge_parts(ev, spec, params, got, case)

    def judge_units(self, ev, spec, x, params, case):
        """A complete parameter set whose units are not exactly those of the closed form.

        "the polynomial equals the sum of a_i x^i", "a composite equals the sum of its parts", results "carry
        the units implied by the parameters": the arguments are physical quantities, so whenever a result is
        returned it is the physical value of the definition in a unit of the implied dimension -- whatever
        scale each argument was given in -- and where the terms have no common dimension there is no
        implied unit and nothing to return.  Allowed: a refusal (scipp does not convert units implicitly:
        sc.UnitError, or the conventional ValueError / TypeError / KeyError), or, for dimensionally
        consistent arguments only, the physically correct value."""
        ctx = self.ctx
        kind = spec['kind']
        info = si_expected(spec, x, params)  # OutOfDomain when a unit is not in the independent table
        rel = info['relation']
        label = self.unit_class or '-'
        if rel == 'undecided':
            ctx.count('undecided:units differ in angle / counts only')
            return
        rel = 'scaled' if rel == 'consistent' else rel
        ctx.event(f'unit_judged.{rel}.{kind}')
        if ev.depth == 0:
            ctx.count('judged_top_level_calls:' + self.origin)
        if ev.exc is not None:
            if isinstance(ev.exc, UNIT_REFUSAL_TYPES):
                ctx.event(f'unit_refusal.{rel}.{kind}')
                ctx.count('unit_refusal_type:' + type(ev.exc).__name__)
                if self.unit_class:
                    ctx.event('units refused: ' + self.unit_class)
            else:
                ctx.violation('unit_refusal_wrong_type',
                              f'{spec_str(spec)} refused {rel} units with {type(ev.exc).__name__}: {ev.exc}',
                              case, model=kind, relation=rel, exc=type(ev.exc).__name__)
            if kind == 'comp':
                self._judge_parts_of_refused(ev, spec)
            return
        res = ev.result
        if rel == 'inconsistent':
            ctx.violation('accepted_inconsistent_units',
                          f'{spec_str(spec)} returned a result'
                          f'{" in " + str(res.unit) if isinstance(res, sc.Variable) else ""} for arguments '
                          f'without a common dimension ({"; ".join(info["why"])}): x in {x.unit}, parameters in '
                          f'{ {k: str(v.unit) for k, v in params.items()} }', case, model=kind, units=label)
            if kind == 'comp':
                self._judge_parts_of_refused(ev, spec)
            return
        if not isinstance(res, sc.Variable):
            ctx.violation('result_type', f'{spec_str(spec)} returned {type(res).__name__}', case, model=kind)
            return
        try:
            fr, dr = pk.u_lookup(res.unit)
        except KeyError:
            ctx.count('undecided:result unit not in the independent table')
            return
        drel = pk.dim_relation(dr, info['dim'])
        if drel == 'soft':
            ctx.count('undecided:units differ in angle / counts only')
            return
        if drel == 'hard':
            ctx.violation('wrong_unit', f'{spec_str(spec)}: result unit {res.unit} does not have the dimension '
                          f'implied by the parameters', case, model=kind)
            return
        if tuple(res.dims) != tuple(x.dims) or tuple(res.shape) != tuple(x.shape):
            ctx.violation('wrong_shape', f'{spec_str(spec)}: result dims {res.dims}{res.shape} for x '
                          f'{x.dims}{x.shape}', case, model=kind)
            return
        ctx.event('unit_scaled_value.' + kind)
        if self.unit_class:
            ctx.event('units accepted and judged: ' + self.unit_class)
        got = np.asarray(res.values, dtype=np.float64)
        if got.size == 0:
            return
        exp, tol = info['value'], info['tol'] + LD(pk.K * EPS) * np.abs(info['value'])
        if not np.all(np.isfinite(got)):
            ctx.violation('non_finite', f'{spec_str(spec)}: non-finite value for finite in-domain input', case,
                          model=kind)
            return
        err = np.abs(got.astype(LD) * fr - exp)
        ratio = err / tol
        worst = float(np.max(ratio))
        ctx.dev(f'unit_scaled_value.{kind} [fraction of bound]', worst)
        if worst > 1.0:
            i = int(np.argmax(ratio))
            xv = np.ravel(np.asarray(x.values, dtype=np.float64))
            case = dict(case)
            want_i = np.ravel(exp)[i] / fr
            case['worst'] = {'x_hex': float(xv[i]).hex(), 'got': repr(np.ravel(got)[i]),
                             'expected_in_result_unit': repr(want_i), 'result_unit': str(res.unit)}
            ctx.violation('value_ignores_units',
                          f'{spec_str(spec)}: x in {x.unit}, parameters in '
                          f'{ {k: str(v.unit) for k, v in params.items()} }: returned {float(np.ravel(got)[i])!r} '
                          f'{res.unit} at x={float(xv[i])!r}, the definition gives {float(want_i)!r} {res.unit} '
                          f'({worst:.3g} x bound)', case, model=kind, units=label)
        if kind == 'comp':
            self._judge_parts_of_refused(ev, spec)

    def _judge_parts_of_refused(self, ev, spec):
        """Sub-calls of a composite that was not judged through the exact closed form (it refused, or its
        parts are in different units): every part that was reached is judged on its own."""
        subs = _sub_calls(ev)
        for part in (spec['left'], spec['right']):
            names = spec_names(part)
            for c in subs:
                if set(plain_keys(c.args['params'])) == names:
                    try:
                        self.judge_call(c, part)
                    except OutOfDomain as e:
                        self.ctx.count('out_of_domain:' + str(e))

    def _compare(self, got, exp, tol, x, name, case, kind):
        ctx = self.ctx
        ctx.event(name, 1)
        ctx.count('points.' + name, int(np.size(got)))
        if got.size == 0:
            return True
        if not np.all(np.isfinite(got)):
            ctx.violation('non_finite', f'{name}: non-finite value for finite in-domain input', case, model=kind)
            return False
        err = np.abs(got.astype(LD) - exp)
        ratio = err / tol
        worst = float(np.max(ratio))
        # deviation in units of the 64-eps bound (1 = at the tolerance)
        ctx.dev(f'{name} [fraction of bound]', worst)
        if worst > 1.0:
            i = int(np.argmax(ratio))
            xv = np.ravel(np.asarray(x.values, dtype=np.float64))
            case = dict(case)
            case['worst'] = {'x_hex': float(xv[i]).hex(), 'got': repr(np.ravel(got)[i]),
                             'expected': repr(np.ravel(exp)[i]), 'abs_err': repr(np.ravel(err)[i]),
                             'tol': repr(np.ravel(tol)[i])}
            e_i, x_i = np.ravel(exp)[i], float(xv[i])
            how = (f'{float(np.ravel(err)[i] / abs(e_i)):.3g} relative' if abs(e_i) > LD('1e-290')
                   else f'{float(np.ravel(err)[i]):.3g} absolute (expected {float(e_i):.3g})')
            ctx.violation('value', f'{name}: {case["spec"]} differs from the analytic definition by '
                          f'{how} ({worst:.3g} x bound) at x={x_i!r}', case,
                          model=kind, layer='pointwise')
            return False
        return True

    def _judge_parts(self, ev, spec, params, got, case):
        """composite = left + right on the observed sub-calls; recurse into the parts."""
        ctx = self.ctx
        subs = _sub_calls(ev)
        ln, rn = spec_names(spec['left']), spec_names(spec['right'])
        p = spec['prefix']
        left = [c for c in subs if set(plain_keys(c.args['params'])) == ln]
        right = [c for c in subs if set(plain_keys(c.args['params'])) == rn]
        if len(left) != 1 or len(right) != 1 or len(subs) != 2:
            ctx.violation('composite_routing',
                          f'{spec_str(spec)}: sub-calls observed with parameter names '
                          f'{[sorted(plain_keys(c.args["params"])) for c in subs]}, expected {sorted(ln)} and '
                          f'{sorted(rn)}',
                          case, model='comp', mechanism='names')
            return
        le, re_ = left[0], right[0]
        for sub in (le, re_):
            for k, v in plain_keys(sub.args['params']).items():
                w = params[p + k]
                same = v is w or (isinstance(v, sc.Variable) and isinstance(w, sc.Variable) and sc.identical(v, w))
                if not same:
                    ctx.violation('composite_routing',
                                  f'{spec_str(spec)}: part received {k}={getattr(v, "value", v)!r}, composite '
                                  f'was given {p + k}={getattr(w, "value", w)!r}', case, model='comp',
                                  mechanism='values')
                    return
        if (le.exc is None and re_.exc is None and isinstance(le.result, sc.Variable)
                and isinstance(re_.result, sc.Variable) and le.result.shape == re_.result.shape
                and tuple(le.result.shape) == tuple(got.shape)):
            # (a part that returned something else is reported by its own judge_call below)
            lv = np.asarray(le.result.values, dtype=np.float64).astype(LD)
            rv = np.asarray(re_.result.values, dtype=np.float64).astype(LD)
            s = lv + rv
            tol = LD(pk.K * EPS) * (np.abs(lv) + np.abs(rv)) + pk.FLOOR
            dev = np.abs(got.astype(LD) - s) / tol
            worst = float(np.max(dev)) if dev.size else 0.0
            ctx.event('composite_sum')
            ctx.dev('composite_sum [fraction of bound]', worst)
            if worst > 1.0:
                ctx.violation('composite_sum', f'{spec_str(spec)}: result differs from left + right of the '
                              f'observed sub-calls ({worst:.3g} x bound)', case, model='comp')
        self.judge_call(le, spec['left'])
        self.judge_call(re_, spec['right'])

    def on_base_call(self, kind):
        """``_call`` of a concrete class: documented to receive names *without* prefix."""
        def h(ev):
            if ev.exc is not None:
                return
            ctx = self.ctx
            try:
                x, params = ev.args['x'], plain_keys(ev.args['params'])
                keys = set(params)
                if kind == 'poly':
                    spec = {'kind': 'poly', 'prefix': '', 'degree': len(keys) - 1}
                else:
                    spec = {'kind': kind, 'prefix': ''}
                case = {'origin': self.origin, 'spec': '_call ' + kind, 'params': describe_params(params),
                        'x': describe_x(x)}
                if len(keys) < 2 or keys != set(base_names(spec)):
                    ctx.violation('call_names_not_unprefixed',
                                  f'{kind}._call received names {sorted(keys)}', case, model=kind,
                                  mechanism='prefix_strip')
                    return
                exp, tol, unit = expected(spec, x, params)
                res = ev.result
                if not isinstance(res, sc.Variable) or res.unit != unit:
                    return  # reported by the __call__ monitor
                got = np.asarray(res.values, dtype=np.float64)
                if got.shape != exp.shape:
                    return
                self._compare(got, exp, tol, x, '_call.' + kind, case, kind)
            except OutOfDomain:
                ctx.count('out_of_domain:_call')
            except Exception:  # noqa: BLE001
                ctx.oracle_error('C16 _call monitor')
        return h

    # -- fwhm / guess / bounds ---------------------------------------------------
    def on_fwhm(self, kind):
        def h(ev):
            ctx = self.ctx
            if ev.depth != 0:
                return
            spec = self.spec_of(ev.args['self'])
            if spec is None:
                ctx.count('fwhm_on_unobserved_model')
                return
            try:
                # "a dict": any mapping a caller holds (dict subclasses, MappingProxyType, DataGroup, ChainMap);
                # str keys of any class
                params = plain_keys(ev.args['params'])
            except Exception:  # noqa: BLE001
                ctx.count('fwhm_params_not_a_mapping')
                return
            if type(ev.args['params']) is not dict:
                ctx.event('fwhm_mapping: ' + type(ev.args['params']).__name__)
            case = {'spec': spec_str(spec), 'params': describe_params(params)}
            try:
                if kind is None:
                    # base implementation: documented NotImplementedError
                    if isinstance(ev.exc, NotImplementedError):
                        ctx.event('fwhm.unsupported')
                    else:
                        ctx.violation('fwhm_unsupported', f'{spec_str(spec)}.fwhm: expected NotImplementedError, '
                                      f'got {type(ev.exc).__name__ if ev.exc else "a result"}', case,
                                      model=spec['kind'])
                    return
                # What fwhm may be given: the unchanged code and documentation take "parameter values for
                # which to compute the FWHM" as a dict and the package itself (fit_peaks) hands over the full
                # dict of the composite background + peak, i.e. a SUPERSET of the model's names.  The FWHM is
                # a function of the model's own scale only ("independent of the parameter-name prefix"):
                #   own names all present (exact or superset) -> fwhm = factor(kind) * own scale, whatever
                #       else the dict holds and in whatever order;
                #   own scale absent -> there is no value the result could legitimately be computed from:
                #       returning one is a result that depends on foreign names (refusal expected);
                #   own scale present but other own names absent -> not judged (the property does not say).
                names, keys = spec_names(spec), set(params)
                own = spec['prefix'] + 'scale'
                label = self.dict_kind or '-'
                if own not in keys:
                    if ev.exc is None:
                        ctx.violation('fwhm_without_own_scale',
                                      f'{spec_str(spec)}.fwhm returned {getattr(ev.result, "value", ev.result)!r} '
                                      f'for a dict without {own!r} (names {sorted(keys)})', case, model=kind,
                                      names=label)
                    elif isinstance(ev.exc, REFUSAL_TYPES):
                        ctx.event('fwhm_refusal.' + kind)
                    else:
                        ctx.count('fwhm_without_own_scale_raised:' + type(ev.exc).__name__)
                    return
                if not names <= keys:
                    ctx.count('fwhm_partial_names_not_judged')
                    return
                relation = 'exact' if keys == names else 'superset'
                scale = params[own]
                s_val = _val(scale, allow_variance=True)
                if not (1e-6 * (1 - 1e-12) <= s_val <= 1e6 * (1 + 1e-12)):
                    raise OutOfDomain('scale outside 1e-6..1e6')
                if ev.exc is not None:
                    ctx.violation('fwhm_raised', f'{spec_str(spec)}.fwhm raised {type(ev.exc).__name__}: {ev.exc} '
                                  f'({relation} dict)', case, model=kind, prefix_class=prefix_class(spec['prefix']),
                                  names=label)
                    return
                w = ev.result
                ctx.event('fwhm.' + kind)
                ctx.event(f'fwhm_{relation}.' + kind)
                ctx.count(f'fwhm_judged:{self.origin}:{relation}')
                if self.dict_kind:
                    ctx.event('fwhm judged: ' + self.dict_kind)
                if not isinstance(w, sc.Variable) or w.ndim != 0 or w.unit != scale.unit:
                    ctx.violation('fwhm_unit', f'{spec_str(spec)}.fwhm returned {w!r}, expected a scalar in '
                                  f'{scale.unit}', case, model=kind)
                elif not (np.isfinite(w.value) and w.value > 0):
                    ctx.violation('fwhm_value', f'{spec_str(spec)}.fwhm = {w.value!r}', case, model=kind)
                else:
                    # analytic FWHM of the definition: 2 sqrt(2 ln 2) sigma (Gaussian), 2 gamma (Lorentzian,
                    # and the pseudo-Voigt whose parts share the FWHM 2*scale)
                    want = (pk.GAUSS_FWHM_FACTOR if kind == 'gauss' else pk.TWO) * LD(s_val)
                    dev = float(abs(LD(float(w.value)) - want) / want) / (pk.K * EPS)
                    ctx.dev(f'fwhm_{relation}.{kind} [fraction of 64 eps]', dev)
                    if dev > 1.0:
                        ctx.violation('fwhm_not_own_scale',
                                      f'{spec_str(spec)}.fwhm = {float(w.value)!r} for a dict ({relation}) whose '
                                      f'{own!r} = {s_val!r}: the definition gives {float(want)!r}', case,
                                      model=kind, relation=relation, names=label)
                    elif scale.variance is not None:
                        # fwhm = c * scale, one operand with a variance: first-order propagation is c^2 var
                        fac = pk.GAUSS_FWHM_FACTOR if kind == 'gauss' else pk.TWO
                        want_var = fac * fac * LD(float(scale.variance))
                        ctx.event('fwhm_variance')
                        if w.variance is None or not np.isfinite(w.variance):
                            ctx.violation('fwhm_variance', f'{spec_str(spec)}.fwhm of a scale with variance '
                                          f'{scale.variance!r} has variance {w.variance!r}', case, model=kind,
                                          mechanism='dropped')
                        elif float(want_var) > 0 and (
                                float(abs(LD(float(w.variance)) - want_var) / want_var) > 2 * pk.K * EPS):
                            ctx.violation('fwhm_variance', f'{spec_str(spec)}.fwhm of a scale with variance '
                                          f'{scale.variance!r} has variance {w.variance!r}, first-order propagation '
                                          f'of factor x scale gives {float(want_var)!r}', case, model=kind,
                                          mechanism='value')
            except OutOfDomain:
                ctx.count('out_of_domain:fwhm')
            except Exception:  # noqa: BLE001
                ctx.oracle_error('C16 fwhm monitor')
        return h

    def on_guess(self, ev):
        """``guess`` of any model (the public method of the base class and every override of it): the names
        it returns are exactly the documented names of the model (prefix + name, a composite's prefix in
        front of the names of its parts) -- the ones ``__call__`` accepts."""
        if ev.depth != 0 or ev.exc is not None:
            return
        spec = self.spec_of(ev.args['self'])
        if spec is None:
            return
        self.ctx.event('guess')
        coord = plain(ev.args.get('coord'))
        self.ctx.event('guess.coord=None' if coord is None else 'guess.coord=name')
        case = {'spec': spec_str(spec), 'coord': coord}
        judge_guess_names(self.ctx, spec, ev.result, case, 'monitor')

    def on_bounds(self, ev):
        if ev.depth != 0 or ev.exc is not None:
            return
        spec = self.spec_of(ev.args['self'])
        if spec is None:
            return
        self.ctx.event('param_bounds')
        judge_bounds_names(self.ctx, spec, ev.result, {'spec': spec_str(spec)}, 'monitor')

    def install(self, tr, M):
        tr.watch(M.Model.__call__, 'call', on_return=self.on_call)
        tr.watch(M.GaussianModel._call, '_call.gauss', on_return=self.on_base_call('gauss'))
        tr.watch(M.LorentzianModel._call, '_call.lorentz', on_return=self.on_base_call('lorentz'))
        tr.watch(M.PseudoVoigtModel._call, '_call.pvoigt', on_return=self.on_base_call('pvoigt'))
        tr.watch(M.PolynomialModel._call, '_call.poly', on_return=self.on_base_call('poly'))
        tr.watch(M.CompositeModel._call, '_call.comp')
        tr.watch(M.GaussianModel.__init__, 'init.gauss', on_return=self.on_init('gauss'))
        tr.watch(M.LorentzianModel.__init__, 'init.lorentz', on_return=self.on_init('lorentz'))
        tr.watch(M.PseudoVoigtModel.__init__, 'init.pvoigt', on_return=self.on_init('pvoigt'))
        tr.watch(M.PolynomialModel.__init__, 'init.poly', on_return=self.on_init('poly'))
        tr.watch(M.CompositeModel.__init__, 'init.comp', on_return=self.on_comp_init)
        tr.watch(M.Model.with_prefix, 'with_prefix', on_return=self.on_with_prefix)
        tr.watch(M.GaussianModel.fwhm, 'fwhm.gauss', on_return=self.on_fwhm('gauss'))
        tr.watch(M.LorentzianModel.fwhm, 'fwhm.lorentz', on_return=self.on_fwhm('lorentz'))
        tr.watch(M.PseudoVoigtModel.fwhm, 'fwhm.pvoigt', on_return=self.on_fwhm('pvoigt'))
        tr.watch(M.Model.fwhm, 'fwhm.base', on_return=self.on_fwhm(None))
        tr.watch(M.Model.guess, 'guess', on_return=self.on_guess)
        tr.watch(M.Model.param_bounds, 'param_bounds', on_return=self.on_bounds)
        # the public methods are judged wherever they are implemented: an override in a model class is
        # observed under the same name as the implementation of the base class (depth 0 = the outermost)
        public = {'__call__': ('call', self.on_call), 'guess': ('guess', self.on_guess),
                  'param_bounds': ('param_bounds', self.on_bounds), 'with_prefix': ('with_prefix',
                                                                                    self.on_with_prefix)}
        for cls in vars(M).values():
            if isinstance(cls, type) and issubclass(cls, M.Model) and cls is not M.Model:
                for attr, (name, handler) in public.items():
                    if attr in vars(cls):
                        try:
                            tr.watch(vars(cls)[attr], name, on_return=handler)
                            self.ctx.count(f'override_observed:{cls.__name__}.{attr}')
                        except TypeError:
                            self.ctx.count(f'override_not_observable:{cls.__name__}.{attr}')


# -------------------------------------------------------------- generators ---
def prefix_class(p):
    for cls, lst in PREFIXES.items():
        if p in lst:
            return cls
    return 'other'


def draw_prefix(rng, ctx, avoid=()):
    for _ in range(20):
        cls = list(PREFIXES)[int(rng.integers(0, len(PREFIXES)))]
        lst = PREFIXES[cls]
        p = lst[int(rng.integers(0, len(lst)))]
        if p not in avoid:
            ctx.hit('prefix:' + cls)
            return p
    return 'zz_'


def logu(rng, lo, hi):
    return float(10.0 ** rng.uniform(lo, hi))


def draw_peak_values(rng, ctx, kind, conditioned):
    amp = logu(rng, -6, 6) * (1.0 if rng.random() < 0.6 else -1.0)
    r = rng.random()
    scale = 1e-6 if r < 0.03 else (1e6 if r < 0.06 else logu(rng, -6, 6))
    if conditioned:
        r = rng.random()
        if r < 0.15:
            loc = 0.0
        else:
            loc = scale * logu(rng, -3, 3) * (1.0 if rng.random() < 0.5 else -1.0)
            if rng.random() < 0.5:
                # location on a dyadic grid of the scale: loc +- k q are exact floats (symmetry pairs)
                q = 2.0 ** (np.floor(np.log2(scale)) - 20)
                loc = float(np.rint(loc / q) * q)
            if abs(loc) > 1e3 * scale:
                loc = float(np.copysign(1e3 * scale, loc))
    else:
        loc = logu(rng, -6, 6) * (1.0 if rng.random() < 0.5 else -1.0)
        if rng.random() < 0.1:
            loc = float(np.copysign(1e6, loc))
        if abs(loc) > 1e6 * scale:
            ctx.hit('|loc| > 1e6 scale')
    vals = {'amplitude': amp, 'loc': loc, 'scale': scale}
    fcls = '-'
    if kind == 'pvoigt':
        r = rng.random()
        if r < 0.15:
            f, fcls = 0.0, '0'
        elif r < 0.30:
            f, fcls = 1.0, '1'
        elif r < 0.37:
            f, fcls = logu(rng, -15, -6), 'tiny'
        elif r < 0.44:
            f, fcls = 1.0 - logu(rng, -15, -6), 'near1'
        else:
            f, fcls = float(rng.uniform(0, 1)), 'mid'
        vals['fraction'] = f
        ctx.hit('fraction:' + fcls)
    if amp < 0:
        ctx.hit('amplitude < 0')
    return vals, fcls


def peak_vars(vals, xunit, aunit):
    out = {'amplitude': sc.scalar(vals['amplitude'], unit=aunit),
           'loc': sc.scalar(vals['loc'], unit=xunit),
           'scale': sc.scalar(vals['scale'], unit=xunit)}
    if 'fraction' in vals:
        out['fraction'] = sc.scalar(vals['fraction'])
    return out


def draw_x_peak(rng, ctx, vals, conditioned, n):
    loc, scale = vals['loc'], vals['scale']
    k = rng.integers(0, 8, size=n)
    t = rng.uniform(-10, 10, size=n)
    t = np.where(k == 0, 0.0, t)
    sgn = np.where(rng.random(n) < 0.5, 1.0, -1.0)
    t = np.where(k == 1, sgn * 10.0 ** rng.uniform(-9, 0, size=n), t)
    t = np.where(k == 2, sgn * rng.uniform(10, 38, size=n), t)  # Gaussian tail, z up to ~720
    t = np.where(k == 3, sgn * 10.0 ** rng.uniform(1.5, 4, size=n), t)  # beyond underflow / Lorentz tail
    x = loc + scale * t
    if not conditioned:
        absx = sgn * 10.0 ** rng.uniform(-6, 6.3, size=n)
        x = np.where(k == 4, absx, x)
        x = np.where(k == 5, np.nextafter(loc, sgn * np.inf), x)
    if np.any(k == 0):
        ctx.hit('x == loc')
    if np.any(k == 2):
        ctx.hit('gaussian tail 10..38 sigma')
    return np.asarray(x, dtype=np.float64)


def make_x(rng, ctx, values, unit):
    """scalar / 1-d variable (and its class)."""
    values = np.asarray(values, dtype=np.float64)
    if values.size == 1 and rng.random() < 0.8:
        ctx.hit('scalar x')
        return sc.scalar(float(values[0]), unit=unit), 'scalar'
    dim = DIMS[int(rng.integers(0, len(DIMS)))]
    return sc.array(dims=[dim], values=values, unit=unit), ('1d' if values.size > 1 else '1d-len1')


def bits(v: sc.Variable):
    return (tuple(v.dims), tuple(v.shape), str(v.unit), str(v.dtype),
            np.ascontiguousarray(v.values).tobytes())


def shuffled(rng, d):
    keys = list(d)
    rng.shuffle(keys)
    return {k: d[k] for k in keys}


# -------------------------------------------------------- identity monitors ---
def safe_call(model, x, params):
    try:
        return model(x, **params)
    except Exception:  # noqa: BLE001  (the __call__ monitor has already judged it)
        return None


def data_of(y, xs):
    """Data array of a curve the model returned over the abscissae xs; None when the model did not return a
    curve over xs (reported by the __call__ monitor)."""
    if not isinstance(y, sc.Variable) or tuple(y.dims) != tuple(xs.dims) or tuple(y.shape) != tuple(xs.shape):
        return None
    return sc.DataArray(y, coords={xs.dim: xs})


def values_of(f, n):
    """float64 values of a result the identities can use: a Variable with n finite-or-not numbers; anything
    else (reported as result_type / wrong_shape by the __call__ monitor) gives None."""
    if not isinstance(f, sc.Variable):
        return None
    try:
        v = np.asarray(f.values, dtype=np.float64)
    except Exception:  # noqa: BLE001
        return None
    return v if v.shape == (n,) else None


def check_prefix_bitwise(ctx, results, what, case, kind):
    """results: list of (prefix, Variable | None)."""
    ok = [(p, r) for p, r in results if isinstance(r, sc.Variable)]
    if len(ok) < 2:
        return
    ref_p, ref = ok[0]
    ctx.event('prefix_bitwise.' + what)
    for p, r in ok[1:]:
        if bits(r) != bits(ref):
            ctx.violation('prefix_dependence',
                          f'{what} of {kind} differs between prefix {ref_p!r} and prefix {p!r}', case,
                          model=kind, quantity=what, prefix_class=prefix_class(p))
            return


def check_refusals(rng, ctx, model, names, good, extra_pool):
    """Three calls with a missing / an extra / an unknown name; judged by the __call__ monitor."""
    names = sorted(names)
    drop = names[int(rng.integers(0, len(names)))]
    bad = {k: v for k, v in good.items() if k != drop}
    safe_call(model, good['__x__'], {k: v for k, v in bad.items() if k != '__x__'})
    ex = extra_pool[int(rng.integers(0, len(extra_pool)))]
    if ex in names:
        ex = ex + '_'
    bad = dict(good)
    bad[ex] = good[drop]
    safe_call(model, good['__x__'], {k: v for k, v in bad.items() if k != '__x__'})
    bad = {k: v for k, v in good.items() if k != drop}
    r = rng.random()
    new = drop + 'x' if r < 0.3 else (drop[1:] if r < 0.6 and len(drop) > 1 else 'q' + drop)
    if new in names:
        new = new + '?'
    bad[new] = good[drop]
    safe_call(model, good['__x__'], {k: v for k, v in bad.items() if k != '__x__'})


def exact_pairs(rng, loc, scale, n):
    """Abscissae (xp, xm) with xp + xm == 2 loc exactly (both are floats by construction).

    Candidates: loc + d for arbitrary d, and loc + k q on a dyadic grid q ~ 2^-20 scale
    (locations drawn on that grid make every such pair exact); kept only when the
    error-free TwoSum proves xp + xm == 2 loc."""
    d0 = scale * 10.0 ** rng.uniform(-3, 1.5, size=n)
    q = 2.0 ** (np.floor(np.log2(scale)) - 20)
    xp = np.concatenate([loc + d0, loc + np.maximum(np.rint(d0 / q), 1.0) * q])
    xm = 2.0 * loc - xp
    good = pk.two_sum_exact(xp, xm, 2.0 * loc) & (xp != loc)
    return xp[good], xm[good]


def peak_identities(rng, ctx, model, prefix, kind, vals, pv, xunit, case):
    """Normalisation, symmetry, half maximum on one conditioned parameter set."""
    loc, scale, amp = vals['loc'], vals['scale'], vals['amplitude']
    params = {prefix + k: v for k, v in pv.items()}
    cond = 1.0 + abs(loc) / scale
    # -- normalisation
    xq, wq = pk.tan_nodes(loc, scale, 400)
    f = values_of(safe_call(model, sc.array(dims=['x'], values=xq, unit=xunit), params), len(xq))
    if f is not None:
        integral = pk.integrate(f, xq, wq, loc, scale)
        dev = float(abs(integral - LD(amp)) / abs(LD(amp)))
        ctx.event('normalisation.' + kind)
        ctx.dev('normalisation.' + kind + ' [relative]', dev)
        if not dev <= TOL_NORM:
            ctx.violation('normalisation', f'{kind}: integral = {float(integral)!r}, amplitude = {amp!r} '
                          f'(relative defect {dev:.3g} > {TOL_NORM:g})', case, model=kind, layer='identity')
    # -- symmetry on exactly representable pairs
    xp, xm = exact_pairs(rng, loc, scale, 8)
    if xp.size == 0:
        ctx.count('symmetry_no_exact_pair')
    else:
        xs = np.concatenate([xp, xm])
        f = values_of(safe_call(model, sc.array(dims=['x'], values=xs, unit=xunit), params), len(xs))
        if f is not None:
            fv = f.astype(LD)
            fp, fm = fv[: xp.size], fv[xp.size:]
            z = ((xp.astype(LD) - LD(loc)) / LD(scale)) ** 2 / 2 if kind != 'lorentz' else LD(0)
            tol = 2 * LD(pk.K * EPS) * (1 + z) * np.maximum(np.abs(fp), np.abs(fm)) + pk.FLOOR
            dev = float(np.max(np.abs(fp - fm) / tol))
            ctx.event('symmetry.' + kind)
            ctx.count('symmetry_pairs', int(xp.size))
            ctx.dev('symmetry.' + kind + ' [fraction of bound]', dev)
            if dev > 1.0:
                i = int(np.argmax(np.abs(fp - fm) / tol))
                c = dict(case)
                c['pair'] = {'xp_hex': float(xp[i]).hex(), 'xm_hex': float(xm[i]).hex(),
                             'f_xp': repr(fp[i]), 'f_xm': repr(fm[i])}
                ctx.violation('asymmetry', f'{kind}: f(loc+d) = {float(fp[i])!r} but f(loc-d) = {float(fm[i])!r}',
                              c, model=kind, layer='identity')
    # -- half maximum at loc +- fwhm/2 with the fwhm the model reports
    halfmax_identity(ctx, model, kind, params, params, loc, scale, xunit, case)


def halfmax_identity(ctx, model, kind, params, fwhm_params, loc, scale, xunit, case):
    """f(loc +- fwhm/2) = f(loc)/2 with the fwhm the model reports when asked with ``fwhm_params`` (the
    model's own dict, or -- as fit_peaks does -- the full dict of a composite that contains the model)."""
    cond = 1.0 + abs(loc) / scale
    try:
        w = model.fwhm(fwhm_params)
    except Exception:  # noqa: BLE001  (judged by the fwhm monitor)
        w = None
    if isinstance(w, sc.Variable) and w.ndim == 0 and w.unit == sc.Unit(xunit) and np.isfinite(w.value):
        half = float(w.value) / 2.0
        xs = np.array([loc, loc + half, loc - half], dtype=np.float64)
        f = values_of(safe_call(model, sc.array(dims=['x'], values=xs, unit=xunit), params), len(xs))
        if f is not None:
            fv = f.astype(LD)
            want = fv[0] / 2
            dev = np.abs(fv[1:] - want) / np.abs(want)
            units = float(np.max(dev)) / (EPS * cond)
            ctx.event('halfmax.' + kind)
            ctx.dev('halfmax.' + kind + ' [eps (1+|loc|/scale)]', units)
            if not units <= pk.K:
                c = dict(case)
                c['halfmax'] = {'fwhm_hex': float(w.value).hex(), 'f_loc': repr(fv[0]), 'f_plus': repr(fv[1]),
                                'f_minus': repr(fv[2])}
                ctx.violation('half_maximum', f'{kind}: f(loc +- fwhm/2)/f(loc) = {float(fv[1] / fv[0])!r}, '
                              f'{float(fv[2] / fv[0])!r} with the reported fwhm {w.value!r} (scale {scale!r}); '
                              f'off by {units:.3g} eps(1+|loc|/scale)', c, model=kind, layer='identity')


def bits_full(v):
    """Everything a returned parameter value consists of (values, variances, unit, dtype, shape); any
    other kind of object by its repr."""
    if not isinstance(v, sc.Variable):
        return ('not a Variable', type(v).__name__, repr(v)[:120])
    var = None if v.variances is None else np.ascontiguousarray(v.variances).tobytes()
    return (*bits(v), var)


def _names_of(answer):
    """The names in a dict the package returned; None when the answer is not a dict of strings (whatever
    the package returns is judged, never trusted to have the expected shape)."""
    if not isinstance(answer, dict) or not all(isinstance(k, str) for k in answer):
        return None
    return set(answer)


def judge_guess_names(ctx, spec, answer, case, seen_by):
    """The dict ``guess`` returned: exactly the documented names of the model (which are what ``__call__``
    accepts), every value a scalar Variable.  True when it has that shape."""
    names = spec_names(spec)
    got = _names_of(answer)
    kind = spec['kind']
    ctx.event('guess_names_judged')
    if got is None:
        ctx.violation('guess_type', f'{spec_str(spec)}.guess returned {type(answer).__name__}: {answer!r:.200}, '
                      f'expected a dict of parameter name -> value', case, model=kind, seen_by=seen_by)
        return False
    if got != names:
        missing, extra = names - got, got - names
        ctx.violation('guess_names', f'{spec_str(spec)}.guess returned names {sorted(got)}, the model accepts '
                      f'{sorted(names)} (missing {sorted(missing)}, not parameters {sorted(extra)})', case,
                      model=kind, where='guess', seen_by=seen_by,
                      own_prefix='empty' if spec['prefix'] == '' else 'non-empty')
        return False
    bad = {k: v for k, v in answer.items() if not (isinstance(v, sc.Variable) and v.ndim == 0)}
    if bad:
        ctx.violation('guess_type', f'{spec_str(spec)}.guess returned values that are not scalar variables: '
                      f'{ {k: repr(v)[:60] for k, v in bad.items()} }', case, model=kind, seen_by=seen_by)
        return False
    return True


def judge_bounds_names(ctx, spec, answer, case, seen_by):
    """``param_bounds``: a dict whose names are parameters of the model (omitted = unbounded), each value
    a (lower, upper) pair.  True when it has that shape."""
    names = spec_names(spec)
    got = _names_of(answer)
    kind = spec['kind']
    ctx.event('bounds_names_judged')
    if got is None:
        ctx.violation('bounds_type', f'{spec_str(spec)}.param_bounds is {type(answer).__name__}: {answer!r:.200}, '
                      f'expected a dict of parameter name -> (lower, upper)', case, model=kind, seen_by=seen_by)
        return False
    if not got <= names:
        ctx.violation('bounds_names', f'{spec_str(spec)}.param_bounds has names {sorted(got - names)} that are '
                      f'not parameters {sorted(names)}', case, model=kind, where='param_bounds', seen_by=seen_by,
                      own_prefix='empty' if spec['prefix'] == '' else 'non-empty')
        return False
    for k, v in answer.items():
        try:
            lo, hi = v
            ok = float(lo) <= float(hi)
        except Exception:  # noqa: BLE001  (not a pair of numbers)
            ok = False
        if not ok:
            ctx.violation('bounds_type', f'{spec_str(spec)}.param_bounds[{k!r}] = {v!r:.80} is not a '
                          f'(lower, upper) pair', case, model=kind, seen_by=seen_by)
            return False
    return True


def renamed(answer, strip, value_of):
    """A dict the package returned, keyed by the prefix-free name of every entry (documented naming);
    names that are not parameters of the model stay visible as '?name'."""
    return {strip(k): value_of(v) for k, v in answer.items()}


def check_guess_bounds(rng, ctx, models, y_of, kind, case, spec_of=None):
    """guess / param_bounds: same content under every prefix, names accepted by __call__.

    models: list of (model, prefix-map function name->name).  ``spec_of(model)`` gives the spec the model
    was built from (names judged here as well as by the monitors)."""
    gs, bs = [], []
    for i, (model, strip) in enumerate(models):
        spec = spec_of(model) if spec_of is not None else None
        data = y_of(model)
        if data is None:
            return
        try:
            g = model.guess(data)
        except Exception as e:  # noqa: BLE001
            if i == 0:
                ctx.count('guess_raised:' + type(e).__name__)  # nothing to compare with: not judged
            else:
                # the same data under another prefix was accepted
                ctx.violation('prefix_dependence', f'guess of {kind} raised {type(e).__name__}: {e} under one '
                              f'prefix and returned a result under another', case, model=kind, quantity='guess',
                              prefix_class='-')
            return
        if spec is not None:
            if not judge_guess_names(ctx, spec, g, case, 'harness'):
                return
        elif _names_of(g) is None:
            return  # judged by the monitor on guess
        gs.append(renamed(g, strip, bits_full))
        try:
            b = model.param_bounds
        except Exception as e:  # noqa: BLE001
            ctx.violation('bounds_raised', f'param_bounds of {kind} raised {type(e).__name__}: {e}', case,
                          model=kind)
            return
        if spec is not None:
            if not judge_bounds_names(ctx, spec, b, case, 'harness'):
                return
        elif _names_of(b) is None:
            return  # judged by the monitor on param_bounds
        bs.append(renamed(b, strip, repr))
        # round trip: the names guess returns are handed back to __call__ (judged by its monitor)
        safe_call(model, data.coords[data.dim], g)
    ctx.event('prefix_bitwise.guess')
    if any(g != gs[0] for g in gs[1:]):
        ctx.violation('prefix_dependence', f'guess of {kind} differs between prefixes', case, model=kind,
                      quantity='guess', prefix_class='-')
    ctx.event('prefix_bitwise.param_bounds')
    if any(b != bs[0] for b in bs[1:]):
        ctx.violation('prefix_dependence', f'param_bounds of {kind} differs between prefixes', case, model=kind,
                      quantity='param_bounds', prefix_class='-')


# --------------------------------------------------------------------- cases ---
def history_probe(m):
    """Do what a caller may do with what the model hands out (the returned name set and bounds dict are
    the caller's): on a model whose accessors return independent objects this changes nothing."""
    try:
        names = m.param_names
        names.add('__injected__')
        if len(names) > 1:
            names.discard(sorted(names)[0])
        bounds = m.param_bounds
        bounds.clear()
        bounds['__injected__'] = (0.0, 1.0)
    except Exception:  # noqa: BLE001
        pass
    return m


def build_leaf(M, spec):
    k = spec['kind']
    if k == 'gauss':
        return history_probe(M.GaussianModel(prefix=spec['prefix']))
    if k == 'lorentz':
        return history_probe(M.LorentzianModel(prefix=spec['prefix']))
    if k == 'pvoigt':
        return history_probe(M.PseudoVoigtModel(prefix=spec['prefix']))
    return history_probe(M.PolynomialModel(degree=spec['degree'], prefix=spec['prefix']))


def scale_band(s):
    return int(np.floor(np.log10(s) / 3))


def peak_case(rng, ctx, mon, M, kind, conditioned):
    vals, fcls = draw_peak_values(rng, ctx, kind, conditioned)
    xunit = X_UNITS[int(rng.integers(0, len(X_UNITS)))]
    aunit = A_UNITS[int(rng.integers(0, len(A_UNITS)))]
    pv = peak_vars(vals, xunit, aunit)
    p1 = draw_prefix(rng, ctx, avoid=('',))
    p2 = draw_prefix(rng, ctx, avoid=('', p1))
    ctx.hit('prefix:empty')
    m0 = build_leaf(M, {'kind': kind, 'prefix': ''})
    m1 = build_leaf(M, {'kind': kind, 'prefix': p1})
    m2 = (m0 if rng.random() < 0.5 else m1).with_prefix(p2)
    models = [(m0, ''), (m1, p1), (m2, p2)]
    n = 1 if rng.random() < 0.3 else int(rng.integers(2, 48))
    x, xcls = make_x(rng, ctx, draw_x_peak(rng, ctx, vals, conditioned, n), xunit)
    case = {'kind': kind, 'conditioned': conditioned, 'values_hex': {k: _hex(v) for k, v in vals.items()},
            'x_unit': xunit, 'amplitude_unit': aunit, 'prefixes': ['', p1, p2]}
    res = [(p, safe_call(m, x, shuffled(rng, {p + k: v for k, v in pv.items()}))) for m, p in models]
    check_prefix_bitwise(ctx, res, 'value', case, kind)
    # fwhm under every prefix
    ws = []
    for m, p in models:
        try:
            ws.append((p, m.fwhm({p + k: v for k, v in pv.items()})))
        except Exception:  # noqa: BLE001
            ws.append((p, None))
    check_prefix_bitwise(ctx, ws, 'fwhm', case, kind)
    which = int(rng.integers(0, 3))
    if conditioned:
        peak_identities(rng, ctx, models[which][0], models[which][1], kind, vals, pv, xunit, case)
    m, p = models[1 + int(rng.integers(0, 2))]
    good = {p + k: v for k, v in pv.items()}
    good['__x__'] = x
    check_refusals(rng, ctx, m, [p + k for k in pv], good,
                   ['extra', p + 'extra', p + 'a7', 'amplitude', 'fraction', p + 'fraction', p + p + 'loc',
                    p[:-1] + 'scale', 'λ'])
    if conditioned and rng.random() < 0.3:
        def y_of(model, _m0=m0):
            xs = sc.array(dims=['x'], values=vals['loc'] + vals['scale'] * np.linspace(-6, 6, 41), unit=xunit)
            y = safe_call(_m0, xs, dict(pv))
            return data_of(y, xs)
        check_guess_bounds(rng, ctx, [(mm, (lambda k, _p=pp: k[len(_p):])) for mm, pp in models], y_of, kind, case,
                           spec_of=mon.spec_of)
    sig = (kind, 'cond' if conditioned else 'wild', prefix_class(p1), xunit, aunit, xcls,
           scale_band(vals['scale']), vals['amplitude'] > 0, fcls)
    return sig, False, case


def draw_poly(rng, ctx, degree, xunit, yunit):
    ctx.hit(f'degree {degree}')
    style = int(rng.integers(0, 3))
    xmag = logu(rng, -3, 3)
    cs = []
    for i in range(degree + 1):
        s = 1.0 if rng.random() < 0.5 else -1.0
        if style == 0:
            c = s * logu(rng, -6, 6)
        elif style == 1:  # balanced terms at |x| ~ xmag: heavy cancellation is likely
            c = s * rng.uniform(0.5, 2.0) / xmag ** i
        else:
            c = s * logu(rng, -2, 2) if rng.random() < 0.75 else 0.0
        cs.append(float(c))
    if cs[-1] == 0.0:
        cs[-1] = 1.0
    uy, ux = sc.Unit(yunit), sc.Unit(xunit)
    pv = {f'a{i}': sc.scalar(c, unit=uy / ux ** i) for i, c in enumerate(cs)}
    return cs, pv, xmag


def draw_x_poly(rng, ctx, cs, xmag, n):
    k = rng.integers(0, 6, size=n)
    sgn = np.where(rng.random(n) < 0.5, 1.0, -1.0)
    x = sgn * xmag * rng.uniform(0.1, 3.0, size=n)
    x = np.where(k == 0, sgn * 10.0 ** rng.uniform(-3, 3, size=n), x)
    x = np.where(k == 1, 0.0, x)
    # near a real root of the polynomial (own computation): exercises the cancellation-aware bound
    try:
        roots = np.roots(cs[::-1])
        real = roots[np.abs(roots.imag) < 1e-9 * (1 + np.abs(roots.real))].real
        real = real[(np.abs(real) > 1e-4) & (np.abs(real) < 1e4)]
    except Exception:  # noqa: BLE001
        real = np.zeros(0)
    if real.size:
        r = real[rng.integers(0, real.size, size=n)]
        x = np.where(k == 2, r * (1 + rng.normal(0, 1e-12, size=n)), x)
        if np.any(k == 2):
            ctx.hit('polynomial near a root')
    return np.asarray(x, dtype=np.float64)


def poly_case(rng, ctx, mon, M):
    degree = int(rng.integers(1, 7))
    xunit = X_UNITS[int(rng.integers(0, len(X_UNITS)))]
    yunit = A_UNITS[int(rng.integers(0, len(A_UNITS)))]
    cs, pv, xmag = draw_poly(rng, ctx, degree, xunit, yunit)
    p1 = draw_prefix(rng, ctx, avoid=('',))
    p2 = draw_prefix(rng, ctx, avoid=('', p1))
    m0 = build_leaf(M, {'kind': 'poly', 'prefix': '', 'degree': degree})
    m1 = build_leaf(M, {'kind': 'poly', 'prefix': p1, 'degree': degree})
    m2 = (m0 if rng.random() < 0.5 else m1).with_prefix(p2)
    models = [(m0, ''), (m1, p1), (m2, p2)]
    n = 1 if rng.random() < 0.3 else int(rng.integers(2, 48))
    x, xcls = make_x(rng, ctx, draw_x_poly(rng, ctx, cs, xmag, n), xunit)
    case = {'kind': 'poly', 'degree': degree, 'coeffs_hex': [_hex(c) for c in cs], 'x_unit': xunit,
            'y_unit': yunit, 'prefixes': ['', p1, p2]}
    res = [(p, safe_call(m, x, shuffled(rng, {p + k: v for k, v in pv.items()}))) for m, p in models]
    check_prefix_bitwise(ctx, res, 'value', case, 'poly')
    m, p = models[1 + int(rng.integers(0, 2))]
    good = {p + k: v for k, v in pv.items()}
    good['__x__'] = x
    check_refusals(rng, ctx, m, [p + k for k in pv], good,
                   ['extra', p + f'a{degree + 1}', p + 'a', f'a{degree + 1}', 'a0', p + p + 'a0', p + 'amplitude'])
    try:
        m.fwhm({k: v for k, v in good.items() if k != '__x__'})
    except Exception:  # noqa: BLE001  (judged by the monitor on Model.fwhm)
        pass
    if rng.random() < 0.3:
        def y_of(model, _m0=m0):
            xs = sc.array(dims=['x'], values=xmag * np.linspace(-2, 2, 31), unit=xunit)
            y = safe_call(_m0, xs, dict(pv))
            return data_of(y, xs)
        check_guess_bounds(rng, ctx, [(mm, (lambda k, _p=pp: k[len(_p):])) for mm, pp in models], y_of, 'poly', case,
                           spec_of=mon.spec_of)
    sig = ('poly', degree, prefix_class(p1), xunit, yunit, xcls, int(np.floor(np.log10(xmag))))
    return sig, False, case


def draw_tree(rng, ctx, n_parts):
    """Plan of a composite: shape of the tree and the kinds of the leaves (no prefixes yet)."""
    kinds = ['gauss', 'lorentz', 'pvoigt', 'poly']
    leaves = [kinds[int(rng.integers(0, 4))] for _ in range(n_parts)]
    if n_parts == 2:
        return ('c', leaves[0], leaves[1])
    if rng.random() < 0.5:
        return ('c', ('c', leaves[0], leaves[1]), leaves[2])
    return ('c', leaves[0], ('c', leaves[1], leaves[2]))


def assign_prefixes(rng, ctx, tree, leaf_prefixes, comp_prefixes):
    """Turn a tree plan into a spec using the given prefix pools (consumed left to right)."""
    if isinstance(tree, str):
        spec = {'kind': tree, 'prefix': leaf_prefixes.pop(0)}
        return spec
    _, left, right = tree
    ls = assign_prefixes(rng, ctx, left, leaf_prefixes, comp_prefixes)
    rs = assign_prefixes(rng, ctx, right, leaf_prefixes, comp_prefixes)
    return {'kind': 'comp', 'prefix': comp_prefixes.pop(0), 'left': ls, 'right': rs}


def n_leaves(tree):
    return 1 if isinstance(tree, str) else n_leaves(tree[1]) + n_leaves(tree[2])


def n_comps(tree):
    return 0 if isinstance(tree, str) else 1 + n_comps(tree[1]) + n_comps(tree[2])


def leaves_of(spec):
    if spec['kind'] == 'comp':
        return leaves_of(spec['left']) + leaves_of(spec['right'])
    return [spec]


def build_model(rng, M, spec, use_add):
    if spec['kind'] != 'comp':
        return build_leaf(M, spec)
    left = build_model(rng, M, spec['left'], use_add)
    right = build_model(rng, M, spec['right'], use_add)
    if spec['prefix'] == '' and use_add:
        return history_probe(left + right)
    return history_probe(M.CompositeModel(left, right, prefix=spec['prefix']))


def full_params(spec, leaf_values, acc=''):
    """Full parameter dict of a spec; leaf_values: list (in leaf order) of dict base name -> Variable."""
    out = {}
    it = iter(leaf_values)

    def walk(s, pre):
        pre = pre + s['prefix']
        if s['kind'] == 'comp':
            walk(s['left'], pre)
            walk(s['right'], pre)
        else:
            vals = next(it)
            for k, v in vals.items():
                out[pre + k] = v
    walk(spec, acc)
    return out


def composite_case(rng, ctx, mon, M):
    n_parts = 2 if rng.random() < 0.6 else 3
    tree = draw_tree(rng, ctx, n_parts)
    xunit = X_UNITS[int(rng.integers(0, len(X_UNITS)))]
    yunit = A_UNITS[int(rng.integers(0, len(A_UNITS)))]
    aunit = sc.Unit(yunit) * sc.Unit(xunit)
    # leaf values: peaks close to each other so that no part is negligible
    centre = logu(rng, -3, 3) * (1.0 if rng.random() < 0.5 else -1.0)
    width = abs(centre) * logu(rng, -3, 0) if rng.random() < 0.7 else logu(rng, -4, 4)
    width = float(np.clip(width, 1e-6, 1e6))
    leaf_values, leaf_kinds = [], []

    def collect(t):
        if isinstance(t, str):
            leaf_kinds.append(t)
        else:
            collect(t[1])
            collect(t[2])
    collect(tree)
    degs = []
    for k in leaf_kinds:
        if k == 'poly':
            deg = int(rng.integers(1, 7))
            cs, pv, _ = draw_poly(rng, ctx, deg, xunit, yunit)
            # make it comparable with the peaks around the centre
            degs.append(deg)
            leaf_values.append(pv)
        else:
            vals, _ = draw_peak_values(rng, ctx, k, True)
            vals['scale'] = float(np.clip(width * logu(rng, -1, 1), 1e-6, 1e6))
            vals['loc'] = centre + width * float(rng.uniform(-2, 2))
            degs.append(None)
            leaf_values.append(peak_vars(vals, xunit, aunit))

    def mk_spec(leaf_pre, comp_pre):
        spec = assign_prefixes(rng, ctx, tree, list(leaf_pre), list(comp_pre))
        for leaf, d in zip(leaves_of(spec), degs, strict=True):
            if d is not None:
                leaf['degree'] = d
        return spec

    nl, nc = n_leaves(tree), n_comps(tree)
    # variant A: plain distinct prefixes; variant B: mutually nested / leading-character / unicode prefixes
    plain = ['p_', 'n_', 'g1_', 'bkg_', 'q2', 'Z']
    rng.shuffle(plain)
    spec_a = mk_spec(plain[:nl], [''] * nc)
    pair = NESTED_PAIRS[int(rng.integers(0, len(NESTED_PAIRS)))]
    pool = list(pair) + [draw_prefix(rng, ctx, avoid=pair)]
    rng.shuffle(pool)
    comp_pre = [draw_prefix(rng, ctx) if rng.random() < 0.6 else '' for _ in range(nc)]
    spec_b = mk_spec(pool[:nl], comp_pre)
    ctx.hit('prefix:nested pair')
    specs = [spec_a, spec_b]
    models = []
    for i, spec in enumerate(specs):
        # overlapping names are refused by the constructor (counted by the monitor): skip the variant
        try:
            m = build_model(rng, M, spec, use_add=bool(rng.integers(0, 2)))
        except ValueError:
            ctx.count('composite_variant_refused')
            continue
        if mon.spec_of(m) is None:
            ctx.count('composite_variant_unregistered')
            continue
        if mon.spec_of(m) != spec:
            ctx.inconclusive_because('harness: observed composite structure differs from the plan: '
                                     f'{spec_str(mon.spec_of(m))} vs {spec_str(spec)}')
            continue
        models.append((m, spec))
    if models and rng.random() < 0.7:
        m, spec = models[-1]
        p3 = draw_prefix(rng, ctx)
        m3 = m.with_prefix(p3)
        s3 = dict(spec)
        s3['prefix'] = p3
        models.append((m3, s3))
    n = 1 if rng.random() < 0.25 else int(rng.integers(2, 40))
    xv = centre + width * rng.uniform(-6, 6, size=n)
    if rng.random() < 0.3:
        xv[0] = centre
    x, xcls = make_x(rng, ctx, xv, xunit)
    case = {'kind': 'comp', 'tree': repr(tree), 'x_unit': xunit, 'y_unit': yunit,
            'specs': [spec_str(s) for _, s in models],
            'leaf_values': [describe_params(v) for v in leaf_values]}
    res = []
    for m, spec in models:
        params = shuffled(rng, full_params(spec, leaf_values))
        res.append((spec_str(spec), safe_call(m, x, params)))
    check_prefix_bitwise(ctx, res, 'value', case, 'comp')
    if models:
        m, spec = models[int(rng.integers(0, len(models)))]
        good = full_params(spec, leaf_values)
        names = list(good)
        good['__x__'] = x
        sub = leaves_of(spec)[0]
        check_refusals(rng, ctx, m, names, good,
                       ['extra', spec['prefix'] + 'extra', sub['prefix'] + 'loc', 'amplitude', 'a0',
                        spec['prefix'] + 'a9', names[0] + names[0]])
        try:
            m.fwhm({k: v for k, v in good.items() if k != '__x__'})
        except Exception:  # noqa: BLE001  (judged by the monitor on Model.fwhm)
            pass
        if rng.random() < 0.25:
            def strip_for(spec):
                # map full names to prefix-free leaf-indexed names using the documented naming
                table = {}
                idx = [0]

                def walk(s, pre):
                    pre = pre + s['prefix']
                    if s['kind'] == 'comp':
                        walk(s['left'], pre)
                        walk(s['right'], pre)
                    else:
                        for b in base_names(s):
                            table[pre + b] = f'{idx[0]}:{b}'
                        idx[0] += 1
                walk(spec, '')
                return lambda k: table.get(k, '?' + k)

            def y_of(model):
                xs = sc.array(dims=['x'], values=centre + width * np.linspace(-6, 6, 41), unit=xunit)
                sp = mon.spec_of(model)
                y = safe_call(model, xs, full_params(sp, leaf_values)) if sp else None
                return data_of(y, xs)
            check_guess_bounds(rng, ctx, [(mm, strip_for(ss)) for mm, ss in models], y_of, 'comp', case,
                               spec_of=mon.spec_of)
    sig = ('comp', repr(tree), tuple(sorted(set(leaf_kinds))), xunit, yunit, xcls, len(models))
    return sig, False, case


# ------------------------------------------------- families of related prefixes ---
# bases used by the deterministic family cases of every shard: long enough (>= 3 characters, with a
# digit) for every relation below to exist
NUMBERED = ['p1_', 'g2_', 'pk1_', 'peak_1_', 'n01', 'bkg1_', 'λ1_']
_ALT = 'qZ7_-λ'

REL_LAST = 'same length, last character differs'
REL_FIRST = 'same length, first character differs'
REL_INNER = 'same length, inner character differs'
REL_ALL = 'same length, every character differs'
REL_REV = 'same length, reversed'
REL_EXT = 'base is a proper prefix of it'
REL_DBL = 'base doubled'
REL_CUT = 'it is a proper prefix of base'
REL_LONG = 'longer, unrelated text'
REL_SHORT = 'shorter, unrelated text'
REL_EMPTY = 'empty'
RELATIONS = [REL_LAST, REL_FIRST, REL_INNER, REL_ALL, REL_REV, REL_EXT, REL_DBL, REL_CUT, REL_LONG, REL_SHORT,
             REL_EMPTY]

# kinds of parameter dicts a caller produces for model i of a family (labels for the evidence)
DK_COMP_FIRST = 'composite dict, own entries first'
DK_COMP_LAST = 'composite dict, own entries last'
DK_COMP_SHUF = 'composite dict, shuffled'
DK_SIB = 'sibling names, sibling values'
DK_SIB_OWNVAL = 'sibling names, own values'
DK_OWN_SIB = 'own + sibling'
DK_SIB_OWN = 'sibling + own'
DK_SWAP1 = 'one name taken from the sibling'
DK_MIXED = 'names mixed between own and sibling'
DICT_KINDS = [DK_COMP_FIRST, DK_COMP_LAST, DK_COMP_SHUF, DK_SIB, DK_SIB_OWNVAL, DK_OWN_SIB, DK_SIB_OWN, DK_SWAP1,
              DK_MIXED]


def _other(c, k=0):
    for ch in _ALT[k:] + _ALT[:k]:
        if ch != c:
            return ch
    return 'q'


def prefix_family(rng, base):
    """[(relation to base, prefix)]: the base and sibling prefixes related to it in every way two prefixes
    can be related (equal length with different text in the first / an inner / the last / every position,
    one a proper prefix of the other in both directions, longer / shorter unrelated text, empty).  Derived
    generically from any non-empty base; duplicates (short bases) are dropped."""
    n = len(base)
    every = ''.join(_other(c, 2) for c in base)
    fam = [('base', base),
           (REL_LAST, base[:-1] + _other(base[-1])),
           (REL_FIRST, _other(base[0], 1) + base[1:])]
    if n >= 3:
        i = 1 + int(rng.integers(0, n - 2))
        c = base[i]
        fam.append((REL_INNER, base[:i] + (str((int(c) + 1) % 10) if c in '0123456789' else _other(c, 3))
                    + base[i + 1:]))
    digits = [i for i, c in enumerate(base) if c in '0123456789']
    if digits:  # the numbered sibling: p1_ -> p2_
        i = digits[-1]
        fam.append((REL_INNER if 0 < i < n - 1 else (REL_LAST if i == n - 1 else REL_FIRST),
                    base[:i] + str((int(base[i]) + 1) % 10) + base[i + 1:]))
    fam += [(REL_ALL, every), (REL_REV, base[::-1]), (REL_EXT, base + base[-1]), (REL_DBL, base + base),
            (REL_CUT, base[:-1]), (REL_LONG, every + 'x'), (REL_SHORT, every[:-1]), (REL_EMPTY, '')]
    out, seen = [], set()
    for rel, p in fam:
        if p not in seen:
            seen.add(p)
            out.append((rel, p))
    return out


def relation_of(p, q):
    """Relation of prefix q to prefix p (for witnesses)."""
    if len(p) == len(q):
        return 'same length'
    if q.startswith(p) or p.startswith(q):
        return 'one a prefix of the other'
    return 'different length'


def name_map(spec):
    """full parameter name -> 'leaf index:base name' from the documented naming of the spec."""
    table = {}
    idx = [0]

    def walk(s, pre):
        pre = pre + s['prefix']
        if s['kind'] == 'comp':
            walk(s['left'], pre)
            walk(s['right'], pre)
        else:
            for b in base_names(s):
                table[pre + b] = f'{idx[0]}:{b}'
            idx[0] += 1
    walk(spec, '')
    return lambda k: table.get(k, '?' + k)


def family_case(rng, ctx, mon, M, kind, base):
    """One family: the same model under a base prefix and every related sibling prefix, evaluated and asked
    for fwhm / guess / param_bounds with every kind of parameter dict a caller holds: exactly its own, the
    full dict of the composite of the whole family (what fit_peaks hands to ``peak.fwhm``), own + one
    sibling in both orders, the sibling's names (with the sibling's or with its own values) and mixtures.
    Every sibling has its own parameter values, so a result taken from a foreign entry differs."""
    fam = prefix_family(rng, base)
    for rel, _ in fam[1:]:
        ctx.hit('family: ' + rel)
    xunit = X_UNITS[int(rng.integers(0, len(X_UNITS)))]
    yunit = A_UNITS[int(rng.integers(0, len(A_UNITS)))]
    aunit = sc.Unit(yunit) * sc.Unit(xunit)
    centre = logu(rng, -3, 3) * (1.0 if rng.random() < 0.5 else -1.0)
    width = abs(centre) * logu(rng, -3, 0) if rng.random() < 0.7 else logu(rng, -4, 4)
    width = float(np.clip(width, 1e-6, 1e6))
    degree = int(rng.integers(1, 7))
    if kind == 'comp':
        lp, rp = NESTED_PAIRS[int(rng.integers(0, len(NESTED_PAIRS)))] if rng.random() < 0.5 else ('b_', 'g_')
        pk_kind = PEAKS[int(rng.integers(0, 3))]
        leaf_kinds = ['poly', pk_kind]

        def spec_for(p):
            return {'kind': 'comp', 'prefix': p, 'left': {'kind': 'poly', 'prefix': lp, 'degree': degree},
                    'right': {'kind': pk_kind, 'prefix': rp}}
    elif kind == 'poly':
        leaf_kinds = ['poly']

        def spec_for(p):
            return {'kind': 'poly', 'prefix': p, 'degree': degree}
    else:
        leaf_kinds = [kind]

        def spec_for(p):
            return {'kind': kind, 'prefix': p}

    def draw_values():
        out, num = [], []
        for k in leaf_kinds:
            if k == 'poly':
                _, pv, _ = draw_poly(rng, ctx, degree, xunit, yunit)
                out.append(pv)
                num.append(None)
            else:
                vals, _ = draw_peak_values(rng, ctx, k, True)
                vals['scale'] = float(np.clip(width * logu(rng, -1, 1), 1e-6, 1e6))
                vals['loc'] = centre + width * float(rng.uniform(-2, 2))
                out.append(peak_vars(vals, xunit, aunit))
                num.append(vals)
        return out, num

    # ---- the members: half built by the constructor, half by with_prefix from an earlier member
    members = []  # (model, spec, leaf values, numeric peak values, relation)
    for i, (rel, p) in enumerate(fam):
        spec = spec_for(p)
        if i > 0 and rng.random() < 0.5:
            m = members[int(rng.integers(0, len(members)))][0].with_prefix(p)
        else:
            m = build_model(rng, M, spec, use_add=False)
        if mon.spec_of(m) != spec:
            ctx.inconclusive_because('harness: observed family member differs from the plan: '
                                     f'{mon.spec_of(m)} vs {spec_str(spec)}')
            continue
        lv, num = draw_values()
        members.append((m, spec, lv, num, rel))
    n = int(rng.integers(2, 8))
    x, xcls = make_x(rng, ctx, centre + width * rng.uniform(-6, 6, size=n), xunit)
    case = {'kind': kind, 'family': [[rel, sp['prefix']] for _, sp, _, _, rel in members], 'x_unit': xunit,
            'y_unit': yunit, 'member': spec_str(spec_for(base)),
            'values': [[describe_params(v) for v in lv] for _, _, lv, _, _ in members]}
    is_peak = kind in PEAKS

    def fwhm_of(m, params):
        try:
            return m.fwhm(params)
        except Exception:  # noqa: BLE001  (judged by the fwhm monitors)
            return None

    # ---- round A: the SAME values under every prefix -> bitwise equal value / fwhm / guess / bounds
    common = members[0][2]
    mon.dict_kind = None
    res = [(sp['prefix'], safe_call(m, x, shuffled(rng, full_params(sp, common)))) for m, sp, *_ in members]
    check_prefix_bitwise(ctx, res, 'value', case, kind)
    ws = [(sp['prefix'], fwhm_of(m, full_params(sp, common))) for m, sp, *_ in members]
    if is_peak:
        check_prefix_bitwise(ctx, ws, 'fwhm', case, kind)

    def y_of(model):
        xs = sc.array(dims=['x'], values=centre + width * np.linspace(-6, 6, 41), unit=xunit)
        sp = mon.spec_of(model)
        y = safe_call(model, xs, full_params(sp, common)) if sp else None
        return data_of(y, xs)
    check_guess_bounds(rng, ctx, [(m, name_map(sp)) for m, sp, *_ in members], y_of, kind, case,
                       spec_of=mon.spec_of)

    # ---- round B: every member has its own values
    own = [full_params(sp, lv) for _, sp, lv, _, _ in members]
    full = {}
    for d in own:
        full.update(d)
    disjoint = len(full) == sum(len(d) for d in own)
    if not disjoint:
        ctx.count('family_names_overlap')  # cannot happen with the documented naming; then nothing below is sound
        return ('family', kind, 'overlap'), False, case
    # the composite that contains the whole family, as a caller builds it (m0 + m1 + ...), evaluated with
    # the full dict: judged pointwise and part by part by the __call__ monitor
    try:
        big = members[0][0]
        for m, *_ in members[1:]:
            big = (big + m) if rng.random() < 0.7 else (m + big)
        safe_call(big, x, shuffled(rng, full))
        ctx.event('family_composite')
    except Exception:  # noqa: BLE001
        ctx.count('family_composite_not_built')

    def ask(i, label, params, superset):
        """model i evaluated and asked for its fwhm with ``params`` (not its own dict)."""
        m, sp, _, num, _ = members[i]
        mon.dict_kind = label
        safe_call(m, x, params)  # names differ from the model's own: the monitor demands a refusal
        if is_peak:
            w = fwhm_of(m, params)
            if superset and isinstance(w, sc.Variable) and isinstance(w_own[i], sc.Variable):
                ctx.event('fwhm_superset_bitwise')
                if bits(w) != bits(w_own[i]):
                    c = dict(case)
                    c['asked'] = {'model': spec_str(sp), 'dict_kind': label, 'params': describe_params(params)}
                    ctx.violation('fwhm_depends_on_foreign_entries',
                                  f'{spec_str(sp)}.fwhm = {w.value!r} with a dict that holds its own parameters '
                                  f'and others ({label}), {w_own[i].value!r} with its own parameters alone',
                                  c, model=kind, names=label)
        mon.dict_kind = None

    mon.dict_kind = None
    w_own = []
    for (m, sp, _, num, _), d in zip(members, own, strict=True):
        safe_call(m, x, shuffled(rng, d))
        w_own.append(fwhm_of(m, d) if is_peak else None)
    nm = len(members)
    pairs = []
    for j in range(1, nm):
        pairs.append((0, j))  # the base against every relative
        pairs.append((j, 0))  # every relative against the base
        k = int(rng.integers(1, nm))
        if k != j:
            pairs.append((j, k))
    for i in range(nm):
        rest = shuffled(rng, {k: v for k, v in full.items() if k not in own[i]})
        ask(i, DK_COMP_FIRST, {**own[i], **rest}, True)
        ask(i, DK_COMP_LAST, {**rest, **own[i]}, True)
        ask(i, DK_COMP_SHUF, shuffled(rng, full), True)
        if is_peak:
            # half maximum with the fwhm reported for the full dict (what fit_peaks does with popt)
            num = members[i][3][0]
            halfmax_identity(ctx, members[i][0], kind, own[i], {**rest, **own[i]}, num['loc'], num['scale'],
                             xunit, case)
    for i, j in pairs:
        spi, spj = members[i][1], members[j][1]
        ctx.count('family_pair:' + relation_of(spi['prefix'], spj['prefix']))
        ask(i, DK_SIB, dict(own[j]), False)
        ask(i, DK_SIB_OWNVAL, full_params(spj, members[i][2]), False)
        ask(i, DK_OWN_SIB, {**own[i], **own[j]}, True)
        ask(i, DK_SIB_OWN, {**own[j], **own[i]}, True)
        ni, nj = list(own[i]), list(own[j])  # corresponding names (same structure, same order)
        t = next((t for t, k in enumerate(ni) if k.endswith('scale')), 0) if rng.random() < 0.5 else \
            int(rng.integers(0, len(ni)))
        ask(i, DK_SWAP1, {(nj[u] if u == t else ni[u]): (own[j][nj[u]] if u == t else own[i][ni[u]])
                          for u in range(len(ni))}, False)
        take = rng.random(len(ni)) < 0.5
        take[int(rng.integers(0, len(ni)))] = True
        if take.all():
            take[int(rng.integers(0, len(ni)))] = False
        ask(i, DK_MIXED, {(nj[u] if take[u] else ni[u]): (own[j][nj[u]] if take[u] else own[i][ni[u]])
                          for u in range(len(ni))}, False)
    sig = ('family', kind, prefix_class(base), min(len(base), 6), xunit, yunit, xcls)
    return sig, False, case


# ------------------------- guess / param_bounds / param_names under every way to carry prefixes ---
# "Results are independent of the parameter-name prefix" (prefix handling in guess, param_bounds): a prefix
# can sit on a leaf, on a composite (given to the constructor or attached with with_prefix), on a composite
# nested in another composite (left or right, the outer one with or without a prefix of its own), and on
# several of these at once.  For every such structure the estimate is compared with the estimate of the
# same tree with plain distinct leaf prefixes and no composite prefix (under the documented renaming), for
# every way the data can name the independent variable: coord not given, the dimension-coordinate by
# name, another coordinate of the data (other unit, other values), data with variances.
GC_LEAF = 'guess: leaf with a prefix'
GC_CTOR = 'guess: composite with its own prefix (constructor)'
GC_WITH = 'guess: composite with its own prefix (with_prefix)'
GC_NEST_L = 'guess: prefixed composite nested as the left part'
GC_NEST_R = 'guess: prefixed composite nested as the right part'
GC_NEST_BOTH = 'guess: prefixed composite inside a prefixed composite'
GC_OUTER_ONLY = 'guess: un-prefixed composite inside a prefixed composite'
GC_LEAVES = 'guess: related leaf prefixes inside a prefixed composite'
GC_BARE_LEAF = 'guess: un-prefixed leaf inside a prefixed composite'
GC_REPREFIX = 'guess: prefixed composite given another prefix'
GC_UNPREFIX = 'guess: prefixed composite given the empty prefix'
GM_NONE = 'guess: coord not given'
GM_DIM = 'guess: coord = the dimension-coordinate by name'
GM_OTHER = 'guess: coord = another coordinate of the data'
GM_VAR = 'guess: data with variances'
GM_MASK = 'guess: data with masks'
GUESS_CLASSES = [GC_LEAF, GC_CTOR, GC_WITH, GC_NEST_L, GC_NEST_R, GC_NEST_BOTH, GC_OUTER_ONLY, GC_LEAVES,
                 GC_BARE_LEAF, GC_REPREFIX, GC_UNPREFIX, GM_NONE, GM_DIM, GM_OTHER, GM_VAR, GM_MASK]

GUESS_SHAPES = {'pair': ('c', 0, 1), 'nested left': ('c', ('c', 0, 1), 2), 'nested right': ('c', 0, ('c', 1, 2))}
CANONICAL_LEAF_PREFIXES = ['b_', 'g_', 'h_']


def shape_spec(shape, leaves, comp_prefixes):
    """Spec of a tree shape (leaf indices at the tips); composite prefixes are consumed outermost first."""
    comp_prefixes = list(comp_prefixes)

    def walk(t):
        if isinstance(t, int):
            return dict(leaves[t])
        p = comp_prefixes.pop(0)
        return {'kind': 'comp', 'prefix': p, 'left': walk(t[1]), 'right': walk(t[2])}
    return walk(shape)


def full_names(spec, acc=''):
    pre = acc + spec['prefix']
    if spec['kind'] == 'comp':
        return full_names(spec['left'], pre) + full_names(spec['right'], pre)
    return [pre + b for b in base_names(spec)]


def names_disjoint(spec):
    """No two parameters of the tree share a name, at any level (such trees are refused by the constructor:
    the documentation asks the caller to disambiguate)."""
    if spec['kind'] != 'comp':
        return True
    ln, rn = spec_names(spec['left']), spec_names(spec['right'])
    return not (ln & rn) and names_disjoint(spec['left']) and names_disjoint(spec['right'])


def build_prefixed(M, spec, how):
    """The model of a spec; every non-empty prefix is given to the constructor (how='constructor') or
    attached afterwards with with_prefix (how='with_prefix'); un-prefixed composites are made with +."""
    p = spec['prefix']
    if spec['kind'] != 'comp':
        if p == '' or how == 'constructor':
            return build_leaf(M, spec)
        return history_probe(build_leaf(M, {**spec, 'prefix': ''}).with_prefix(p))
    left, right = build_prefixed(M, spec['left'], how), build_prefixed(M, spec['right'], how)
    if p == '':
        return history_probe(left + right)
    if how == 'constructor':
        return history_probe(M.CompositeModel(left, right, prefix=p))
    return history_probe((left + right).with_prefix(p))


def guess_data(rng, xunit, tunit, yunit, dim, tname):
    """Data with a peak on a sloping background (own numbers), irregular abscissae; three coordinates: the
    dimension-coordinate, another parametrisation of the axis in another unit, and a decoy."""
    n = int(rng.integers(30, 60))
    u = np.sort(rng.uniform(-6, 6, size=n))
    centre = logu(rng, -2, 3) * (1.0 if rng.random() < 0.5 else -1.0)
    width = logu(rng, -2, 2)
    c2 = logu(rng, -2, 3) * (1.0 if rng.random() < 0.5 else -1.0)
    w2 = logu(rng, -2, 2) * (1.0 if rng.random() < 0.7 else -1.0)
    xs = centre + width * u
    ts = c2 + w2 * (u + 0.04 * u * u)
    ymag = logu(rng, -2, 3)
    sign = 1.0 if rng.random() < 0.7 else -1.0
    yv = ymag * (0.3 + 0.05 * u + sign * 2.0 * np.exp(-0.5 * ((u - 0.7) / 0.8) ** 2) + 0.01 * rng.normal(size=n))
    data = sc.DataArray(sc.array(dims=[dim], values=yv, unit=yunit),
                        coords={dim: sc.array(dims=[dim], values=xs, unit=xunit),
                                tname: sc.array(dims=[dim], values=ts, unit=tunit),
                                'decoy': sc.array(dims=[dim], values=rng.uniform(1, 2, size=n), unit='K')})
    with_var = data.copy()
    with_var.variances = (0.05 * ymag) ** 2 * (1.0 + rng.uniform(size=n))
    rekeyed = sc.DataArray(data.data, coords={dim: data.coords[tname]})
    masked = data.copy()
    masked.masks['caller'] = sc.array(dims=[dim], values=rng.random(n) < 0.3)
    masked.masks['edge'] = sc.array(dims=[dim], values=np.arange(n) < 2)
    return data, with_var, rekeyed, masked


def ask_guess(model, data, coord, explicit):
    """('ok', answer) / ('raised', exception)."""
    try:
        return 'ok', (model.guess(data, coord=coord) if explicit else model.guess(data))
    except Exception as e:  # noqa: BLE001
        return 'raised', e


def judge_guess_model(ctx, model, spec, structure, modes, rekeyed, ref, case):
    """One model against the reference answers ``ref`` (None for the reference itself, which is judged for
    names / coordinates / round trip and fills the dict it returns).

    Returns {mode label: renamed answer | None, 'bounds': renamed bounds | None}."""
    kind = 'comp' if spec['kind'] == 'comp' else spec['kind']
    strip = name_map(spec)
    names = spec_names(spec)
    c0 = dict(case)
    c0['model'] = spec_str(spec)
    c0['structure'] = structure
    out = {}
    shaped = {}
    for label, data, coord, explicit, xname in modes:
        c = dict(c0)
        c['mode'] = label
        status, g = ask_guess(model, data, coord, explicit)
        out[label] = None
        if status == 'raised':
            if ref is None or ref.get(label) is None:
                ctx.count('guess_raised:' + type(g).__name__)  # nothing it could be compared with
            else:
                ctx.violation('prefix_dependence',
                              f'guess of {spec_str(spec)} raised {type(g).__name__}: {g} for data the same tree '
                              f'with plain prefixes gave an estimate for ({label})', c, model=kind,
                              quantity='guess', prefix_class='-')
            continue
        if not judge_guess_names(ctx, spec, g, c, 'harness'):
            continue
        shaped[label] = g
        out[label] = renamed(g, strip, bits_full)
        if ref is not None and ref.get(label) is not None:
            ctx.event('prefix_bitwise.guess')
            ctx.event('guess_values_judged: ' + structure)
            if out[label] != ref[label]:
                diff = sorted(k for k in out[label] if out[label][k] != ref[label].get(k))
                ctx.violation('prefix_dependence',
                              f'guess of {spec_str(spec)} differs from the guess of the same tree with plain '
                              f'prefixes in {diff} ({label})', c, model=kind, quantity='guess', prefix_class='-')
        # round trip: what guess returns is what __call__ takes (values judged by the __call__ monitor).  Not
        # for data with variances: the estimate then carries variances, and scipp refuses to broadcast a scalar
        # with variances over x -- parameters with variances are outside the property's quantifier
        if data.variances is not None:
            continue
        xcoord = data.coords[xname]
        try:
            r = model(xcoord, **g)
        except Exception as e:  # noqa: BLE001
            ctx.violation('guess_not_accepted',
                          f'{spec_str(spec)}(x, **guess(data)) raised {type(e).__name__}: {e} ({label})', c,
                          model=kind, exc=type(e).__name__)
            continue
        ctx.event('guess_roundtrip')
        if (not isinstance(r, sc.Variable) or r.unit != data.unit or tuple(r.dims) != tuple(xcoord.dims)
                or tuple(r.shape) != tuple(xcoord.shape)):
            got = f'{r.dims}{r.shape} in {r.unit}' if isinstance(r, sc.Variable) else type(r).__name__
            ctx.violation('guess_roundtrip_unit',
                          f'{spec_str(spec)}(x, **guess(data)) is {got}; the data are '
                          f'{data.dims}{data.shape} in {data.unit} ({label})', c, model=kind)
    # the coordinate the estimate is made from
    if GM_NONE in shaped and GM_DIM in shaped:
        ctx.event('guess_coord_judged')
        if out[GM_NONE] != out[GM_DIM]:
            ctx.violation('guess_coord', f'guess of {spec_str(spec)} differs between coord not given and coord = '
                          f'the name of the dimension-coordinate', c0, model=kind, relation='default')
    if GM_OTHER in shaped:
        status, g = ask_guess(model, rekeyed, None, False)
        if status == 'ok' and _names_of(g) == names:
            ctx.event('guess_coord_judged')
            if renamed(g, strip, bits_full) != out[GM_OTHER]:
                ctx.violation('guess_coord', f'guess of {spec_str(spec)} with coord = another coordinate differs '
                              f'from the guess for the same numbers given as the dimension-coordinate', c0,
                              model=kind, relation='named')
    # bounds and names
    out['bounds'] = None
    try:
        b = model.param_bounds
    except Exception as e:  # noqa: BLE001
        ctx.violation('bounds_raised', f'param_bounds of {spec_str(spec)} raised {type(e).__name__}: {e}', c0,
                      model=kind)
        b = None
    if b is not None and judge_bounds_names(ctx, spec, b, c0, 'harness'):
        out['bounds'] = renamed(b, strip, repr)
        if ref is not None and ref.get('bounds') is not None:
            ctx.event('prefix_bitwise.param_bounds')
            if out['bounds'] != ref['bounds']:
                ctx.violation('prefix_dependence',
                              f'param_bounds of {spec_str(spec)}: {out["bounds"]}, of the same tree with plain '
                              f'prefixes: {ref["bounds"]}', c0, model=kind, quantity='param_bounds',
                              prefix_class='-')
    try:
        pn = model.param_names
    except Exception as e:  # noqa: BLE001
        pn = e
    ctx.event('param_names_judged')
    if not isinstance(pn, set | frozenset) or set(pn) != names:
        ctx.violation('param_names', f'{spec_str(spec)}.param_names = {pn!r:.300}, documented naming gives '
                      f'{sorted(names)}', c0, model=kind)
    return out


def guess_case(rng, ctx, mon, M):
    """guess / param_bounds / param_names of every structure that carries prefixes x every way to name the
    independent variable: a deterministic part of every shard."""
    xunit = pick(rng, X_UNITS)
    tunit = pick(rng, [u for u in X_UNITS if u != xunit])
    yunit = pick(rng, A_UNITS)
    dim = pick(rng, DIMS)
    tname = pick(rng, [n for n in ('t', 'tof', 'x', 'λ', 'other coord') if n != dim])
    data, with_var, rekeyed, masked = guess_data(rng, xunit, tunit, yunit, dim, tname)
    modes = [(GM_NONE, data, None, False, dim), (GM_DIM, data, dim, True, dim),
             (GM_OTHER, data, tname, True, tname), (GM_VAR, with_var, None, False, dim),
             (GM_MASK, masked, None, False, dim)]
    for m_ in modes:
        ctx.hit(m_[0])
    kinds = [pick(rng, ['poly', 'poly', *PEAKS]), pick(rng, PEAKS), pick(rng, ['poly', *PEAKS])]
    leaves = []
    for k in kinds:
        leaf = {'kind': k}
        if k == 'poly':
            leaf['degree'] = int(rng.integers(1, 5))
        leaves.append(leaf)
    case = {'kind': 'guess', 'leaf_kinds': kinds, 'x_unit': xunit, 'other_coord': [tname, tunit], 'y_unit': yunit,
            'dim': dim, 'n': int(data.sizes[dim]),
            'x_hex': [_hex(v) for v in data.coords[dim].values[:4]], 'y_hex': [_hex(v) for v in data.values[:4]]}

    def with_leaf_prefixes(ps):
        return [{**leaf, 'prefix': p} for leaf, p in zip(leaves, ps, strict=False)]

    def build(spec, how):
        try:
            m = build_prefixed(M, spec, how)
        except Exception as e:  # noqa: BLE001  (constructors / with_prefix are judged by their monitors)
            ctx.count('guess_model_not_built:' + type(e).__name__)
            return None
        if mon.spec_of(m) != spec:
            got = mon.spec_of(m)
            ctx.inconclusive_because('harness: observed model structure differs from the plan: '
                                     f'{spec_str(got) if got else got} vs {spec_str(spec)}')
            return None
        return m

    def drawn_prefixes(n_wanted, test):
        """n_wanted prefixes of the drawn classes for which ``test(prefixes)`` holds (names disjoint)."""
        for _ in range(30):
            pair = list(pick(rng, NESTED_PAIRS))
            pool = [*pair, draw_prefix(rng, ctx, avoid=pair), draw_prefix(rng, ctx, avoid=pair)]
            rng.shuffle(pool)
            ps = pool[:n_wanted]
            if len(set(ps)) == len(ps) and test(ps):
                return ps
        return None

    # ---- leaves: '' against a prefix given to the constructor / attached afterwards
    for leaf in leaves[:2]:
        ref_spec = {**leaf, 'prefix': ''}
        ref_model = build(ref_spec, 'constructor')
        if ref_model is None:
            continue
        ref = judge_guess_model(ctx, ref_model, ref_spec, 'leaf, no prefix', modes, rekeyed, None, case)
        for how in ('constructor', 'with_prefix'):
            spec = {**leaf, 'prefix': draw_prefix(rng, ctx, avoid=('',))}
            m = build(spec, how)
            if m is not None:
                ctx.hit(GC_LEAF)
                judge_guess_model(ctx, m, spec, GC_LEAF, modes, rekeyed, ref, case)

    # ---- composites
    for shape_name, shape in GUESS_SHAPES.items():
        nl, nc = (2, 1) if shape_name == 'pair' else (3, 2)
        canon = with_leaf_prefixes(CANONICAL_LEAF_PREFIXES[:nl])
        ref_spec = shape_spec(shape, canon, [''] * nc)
        ref_model = build(ref_spec, 'constructor')
        if ref_model is None:
            continue
        ref = judge_guess_model(ctx, ref_model, ref_spec, 'composite, plain leaf prefixes', modes, rekeyed, None,
                                case)
        outer, inner = draw_prefix(rng, ctx, avoid=('',)), draw_prefix(rng, ctx, avoid=('',))
        if nc == 1:
            comp_sets = [((outer,), None)]
        else:
            nest = GC_NEST_L if shape_name == 'nested left' else GC_NEST_R
            comp_sets = [(('', inner), nest), ((outer, inner), GC_NEST_BOTH), ((outer, ''), GC_OUTER_ONLY)]
        for j, (comp_prefixes, nest_label) in enumerate(comp_sets):
            def ok(ps, _cp=comp_prefixes):
                return names_disjoint(shape_spec(shape, with_leaf_prefixes(ps), _cp))
            related = drawn_prefixes(nl, ok)
            bare = drawn_prefixes(nl - 1, lambda ps, _ok=ok: _ok(['', *ps]))  # leaf 0 without a prefix
            leaf_sets = [(CANONICAL_LEAF_PREFIXES[:nl], None)]
            if related is not None:
                leaf_sets.append((related, GC_LEAVES))
            if bare is not None:
                leaf_sets.append((['', *bare], GC_BARE_LEAF))
            for k, (leaf_prefixes, leaf_label) in enumerate(leaf_sets):
                spec = shape_spec(shape, with_leaf_prefixes(leaf_prefixes), comp_prefixes)
                if not names_disjoint(spec):
                    continue
                # plain leaves: both ways to attach the prefixes; the other leaf sets alternate
                hows = ('constructor', 'with_prefix') if k == 0 else (('constructor', 'with_prefix')[(k + j) % 2],)
                for how in hows:
                    m = build(spec, how)
                    if m is None:
                        continue
                    labels = [nest_label or (GC_CTOR if how == 'constructor' else GC_WITH)]
                    if comp_prefixes[0] != '':
                        labels.append(GC_CTOR if how == 'constructor' else GC_WITH)
                    if leaf_label:
                        labels.append(leaf_label)
                    for lab in dict.fromkeys(labels):
                        ctx.hit(lab)
                    judge_guess_model(ctx, m, spec, labels[0], modes, rekeyed, ref, case)
                    if k == 0 and how == 'constructor' and comp_prefixes[0] != '':
                        # the prefixed composite given another prefix / the empty prefix again
                        for p, lab in ((draw_prefix(rng, ctx, avoid=('', comp_prefixes[0])), GC_REPREFIX),
                                       ('', GC_UNPREFIX)):
                            try:
                                m2 = m.with_prefix(p)
                            except Exception:  # noqa: BLE001  (judged by the with_prefix monitor)
                                continue
                            s2 = {**spec, 'prefix': p}
                            if mon.spec_of(m2) != s2:
                                ctx.count('guess_model_not_registered')
                                continue
                            ctx.hit(lab)
                            judge_guess_model(ctx, m2, s2, lab, modes, rekeyed, ref, case)
    sig = ('guess', tuple(kinds), xunit, tunit, yunit, dim)
    return sig, False, case


# ------------------------------------------- units given in every way a caller may ---
# "x and y in arbitrary units": the arguments are physical quantities and nothing obliges a caller to give
# a_i in exactly a_0.unit / x.unit**i, or loc / scale in exactly the unit of x.  Units are descriptors of
# the independent table (rv/oracle/peakdefs.py); the container units are built from them by scipp's unit
# algebra.  From a consistent assignment every single argument in turn is given (a) in another scale of
# the same quantity (another base unit of the same dimension for one factor of its unit, or x percent) and
# (b) in a unit of another dimension (x or / a base unit of length, time, mass, temperature; the unit of a
# neighbouring coefficient).
UX_POOL = [(('m', 1),), (('mm', 1),), (('cm', 1),), (('angstrom', 1),), (('s', 1),), (('ms', 1),), (('us', 1),),
           (('deg', 1),), (('meV', 1),), (), (('angstrom', -1),), (('K', 1),)]
UY_POOL = [(('counts', 1),), (), (('kg', 1),), (('K', 1),), (('counts', 1), ('angstrom', 1)), (('m', 1),),
           (('cm', 1),), (('J', 1), ('s', -1)), (('us', -1),), (('counts', 1), ('us', -1))]
HARD_BASES = ('K', 's', 'm', 'kg')

UC_POLY_AI_SCALED = 'units: polynomial coefficient a_i (i>=1) in another scale of its unit'
UC_POLY_A0_SCALED = 'units: polynomial a0 in another scale of its unit'
UC_POLY_X_SCALED = 'units: polynomial x in another scale of its unit'
UC_PERCENT = 'units: percent next to dimensionless'
UC_POLY_AI_DIM = 'units: polynomial coefficient a_i (i>=1) of another dimension'
UC_POLY_A0_DIM = 'units: polynomial a0 of another dimension'
UC_POLY_X_DIM = 'units: polynomial x of another dimension'
UC_POLY_ALL_A0 = 'units: all polynomial coefficients in the unit of a0'
UC_PEAK_LOC_SCALED = 'units: peak loc in another scale of the unit of x'
UC_PEAK_SCALE_SCALED = 'units: peak scale in another scale of the unit of x'
UC_PEAK_BOTH_SCALED = 'units: peak loc and scale in another scale of the unit of x'
UC_PEAK_X_SCALED = 'units: peak x in another scale of the unit of loc and scale'
UC_PEAK_AMP_SCALED = 'units: peak amplitude in another scale of its unit'
UC_FRACTION_PERCENT = 'units: fraction in percent'
UC_PEAK_LOC_DIM = 'units: peak loc of another dimension'
UC_PEAK_SCALE_DIM = 'units: peak scale of another dimension'
UC_PEAK_X_DIM = 'units: peak x of another dimension'
UC_FRACTION_DIM = 'units: fraction with a dimension'
UC_COMP_POLY_SCALED = 'units: composite, polynomial part with a coefficient in another scale'
UC_COMP_PEAK_SCALED = 'units: composite, peak part with loc in another scale'
UC_COMP_X_SCALED = 'units: composite, x in another scale'
UC_COMP_PARTS_SCALED = 'units: composite, parts in different scales of one unit'
UC_COMP_POLY_DIM = 'units: composite, polynomial part with a coefficient of another dimension'
UC_COMP_PEAK_DIM = 'units: composite, peak part with scale of another dimension'
UC_COMP_PARTS_DIM = 'units: composite, parts of different dimensions'
UNIT_CLASSES_POLY = [UC_POLY_AI_SCALED, UC_POLY_A0_SCALED, UC_POLY_X_SCALED, UC_PERCENT, UC_POLY_AI_DIM,
                     UC_POLY_A0_DIM, UC_POLY_X_DIM, UC_POLY_ALL_A0]
UNIT_CLASSES_PEAK = [UC_PEAK_LOC_SCALED, UC_PEAK_SCALE_SCALED, UC_PEAK_BOTH_SCALED, UC_PEAK_X_SCALED,
                     UC_PEAK_AMP_SCALED, UC_FRACTION_PERCENT, UC_PEAK_LOC_DIM, UC_PEAK_SCALE_DIM, UC_PEAK_X_DIM,
                     UC_FRACTION_DIM]
UNIT_CLASSES_COMP = [UC_COMP_POLY_SCALED, UC_COMP_PEAK_SCALED, UC_COMP_X_SCALED, UC_COMP_PARTS_SCALED,
                     UC_COMP_POLY_DIM, UC_COMP_PEAK_DIM, UC_COMP_PARTS_DIM]
# classes the unchanged semantics of scipp (no implicit conversion) lets through: exact relation
UNIT_CLASSES_VALID = [UC_PEAK_AMP_SCALED]


def scaled_variants(desc):
    """Descriptors of the same dimension with another SI factor: one base unit exchanged for another base
    unit of the same dimension, or the whole unit taken in percent."""
    out = []
    for k, (base, e) in enumerate(desc):
        for sib in pk.siblings(base):
            if all(b != sib for b, _ in desc):
                out.append((*desc[:k], (sib, e), *desc[k + 1:]))
    if all(b != 'percent' for b, _ in desc):
        out.append((*desc, ('percent', 1)))
    return [d for d in out if pk.u_dim(d) == pk.u_dim(desc) and pk.u_factor(d) != pk.u_factor(desc)]


def other_dimension_variants(desc, extra=()):
    """Descriptors whose dimension differs from ``desc`` in length / time / mass / temperature."""
    out = list(extra)
    for b in HARD_BASES:
        out.append(pk.u_mul(desc, ((b, 1),)))
        out.append(pk.u_mul(desc, ((b, 1),), -1))
    return [d for d in out if pk.dim_relation(pk.u_dim(d), pk.u_dim(desc)) == 'hard']


def pick(rng, lst):
    return lst[int(rng.integers(0, len(lst)))]


def uvar(value, desc):
    return sc.scalar(float(value), unit=pk.u_register(desc))


def rescaled(value, old, new):
    """The number that expresses the same quantity in unit ``new`` (what a caller who measures in ``new``
    holds); own table arithmetic."""
    return float(value) * float(pk.u_factor(old) / pk.u_factor(new))


def _ask_units(rng, ctx, mon, model, x, params, label, fwhm=False):
    ctx.hit(label)
    mon.unit_class = label
    try:
        safe_call(model, x, shuffled(rng, params))
        if fwhm:
            try:
                model.fwhm(params)
            except Exception:  # noqa: BLE001  (judged by the fwhm monitor)
                pass
    finally:
        mon.unit_class = None


def poly_unit_variants(rng, ctx, ux, uy, degree):
    """[(class, coefficient descriptors, x descriptor)] around the consistent assignment a_i in uy / ux^i."""
    base = [pk.u_mul(uy, ux, -i) for i in range(degree + 1)]
    idxs = sorted({degree, 1, max(1, degree // 2)})
    out = []

    def repl(i, d):
        return [d if j == i else b for j, b in enumerate(base)]

    percent = not ux and not uy
    for i in idxs:
        ctx.count('unit_variant_coefficient:' + ('highest' if i == degree else ('first' if i == 1 else 'inner')))
        out.append((UC_POLY_AI_SCALED, repl(i, pick(rng, scaled_variants(base[i]))), ux))
        cands = other_dimension_variants(base[i], extra=[base[i - 1], base[i + 1] if i < degree else
                                                         pk.u_mul(uy, ux, -(i + 1)), uy])
        out.append((UC_POLY_AI_DIM, repl(i, pick(rng, cands)), ux))
    out.append((UC_POLY_A0_SCALED, repl(0, pick(rng, scaled_variants(base[0]))), ux))
    out.append((UC_POLY_A0_DIM, repl(0, pick(rng, other_dimension_variants(base[0], extra=[base[1]]))), ux))
    out.append((UC_POLY_X_SCALED, base, pick(rng, scaled_variants(ux))))
    out.append((UC_POLY_X_DIM, base, pick(rng, other_dimension_variants(ux))))
    if pk.dim_relation(pk.u_dim(ux), pk.ZERO_DIM) == 'hard':
        out.append((UC_POLY_ALL_A0, [uy] * (degree + 1), ux))
    if percent:  # pure numbers: the only other scale is percent
        out = [(UC_PERCENT if cls in (UC_POLY_AI_SCALED, UC_POLY_A0_SCALED, UC_POLY_X_SCALED) else cls, c, x)
               for cls, c, x in out]
    return out


def register_poly_results(cdescs, xdesc):
    for i, d in enumerate(cdescs):
        pk.u_register(pk.u_mul(d, xdesc, i))


def unit_numbers_poly(rng, degree):
    xmag = logu(rng, -1, 1)
    cs = [float((1.0 if rng.random() < 0.5 else -1.0) * rng.uniform(0.5, 2.0) / xmag ** i)
          for i in range(degree + 1)]
    n = int(rng.integers(2, 8))
    xs = xmag * rng.uniform(0.3, 3.0, size=n) * np.where(rng.random(n) < 0.5, 1.0, -1.0)
    return cs, np.asarray(xs, dtype=np.float64)


def poly_unit_case(rng, ctx, mon, M):
    """The polynomial with every single argument in turn in another scale of its unit / in a unit of
    another dimension; once with drawn x and y units and once with pure numbers (percent)."""
    degree = int(rng.integers(1, 7))
    ctx.hit(f'degree {degree}')
    p1 = draw_prefix(rng, ctx, avoid=('',))
    models = [(build_leaf(M, {'kind': 'poly', 'prefix': '', 'degree': degree}), ''),
              (build_leaf(M, {'kind': 'poly', 'prefix': p1, 'degree': degree}), p1)]
    blocks = [(pick(rng, UX_POOL), pick(rng, UY_POOL)), ((), ())]
    case = {'kind': 'poly units', 'degree': degree, 'prefixes': ['', p1], 'blocks': []}
    for ux, uy in blocks:
        cs, xs = unit_numbers_poly(rng, degree)
        variants = poly_unit_variants(rng, ctx, ux, uy, degree)
        case['blocks'].append({'x_unit': pk.u_name(ux), 'y_unit': pk.u_name(uy),
                               'coeffs_hex': [_hex(c) for c in cs],
                               'variants': [[cls, [pk.u_name(d) for d in cd], pk.u_name(xd)]
                                            for cls, cd, xd in variants]})
        for cls, cdescs, xdesc in variants:
            register_poly_results(cdescs, xdesc)
            x = sc.array(dims=[pick(rng, DIMS)], values=xs, unit=pk.u_register(xdesc))
            for m, p in models:
                _ask_units(rng, ctx, mon, m, x, {f'{p}a{i}': uvar(c, d)
                                                 for i, (c, d) in enumerate(zip(cs, cdescs, strict=True))}, cls)
    sig = ('units', 'poly', degree, pk.u_name(blocks[0][0]), pk.u_name(blocks[0][1]), prefix_class(p1))
    return sig, False, case


def unit_numbers_peak(rng, kind):
    scale = logu(rng, -2, 2)
    loc = scale * float(rng.uniform(0.5, 20.0)) * (1.0 if rng.random() < 0.5 else -1.0)
    vals = {'amplitude': logu(rng, -3, 3) * (1.0 if rng.random() < 0.6 else -1.0), 'loc': loc, 'scale': scale}
    if kind == 'pvoigt':
        vals['fraction'] = float(rng.uniform(0.05, 0.95))
    n = int(rng.integers(2, 8))
    xs = loc + scale * rng.uniform(-3, 3, size=n)
    return vals, np.asarray(xs, dtype=np.float64)


def peak_unit_variants(rng, kind, ux, ua):
    """[(class, {argument: descriptor} incl. 'x')] around x, loc, scale in ux, amplitude in ua, fraction a
    pure number."""
    base = {'x': ux, 'amplitude': ua, 'loc': ux, 'scale': ux}
    if kind == 'pvoigt':
        base['fraction'] = ()
    sx = pick(rng, scaled_variants(ux))
    out = [(UC_PEAK_LOC_SCALED, {**base, 'loc': pick(rng, scaled_variants(ux))}),
           (UC_PEAK_SCALE_SCALED, {**base, 'scale': pick(rng, scaled_variants(ux))}),
           (UC_PEAK_BOTH_SCALED, {**base, 'loc': sx, 'scale': sx}),
           (UC_PEAK_X_SCALED, {**base, 'x': pick(rng, scaled_variants(ux))}),
           (UC_PEAK_AMP_SCALED, {**base, 'amplitude': pick(rng, scaled_variants(ua))}),
           (UC_PEAK_LOC_DIM, {**base, 'loc': pick(rng, other_dimension_variants(ux))}),
           (UC_PEAK_SCALE_DIM, {**base, 'scale': pick(rng, other_dimension_variants(ux))}),
           (UC_PEAK_X_DIM, {**base, 'x': pick(rng, other_dimension_variants(ux))})]
    if kind == 'pvoigt':
        out.append((UC_FRACTION_PERCENT, {**base, 'fraction': (('percent', 1),)}))
        out.append((UC_FRACTION_DIM, {**base, 'fraction': pick(rng, other_dimension_variants(()))}))
    return base, out


def peak_unit_args(rng, vals, xs, base, descs):
    """Numbers for a variant: an argument given in another scale of its unit holds (coin) the number that
    expresses the same quantity there or the same number; scale stays in 1e-6..1e6, fraction in [0, 1]."""
    nums = dict(vals)
    xv = xs
    for k, d in descs.items():
        if d == base[k] or pk.u_dim(d) != pk.u_dim(base[k]):
            continue
        convert = k == 'fraction' or rng.random() < 0.6
        if not convert:
            continue
        if k == 'x':
            xv = np.asarray([rescaled(v, base[k], d) for v in xs], dtype=np.float64)
        else:
            new = rescaled(vals[k], base[k], d)
            if k != 'scale' or 1e-6 <= new <= 1e6:
                nums[k] = new
    params = {k: uvar(v, descs[k]) for k, v in nums.items()}
    return xv, params


def register_peak_results(descs):
    for k in ('x', 'loc', 'scale'):
        pk.u_register(pk.u_mul(descs['amplitude'], descs[k], -1))


def peak_unit_case(rng, ctx, mon, M, kind):
    """A peak model with every single argument in turn in another scale of the common unit / in a unit of
    another dimension (fraction: percent / a unit with a dimension)."""
    ux, uy = pick(rng, UX_POOL), pick(rng, UY_POOL)
    ua = pk.u_mul(uy, ux)
    p1 = draw_prefix(rng, ctx, avoid=('',))
    models = [(build_leaf(M, {'kind': kind, 'prefix': ''}), ''), (build_leaf(M, {'kind': kind, 'prefix': p1}), p1)]
    vals, xs = unit_numbers_peak(rng, kind)
    base, variants = peak_unit_variants(rng, kind, ux, ua)
    case = {'kind': kind + ' units', 'x_unit': pk.u_name(ux), 'amplitude_unit': pk.u_name(ua),
            'values_hex': {k: _hex(v) for k, v in vals.items()}, 'prefixes': ['', p1],
            'variants': [[cls, {k: pk.u_name(d) for k, d in ds.items()}] for cls, ds in variants]}
    for cls, descs in variants:
        register_peak_results(descs)
        xv, params = peak_unit_args(rng, vals, xs, base, descs)
        x = sc.array(dims=[pick(rng, DIMS)], values=xv, unit=pk.u_register(descs['x']))
        for m, p in models:
            _ask_units(rng, ctx, mon, m, x, {p + k: v for k, v in params.items()}, cls, fwhm=True)
    sig = ('units', kind, pk.u_name(ux), pk.u_name(uy), prefix_class(p1))
    return sig, False, case


def comp_unit_case(rng, ctx, mon, M):
    """polynomial + peak (built with ``+`` and with a prefixed CompositeModel): a single argument of one part
    in another scale / of another dimension, x in another scale, and the two parts in different scales of
    one unit / in units of different dimensions."""
    ux, uy = pick(rng, UX_POOL), pick(rng, UY_POOL)
    ua = pk.u_mul(uy, ux)
    degree = int(rng.integers(1, 4))
    ctx.hit(f'degree {degree}')
    kind = pick(rng, PEAKS)
    lp, rp = pick(rng, [('b_', 'g_'), ('', 'p_'), ('bkg_', ''), ('a', 'am')])
    cp = draw_prefix(rng, ctx, avoid=('',))
    specs = [{'kind': 'comp', 'prefix': pre, 'left': {'kind': 'poly', 'prefix': lp, 'degree': degree},
              'right': {'kind': kind, 'prefix': rp}} for pre in ('', cp)]
    models = []
    for spec, use_add in zip(specs, (True, False), strict=True):
        m = build_model(rng, M, spec, use_add=use_add)
        if mon.spec_of(m) != spec:
            ctx.inconclusive_because('harness: observed composite structure differs from the plan: '
                                     f'{mon.spec_of(m)} vs {spec_str(spec)}')
            continue
        models.append((m, spec))
    vals, xs = unit_numbers_peak(rng, kind)
    # every term of the polynomial and the peak of order one near loc: no part hides in the bound of another
    vals['amplitude'] = float(np.sign(vals['amplitude']) * rng.uniform(0.5, 2.0) * 2.5 * vals['scale'])
    span = max(abs(vals['loc']), vals['scale'])
    cs = [float((1.0 if rng.random() < 0.5 else -1.0) * rng.uniform(0.5, 2.0) / span ** j)
          for j in range(degree + 1)]
    pbase = [pk.u_mul(uy, ux, -i) for i in range(degree + 1)]
    kbase = {'x': ux, 'amplitude': ua, 'loc': ux, 'scale': ux}
    if kind == 'pvoigt':
        kbase['fraction'] = ()
    i = int(rng.integers(1, degree + 1))

    def repl(d):
        return [d if j == i else b for j, b in enumerate(pbase)]

    sx = pick(rng, scaled_variants(ux))
    variants = [
        (UC_COMP_POLY_SCALED, repl(pick(rng, scaled_variants(pbase[i]))), kbase),
        (UC_COMP_PEAK_SCALED, pbase, {**kbase, 'loc': pick(rng, scaled_variants(ux))}),
        (UC_COMP_X_SCALED, pbase, {**kbase, 'x': sx}),
        (UC_COMP_PARTS_SCALED, pbase, {**kbase, 'amplitude': pk.u_mul(pick(rng, scaled_variants(uy)), ux)}),
        (UC_COMP_POLY_DIM, repl(pick(rng, other_dimension_variants(pbase[i], extra=[uy]))), kbase),
        (UC_COMP_PEAK_DIM, pbase, {**kbase, 'scale': pick(rng, other_dimension_variants(ux))}),
        (UC_COMP_PARTS_DIM, pbase, {**kbase, 'amplitude': pk.u_mul(pick(rng, other_dimension_variants(uy)), ux)}),
    ]
    case = {'kind': 'comp units', 'specs': [spec_str(sp) for _, sp in models], 'x_unit': pk.u_name(ux),
            'y_unit': pk.u_name(uy), 'peak_values_hex': {k: _hex(v) for k, v in vals.items()},
            'coeffs_hex': [_hex(c) for c in cs],
            'variants': [[cls, [pk.u_name(d) for d in cd], {k: pk.u_name(d) for k, d in kd.items()}]
                         for cls, cd, kd in variants]}
    for cls, cdescs, kdescs in variants:
        register_poly_results(cdescs, kdescs['x'])
        register_peak_results(kdescs)
        xv, kparams = peak_unit_args(rng, vals, xs, kbase, kdescs)
        pparams = {f'a{j}': uvar(c, d) for j, (c, d) in enumerate(zip(cs, cdescs, strict=True))}
        x = sc.array(dims=[pick(rng, DIMS)], values=xv, unit=pk.u_register(kdescs['x']))
        for m, spec in models:
            _ask_units(rng, ctx, mon, m, x, full_params(spec, [pparams, kparams]), cls)
    sig = ('units', 'comp', kind, degree, pk.u_name(ux), pk.u_name(uy))
    return sig, False, case


# ------------------------------------------- the documented arguments in every form ---
# "polynomial degree 1..6, any prefix strings": an integer is an integer and a string is a string whatever class
# holds it.  A degree that was computed (an element of np.arange, the result of np.argmin / of counting, an entry
# of an integer array of settings) is a numpy integer; names taken from arrays / enumerations of settings are
# numpy.str_ / str-valued Enum members.  Every such form must give the model the builtin form gives: same names,
# bitwise the same values.  The same for the names of the parameters handed to __call__ / fwhm and for the
# coordinate name given to guess; for every calling convention the signatures allow; for any mapping as the
# ``params`` of fwhm.
class _Deg(enum.IntEnum):
    ONE = 1
    TWO = 2
    THREE = 3
    FOUR = 4
    FIVE = 5
    SIX = 6


class _IntSub(int):
    """A subclass of int that is not bool."""


class _StrSub(str):
    """A subclass of str."""
    __slots__ = ()


def _str_enum(s):
    return enum.Enum('SettingName', {'MEMBER': s}, type=str).MEMBER


def _strenum(s):
    return enum.StrEnum('SettingStrEnum', {'MEMBER': s}).MEMBER


DEGREE_FORMS = {
    'np.int64': np.int64, 'np.int32': np.int32, 'np.int16': np.int16, 'np.int8': np.int8, 'np.uint8': np.uint8,
    'np.uint64': np.uint64, 'np.intp': np.intp,
    'element of np.arange': lambda d: np.arange(1, 7)[d - 1],
    'result of np.argmin': lambda d: np.argmin(np.r_[np.ones(d), 0.0, 1.0]),
    'count of a boolean array': lambda d: np.sum(np.arange(8) < d),
    'element of an integer settings array': lambda d: np.array([[0, d], [d, 0]], dtype=np.int32)[1, 0],
    'IntEnum member': _Deg,
    'int subclass': _IntSub,
}
STR_FORMS = {'numpy.str_': np.str_, '(str, Enum) member': _str_enum, 'StrEnum member': _strenum,
             'str subclass': _StrSub}
FC_DEGREE = 'degree given as: '
FC_PREFIX = 'prefix given as: '
FC_WITH_PREFIX = 'with_prefix given: '
FC_COMP_PREFIX = 'composite prefix given as: '
FC_KEYS = 'parameter names given as: '
FC_COORD = 'guess coord given as: '
CONVENTIONS = ['x by keyword', 'unbound Model.__call__(model, x, **params)', 'type(model).__call__',
               'bound model.__call__', 'fwhm(params=...)', 'guess(data=..., coord=...)', 'with_prefix(prefix=...)',
               'CompositeModel(left=..., right=..., prefix=...)', 'CompositeModel(left, right) without prefix',
               'left.__add__(right)']
FC_CONV = 'convention: '
MAPPINGS = {'MappingProxyType': types.MappingProxyType, 'OrderedDict': collections.OrderedDict,
            'UserDict': collections.UserDict, 'DataGroup': sc.DataGroup,
            'ChainMap': lambda d: collections.ChainMap(dict(list(d.items())[:1]), dict(list(d.items())[1:])),
            'dict subclass': type('ParamDict', (dict,), {})}
FC_MAPPING = 'fwhm params given as: '
FORM_CLASSES = ([FC_DEGREE + k for k in DEGREE_FORMS] + [FC_PREFIX + k for k in STR_FORMS]
                + [FC_WITH_PREFIX + k for k in STR_FORMS] + [FC_COMP_PREFIX + k for k in STR_FORMS]
                + [FC_KEYS + k for k in STR_FORMS] + [FC_COORD + k for k in STR_FORMS]
                + [FC_CONV + k for k in CONVENTIONS] + [FC_MAPPING + k for k in MAPPINGS])


def modest_leaf_values(rng, ctx, spec, xunit, yunit, centre, width):
    """Values of one leaf (Variables by base name, numbers of a peak or None) around centre / width."""
    if spec['kind'] == 'poly':
        _, pv, _ = draw_poly(rng, ctx, spec['degree'], xunit, yunit)
        return pv, None
    if spec['kind'] == 'line':
        uy, ux = sc.Unit(yunit), sc.Unit(xunit)
        h = float(rng.uniform(-2, 2))
        k = float(rng.uniform(-2, 2) / max(abs(centre), width))
        return {'h': sc.scalar(h, unit=uy), 'k': sc.scalar(k, unit=uy / ux)}, None
    kind = 'gauss' if spec['kind'] == 'gauss2' else spec['kind']
    vals, _ = draw_peak_values(rng, ctx, kind, True)
    vals['scale'] = float(np.clip(width * logu(rng, -0.5, 0.5), 1e-6, 1e6))
    vals['loc'] = centre + width * float(rng.uniform(-2, 2))
    vals['amplitude'] = float(np.sign(vals['amplitude']) * rng.uniform(0.5, 2.0) * 2.5 * vals['scale'])
    return peak_vars(vals, xunit, sc.Unit(yunit) * sc.Unit(xunit)), vals


def modest_setting(rng):
    xunit, yunit = pick(rng, X_UNITS), pick(rng, A_UNITS)
    centre = logu(rng, -1, 2) * (1.0 if rng.random() < 0.5 else -1.0)
    width = abs(centre) * logu(rng, -2, 0) if rng.random() < 0.6 else logu(rng, -1, 1)
    return xunit, yunit, centre, float(np.clip(width, 1e-4, 1e4))


def own_curve_data(rng, xunit, yunit, centre, width, dim, masked=False):
    """Data for guess from own numbers (a bump on a slope, irregular abscissae)."""
    n = int(rng.integers(30, 50))
    u = np.sort(rng.uniform(-6, 6, size=n))
    yv = 0.3 + 0.05 * u + 2.0 * np.exp(-0.5 * ((u - 0.4) / 0.9) ** 2) + 0.01 * rng.normal(size=n)
    da = sc.DataArray(sc.array(dims=[dim], values=yv, unit=yunit),
                      coords={dim: sc.array(dims=[dim], values=centre + width * u, unit=xunit)})
    if masked:
        da.masks['caller'] = sc.array(dims=[dim], values=rng.random(n) < 0.3)
    return da


def answer_bits(a):
    """Comparable content of anything a model hands back (Variable, dict of Variables / bounds, set)."""
    if isinstance(a, sc.Variable):
        return bits_full(a)
    if isinstance(a, str):
        return plain(a)
    if isinstance(a, dict):
        return {plain(k): answer_bits(v) for k, v in a.items()}
    if isinstance(a, set | frozenset):
        return sorted(plain(k) for k in a)
    return repr(a)


def same_answer(ctx, got, ref, what, case, **keys):
    """``got`` (from the form under test) against ``ref`` (from the builtin form): the same content."""
    ctx.event('form_judged')
    if answer_bits(got) != answer_bits(ref):
        c = dict(case)
        c['compared'] = what
        ctx.violation('form_dependence', f'{what}: the answer differs from the answer for the same arguments given '
                      f'as builtin int / str, positionally ({keys})', c, **keys)
        return False
    return True


def attempt(f):
    """('ok', result) / ('raised', exception)."""
    try:
        return 'ok', f()
    except Exception as e:  # noqa: BLE001
        return 'raised', e


def answers(m, x, params, data):
    """Everything a model can be asked: value, fwhm, guess, param_bounds, param_names, prefix."""
    out = {'value': attempt(lambda: m(x, **params)), 'fwhm': attempt(lambda: m.fwhm(params)),
           'guess': attempt(lambda: m.guess(data)), 'param_bounds': attempt(lambda: m.param_bounds),
           'param_names': attempt(lambda: m.param_names), 'prefix': attempt(lambda: m.prefix)}
    return out


def compare_answers(ctx, got, ref, label, case, **keys):
    for q, (status, a) in got.items():
        rs, ra = ref[q]
        if rs == 'raised':
            # the builtin form refuses (fwhm of a background model ...): the same kind of refusal is expected
            ctx.event('form_judged')
            if status != 'raised' or type(a) is not type(ra):
                ctx.violation('form_dependence', f'{label}: {q} raised {type(ra).__name__} for the builtin form and '
                              f'{"returned" if status == "ok" else "raised " + type(a).__name__} for this one',
                              case, quantity=q, **keys)
            continue
        if status == 'raised':
            ctx.event('form_judged')
            ctx.violation('form_dependence', f'{label}: {q} raised {type(a).__name__}: {a}; the same arguments given '
                          f'as builtin int / str are accepted', case, quantity=q, **keys)
            continue
        same_answer(ctx, a, ra, f'{label}: {q}', case, quantity=q, **keys)


def judge_documented_names(ctx, m, spec, case, **keys):
    """param_names / prefix / degree of a model against the documented naming of its spec."""
    ctx.event('param_names_judged')
    st, pn = attempt(lambda: m.param_names)
    if st != 'ok' or not isinstance(pn, set | frozenset) or {plain(k) for k in pn} != set(spec_names(spec)):
        ctx.violation('param_names', f'{spec_str(spec)}.param_names = {pn!r:.300}, documented naming gives '
                      f'{sorted(spec_names(spec))}', case, model=spec['kind'])
    st, pf = attempt(lambda: m.prefix)
    ctx.event('prefix_property_judged')
    if st != 'ok' or not isinstance(pf, str) or plain(pf) != spec['prefix']:
        ctx.violation('prefix_property', f'{spec_str(spec)}.prefix = {pf!r}', case, model=spec['kind'], **keys)
    if spec['kind'] == 'poly':
        st, dg = attempt(lambda: m.degree)
        ctx.event('degree_property_judged')
        if st != 'ok' or not is_integer(dg) or int(dg) != spec['degree']:
            ctx.violation('degree_property', f'{spec_str(spec)}.degree = {dg!r}', case, model='poly', **keys)


def forms_case(rng, ctx, mon, M):
    xunit, yunit, centre, width = modest_setting(rng)
    dim = pick(rng, DIMS)
    x = sc.array(dims=[dim], values=centre + width * rng.uniform(-4, 4, size=5), unit=xunit)
    data = own_curve_data(rng, xunit, yunit, centre, width, dim)
    case = {'kind': 'forms', 'x_unit': xunit, 'y_unit': yunit, 'x': describe_x(x)}

    def reference(spec):
        m = build_model(rng, M, spec, use_add=False)
        lv = [modest_leaf_values(rng, ctx, leaf, xunit, yunit, centre, width)[0] for leaf in leaves_of(spec)]
        params = full_params(spec, lv)
        return m, params, answers(m, x, params, data)

    def judge(make, spec, params, ref, label, **keys):
        """The model ``make()`` builds (arguments in the form under test) against the builtin form."""
        st, m = attempt(make)
        if st == 'raised':
            ctx.count('form_model_not_built:' + type(m).__name__)  # judged by the constructor monitors
            return None
        got = mon.spec_of(m)
        if got != spec:
            ctx.inconclusive_because('harness: observed model structure differs from the plan: '
                                     f'{spec_str(got) if got else got} vs {spec_str(spec)}')
            return None
        c = dict(case)
        c['model'] = spec_str(spec)
        c['form'] = label
        judge_documented_names(ctx, m, spec, c, **keys)
        compare_answers(ctx, answers(m, x, shuffled(rng, params), data), ref, label, c, **keys)
        return m

    # ---- the polynomial degree in every integer form (x the prefix forms in turn)
    shift = int(rng.integers(0, 6))
    sforms = list(STR_FORMS.items())
    for j, (dlabel, dform) in enumerate(DEGREE_FORMS.items()):
        d = 1 + (j + shift) % 6
        p = draw_prefix(rng, ctx)
        plabel, pform = ('str', str) if j % 2 == 0 else sforms[(j // 2) % len(sforms)]
        spec = {'kind': 'poly', 'prefix': p, 'degree': d}
        _, params, ref = reference(spec)
        ctx.hit(FC_DEGREE + dlabel)
        m = judge(lambda: M.PolynomialModel(degree=dform(d), prefix=pform(p)),  # noqa: B023
                  spec, params, ref, FC_DEGREE + dlabel, arg='degree', form=dlabel)
        if m is None:
            continue
        # ... and usable as the background of a composite
        q = 'pk9_' if not p.startswith('pk9') else 'zz9_'
        kind = pick(rng, PEAKS)
        cspec = {'kind': 'comp', 'prefix': '', 'left': spec, 'right': {'kind': kind, 'prefix': q}}
        _, cparams, cref = reference(cspec)
        judge(lambda: m + build_leaf(M, {'kind': kind, 'prefix': q}),  # noqa: B023
              cspec, cparams, cref, FC_DEGREE + dlabel + ' (in a composite)', arg='degree', form=dlabel)
    # ---- prefixes in every str form: constructor, with_prefix, composite prefix -- every model kind
    for flabel, form in STR_FORMS.items():
        for kind in (*PEAKS, 'poly'):
            p = draw_prefix(rng, ctx)
            spec = {'kind': kind, 'prefix': p}
            if kind == 'poly':
                spec['degree'] = int(rng.integers(1, 7))
            _, params, ref = reference(spec)
            ctx.hit(FC_PREFIX + flabel)
            cls = {'gauss': M.GaussianModel, 'lorentz': M.LorentzianModel, 'pvoigt': M.PseudoVoigtModel}.get(kind)
            if cls is None:
                judge(lambda: M.PolynomialModel(degree=spec['degree'], prefix=form(p)),  # noqa: B023
                      spec, params, ref, FC_PREFIX + flabel, arg='prefix', form=flabel)
            else:
                judge(lambda: cls(prefix=form(p)), spec, params, ref, FC_PREFIX + flabel,  # noqa: B023
                      arg='prefix', form=flabel)
            ctx.hit(FC_WITH_PREFIX + flabel)
            other = draw_prefix(rng, ctx, avoid=(p,))
            judge(lambda: build_leaf(M, {**spec, 'prefix': other}).with_prefix(form(p)),  # noqa: B023
                  spec, params, ref, FC_WITH_PREFIX + flabel, arg='with_prefix', form=flabel)
        # the prefix of a composite (constructor and with_prefix)
        lp, rp = pick(rng, [('b_', 'g_'), ('', 'p_'), ('bkg_', ''), ('a', 'am')])
        cp = draw_prefix(rng, ctx, avoid=('',))
        cspec = {'kind': 'comp', 'prefix': cp, 'left': {'kind': 'poly', 'prefix': lp, 'degree': 2},
                 'right': {'kind': pick(rng, PEAKS), 'prefix': rp}}
        _, cparams, cref = reference(cspec)
        ctx.hit(FC_COMP_PREFIX + flabel)
        judge(lambda: M.CompositeModel(build_leaf(M, cspec['left']), build_leaf(M, cspec['right']),  # noqa: B023
                                       prefix=form(cp)),  # noqa: B023
              cspec, cparams, cref, FC_COMP_PREFIX + flabel, arg='composite prefix', form=flabel)
        judge(lambda: (build_leaf(M, cspec['left']) + build_leaf(M, cspec['right'])).with_prefix(form(cp)),  # noqa: B023
              cspec, cparams, cref, FC_COMP_PREFIX + flabel + ' (with_prefix)', arg='composite prefix', form=flabel)
    # ---- parameter names / coordinate name in every str form; mappings; conventions -- on fixed models
    specs = [{'kind': k, 'prefix': draw_prefix(rng, ctx)} for k in PEAKS]
    specs.append({'kind': 'poly', 'prefix': draw_prefix(rng, ctx), 'degree': int(rng.integers(1, 7))})
    specs.append({'kind': 'comp', 'prefix': draw_prefix(rng, ctx, avoid=('',)),
                  'left': {'kind': 'poly', 'prefix': 'b_', 'degree': 1}, 'right': {'kind': pick(rng, PEAKS),
                                                                                   'prefix': 'g_'}})
    for spec in specs:
        m, params, ref = reference(spec)
        kind = spec['kind']
        c = dict(case)
        c['model'] = spec_str(spec)

        def cmp(label, quantity, f, **keys):
            st, a = attempt(f)
            rs, ra = ref[quantity]  # noqa: B023
            ctx.event('form_judged')
            if st == 'raised':
                if rs != 'raised' or type(a) is not type(ra):
                    ctx.violation('form_dependence', f'{label}: {quantity} of {spec_str(spec)} raised '  # noqa: B023
                                  f'{type(a).__name__}: {a}', c, quantity=quantity, **keys)  # noqa: B023
            elif rs == 'raised':
                ctx.violation('form_dependence', f'{label}: {quantity} of {spec_str(spec)} returned; the plain call '  # noqa: B023
                              f'raised {type(ra).__name__}', c, quantity=quantity, **keys)  # noqa: B023
            else:
                same_answer(ctx, a, ra, f'{label}: {quantity} of {spec_str(spec)}', c,  # noqa: B023
                            quantity=quantity, **keys)

        for flabel, form in STR_FORMS.items():
            ctx.hit(FC_KEYS + flabel)
            fk = {form(k): v for k, v in shuffled(rng, params).items()}
            cmp(FC_KEYS + flabel, 'value', lambda: m(x, **fk), arg='parameter names', form=flabel)  # noqa: B023
            cmp(FC_KEYS + flabel, 'fwhm', lambda: m.fwhm(fk), arg='parameter names', form=flabel)  # noqa: B023
            ctx.hit(FC_COORD + flabel)
            cmp(FC_COORD + flabel, 'guess', lambda: m.guess(data, coord=form(dim)),  # noqa: B023
                arg='coord', form=flabel)
        for mlabel, mk in MAPPINGS.items():
            ctx.hit(FC_MAPPING + mlabel)
            cmp(FC_MAPPING + mlabel, 'fwhm', lambda: m.fwhm(mk(dict(params))),  # noqa: B023
                arg='params mapping', form=mlabel)
            cmp(FC_MAPPING + mlabel, 'value', lambda: m(x, **mk(dict(params))),  # noqa: B023
                arg='params mapping', form=mlabel)
        conv = {
            'x by keyword': ('value', lambda: m(x=x, **params)),  # noqa: B023
            'unbound Model.__call__(model, x, **params)': ('value', lambda: M.Model.__call__(m, x, **params)),  # noqa: B023
            'type(model).__call__': ('value', lambda: type(m).__call__(m, x, **params)),  # noqa: B023
            'bound model.__call__': ('value', lambda: m.__call__(x, **params)),  # noqa: B023
            'fwhm(params=...)': ('fwhm', lambda: m.fwhm(params=params)),  # noqa: B023
            'guess(data=..., coord=...)': ('guess', lambda: m.guess(data=data, coord=dim)),  # noqa: B023
        }
        for clabel, (quantity, f) in conv.items():
            ctx.hit(FC_CONV + clabel)
            cmp(FC_CONV + clabel, quantity, f, arg='convention', form=clabel)
        # constructors / with_prefix by keyword
        ctx.hit(FC_CONV + 'with_prefix(prefix=...)')
        other = draw_prefix(rng, ctx, avoid=(spec['prefix'],))
        judge(lambda: build_model(rng, M, {**spec, 'prefix': other}, False).with_prefix(prefix=spec['prefix']),  # noqa: B023
              spec, params, ref, FC_CONV + 'with_prefix(prefix=...)', arg='convention', form='with_prefix(prefix=...)')
        if kind == 'comp':
            ctx.hit(FC_CONV + 'CompositeModel(left=..., right=..., prefix=...)')
            judge(lambda: M.CompositeModel(left=build_leaf(M, spec['left']), right=build_leaf(M, spec['right']),  # noqa: B023
                                           prefix=spec['prefix']),  # noqa: B023
                  spec, params, ref, FC_CONV + 'CompositeModel(left=..., right=..., prefix=...)', arg='convention',
                  form='CompositeModel keywords')
            bare = {**spec, 'prefix': ''}
            _, bparams, bref = reference(bare)
            ctx.hit(FC_CONV + 'CompositeModel(left, right) without prefix')
            judge(lambda: M.CompositeModel(build_leaf(M, spec['left']), build_leaf(M, spec['right'])),  # noqa: B023
                  bare, bparams, bref, FC_CONV + 'CompositeModel(left, right) without prefix', arg='convention',
                  form='CompositeModel positional')
            ctx.hit(FC_CONV + 'left.__add__(right)')
            judge(lambda: build_leaf(M, spec['left']).__add__(build_leaf(M, spec['right'])),  # noqa: B023
                  bare, bparams, bref, FC_CONV + 'left.__add__(right)', arg='convention', form='__add__')
    sig = ('forms', xunit, yunit, shift)
    return sig, False, case


# ------------------------------------------------------ second use / in between ---
# A model is a value: evaluating it, asking it anything, copying, displaying, pickling, combining or re-prefixing
# it, a call that was refused -- none of this may change what the same call returns afterwards, nor touch the
# caller's x / parameters (the closed forms are evaluated in place on temporaries).
OP_AGAIN = 'the same call again (same dict and Variable objects)'
OP_REFUSED_NAMES = 'a call refused for its names'
OP_REFUSED_UNITS = 'a call that failed on units half-way'
OP_FWHM = 'fwhm asked'
OP_GUESS = 'guess asked'
OP_ACCESSORS = 'param_names / param_bounds read and modified by the caller'
OP_WITH_PREFIX = 'with_prefix copy made and evaluated'
OP_COMPOSED = 'used as a part of two composites that were evaluated'
OP_DISPLAY = 'repr / str / format'
OP_COMPARE = '== / != / hash / bool / vars / dir'
OP_COPY = 'copy.copy evaluated'
OP_DEEPCOPY = 'copy.deepcopy evaluated'
OP_PICKLE = 'pickle round trip evaluated'
OP_FED_BACK = 'the result fed back as x'
OP_OTHER_X = 'evaluated at another x (other shape, unit scale, dim)'
BETWEEN_OPS = [OP_AGAIN, OP_REFUSED_NAMES, OP_REFUSED_UNITS, OP_FWHM, OP_GUESS, OP_ACCESSORS, OP_WITH_PREFIX,
               OP_COMPOSED, OP_DISPLAY, OP_COMPARE, OP_COPY, OP_DEEPCOPY, OP_PICKLE, OP_FED_BACK, OP_OTHER_X]
FC_BETWEEN = 'in between: '
FC_ALIASED = 'aliased arguments: one Variable object for x, loc and scale / for every coefficient'


def reuse_case(rng, ctx, mon, M):
    xunit, yunit, centre, width = modest_setting(rng)
    dim = pick(rng, DIMS)
    x = sc.array(dims=[dim], values=centre + width * rng.uniform(-4, 4, size=6), unit=xunit)
    case = {'kind': 'second use', 'x_unit': xunit, 'y_unit': yunit, 'x': describe_x(x)}
    specs = [{'kind': k, 'prefix': draw_prefix(rng, ctx)} for k in PEAKS]
    specs.append({'kind': 'poly', 'prefix': draw_prefix(rng, ctx), 'degree': int(rng.integers(1, 7))})
    lp, rp = pick(rng, [('b_', 'g_'), ('', 'p_'), ('bkg_', ''), ('a', 'am')])
    specs.append({'kind': 'comp', 'prefix': draw_prefix(rng, ctx), 'left': {'kind': 'poly', 'prefix': lp, 'degree': 2},
                  'right': {'kind': pick(rng, PEAKS), 'prefix': rp}})
    for spec in specs:
        kind = spec['kind']
        m = build_model(rng, M, spec, use_add=False)
        lv = [modest_leaf_values(rng, ctx, leaf, xunit, yunit, centre, width)[0] for leaf in leaves_of(spec)]
        params = full_params(spec, lv)
        snap = {k: bits_full(v) for k, v in params.items()}
        xsnap = bits_full(x)
        c = dict(case)
        c['model'] = spec_str(spec)
        c['params'] = describe_params(params)
        r0 = safe_call(m, x, params)
        if not isinstance(r0, sc.Variable):
            ctx.count('second_use_no_first_result')
            continue
        b0 = bits_full(r0)

        def again(op, model=None, p=None, what='second_use_differs'):
            r = safe_call(model if model is not None else m, x, p if p is not None else params)  # noqa: B023
            ctx.event('second_use')
            ctx.hit(FC_BETWEEN + op)
            if not isinstance(r, sc.Variable) or bits_full(r) != b0:  # noqa: B023
                ctx.violation(what, f'{spec_str(spec)}: after "{op}" the call returns '  # noqa: B023
                              f'{"another result" if isinstance(r, sc.Variable) else "no result"} for the same '
                              f'x and parameters', c, model=kind, op=op)  # noqa: B023

        def quiet(f):
            try:
                return f()
            except Exception:  # noqa: BLE001  (judged by the monitors where it matters)
                return None

        again(OP_AGAIN)
        names = sorted(params)
        drop = pick(rng, names)
        quiet(lambda: m(x, **{k: v for k, v in params.items() if k != drop}))  # noqa: B023
        quiet(lambda: m(x, **params, **{drop + '_unknown': params[drop]}))  # noqa: B023
        again(OP_REFUSED_NAMES)
        # a parameter of another dimension: the in-place evaluation stops with a unit error half-way
        victim = next((k for k in reversed(names) if k.endswith(('loc', 'a1'))), names[-1])
        bad = dict(params)
        bad[victim] = sc.scalar(float(params[victim].value), unit='K' if params[victim].unit != sc.Unit('K') else 's')
        quiet(lambda: m(x, **bad))  # noqa: B023
        again(OP_REFUSED_UNITS)
        quiet(lambda: m.fwhm(params))  # noqa: B023
        again(OP_FWHM)
        d = data_of(r0, x)
        quiet(lambda: m.guess(d))  # noqa: B023
        quiet(lambda: m.guess(d, coord=dim))  # noqa: B023
        again(OP_GUESS)
        history_probe(m)
        again(OP_ACCESSORS)
        q = draw_prefix(rng, ctx, avoid=(spec['prefix'],))
        m2 = quiet(lambda: m.with_prefix(q))  # noqa: B023
        if m2 is not None and mon.spec_of(m2) is not None:
            s2 = {**spec, 'prefix': q}
            again(OP_WITH_PREFIX, model=m2, p=full_params(s2, lv), what='copy_differs')
        again(OP_WITH_PREFIX)
        # part of two composites (left of one, right of the other) with a sibling whose names do not clash
        sib_spec = {'kind': pick(rng, PEAKS), 'prefix': 'zz9_'}
        if not (spec_names(sib_spec) & spec_names(spec)):
            sib = build_leaf(M, sib_spec)
            sv = modest_leaf_values(rng, ctx, sib_spec, xunit, yunit, centre, width)[0]
            sp = {'zz9_' + k: v for k, v in sv.items()}
            for comp in (quiet(lambda: m + sib), quiet(lambda: M.CompositeModel(sib, m, prefix='outer_'))):  # noqa: B023
                cs = mon.spec_of(comp) if comp is not None else None
                if cs is not None:
                    full = {cs['prefix'] + k: v for k, v in {**params, **sp}.items()}
                    safe_call(comp, x, shuffled(rng, full))
            again(OP_COMPOSED)
            r = safe_call(sib, x, sp)
            if isinstance(r, sc.Variable):
                ctx.event('second_use')
        quiet(lambda: (repr(m), str(m), f'{m}', format(m)))  # noqa: B023
        again(OP_DISPLAY)
        quiet(lambda: (m == m, m != m, m == m2, hash(m), bool(m), dict(vars(m)), dir(m)))  # noqa: B023
        again(OP_COMPARE)
        for op, f in ((OP_COPY, copy.copy), (OP_DEEPCOPY, copy.deepcopy),
                      (OP_PICKLE, lambda o: pickle.loads(pickle.dumps(o)))):  # noqa: S301
            st, cm = attempt(lambda: f(m))  # noqa: B023
            if st == 'raised':
                ctx.hit(FC_BETWEEN + op)
                ctx.violation('copy_raised', f'{op.split()[0]} of {spec_str(spec)} raised {type(cm).__name__}: {cm}',
                              c, model=kind, op=op)
            else:
                # the copy is the same model: the structure the original was built with
                mon._register(cm, spec)
                again(op, model=cm, what='copy_differs')
            again(op)
        safe_call(m, r0, params)
        again(OP_FED_BACK)
        x2 = sc.array(dims=['row', dim], values=centre + width * rng.uniform(-4, 4, size=(2, 3)), unit=xunit)
        safe_call(m, x2, params)
        safe_call(m, sc.scalar(centre, unit=xunit), params)
        again(OP_OTHER_X)
        # the caller's objects are untouched
        ctx.event('inputs_unchanged_judged')
        changed = [k for k, v in params.items() if bits_full(v) != snap[k]]
        if bits_full(x) != xsnap:
            changed.append('x')
        if changed:
            ctx.violation('input_modified', f'{spec_str(spec)}: the caller\'s {changed} changed during evaluation',
                          c, model=kind)
    # ---- aliased arguments: one object in several roles
    ctx.hit(FC_ALIASED)
    for kind in PEAKS:
        p = draw_prefix(rng, ctx)
        m = build_leaf(M, {'kind': kind, 'prefix': p})
        v = sc.scalar(logu(rng, -2, 2), unit=xunit)
        vb = bits_full(v)
        params = {p + 'amplitude': sc.scalar(float(rng.uniform(0.5, 2)), unit=sc.Unit(yunit) * sc.Unit(xunit)),
                  p + 'loc': v, p + 'scale': v}
        if kind == 'pvoigt':
            params[p + 'fraction'] = sc.scalar(float(rng.uniform(0, 1)))
        safe_call(m, v, params)
        safe_call(m, x, params)
        ctx.event('aliased')
        if bits_full(v) != vb:
            ctx.violation('input_modified', f'{kind}: the Variable given as x, loc and scale changed', case, model=kind)
    d = int(rng.integers(1, 7))
    p = draw_prefix(rng, ctx)
    m = build_leaf(M, {'kind': 'poly', 'prefix': p, 'degree': d})
    v = sc.scalar(float(rng.uniform(-2, 2)))
    vb = bits_full(v)
    safe_call(m, v, {f'{p}a{i}': v for i in range(d + 1)})
    ctx.event('aliased')
    if bits_full(v) != vb:
        ctx.violation('input_modified', 'poly: the Variable given as x and every coefficient changed', case,
                      model='poly')
    sig = ('second use', xunit, yunit, dim)
    return sig, False, case


# ----------------------------------------- every layout / dtype / decoration of x ---
# "x ... in arbitrary units": x is whatever Variable the caller holds -- 0-d, 1-d, 2-d, transposed, a strided or
# inner slice, a read-only broadcast, empty, a coordinate of a data array, float32 / integer valued, with
# variances, with a dim named like a parameter or like a name the implementation uses.  The values at every
# element are those of the definition at that exact number; the result has the dims and shape of x.
LAYOUTS = ['0-d', '1-d', '2-d', '2-d transposed', 'strided slice', 'inner slice of 2-d', 'read-only broadcast', 'empty',
           'length 1', 'coordinate of a data array', 'bin-edge coordinate of a data array', 'float32', 'int64',
           'int32', '1-d with variances', '0-d with variances', '3-d']
INTERNAL_DIMS = ['x', 'y', 'amplitude', 'loc', 'scale', 'fraction', 'a0', 'a1', 'params', 'self', 'val', 'left',
                 'right', 'prefix', 'dim_0', '']
FC_LAYOUT = 'x layout: '
FC_DIM = 'x dim named: '
FC_PARAM_VAR = 'parameters with variances (0-d x / 1-d x)'
FC_PARAM_INT = 'peak parameters as integer-valued variables (int64)'
FC_FWHM_VAR = 'fwhm of a scale with variance'


def layout_variants(rng, xv, unit):
    """{layout: Variable} from 12 abscissae."""
    a = np.asarray(xv, dtype=np.float64)
    two = sc.array(dims=['u', 'v'], values=a.reshape(3, 4), unit=unit)
    da = sc.DataArray(sc.array(dims=['t'], values=np.arange(12.0)), coords={'t': sc.array(dims=['t'], values=a,
                                                                                          unit=unit)})
    hist = sc.DataArray(sc.array(dims=['t'], values=np.arange(11.0)),
                        coords={'t': sc.array(dims=['t'], values=np.sort(a), unit=unit)})
    ints = np.unique(np.rint(a).astype(np.int64))
    out = {
        '0-d': sc.scalar(float(a[0]), unit=unit),
        '1-d': sc.array(dims=['t'], values=a, unit=unit),
        '2-d': two,
        '2-d transposed': two.transpose(),
        'strided slice': sc.array(dims=['t'], values=a, unit=unit)['t', 1::3],
        'inner slice of 2-d': two['v', 2],
        'read-only broadcast': sc.scalar(float(a[1]), unit=unit).broadcast(dims=['t', 'u'], shape=[2, 3]),
        'empty': sc.array(dims=['t'], values=a, unit=unit)['t', 0:0],
        'length 1': sc.array(dims=['t'], values=a[:1], unit=unit),
        'coordinate of a data array': da.coords['t'],
        'bin-edge coordinate of a data array': hist.coords['t'],
        'float32': sc.array(dims=['t'], values=a.astype(np.float32), unit=unit, dtype='float32'),
        'int64': sc.array(dims=['t'], values=ints, unit=unit, dtype='int64'),
        'int32': sc.array(dims=['t'], values=ints.astype(np.int32), unit=unit, dtype='int32'),
        '1-d with variances': sc.array(dims=['t'], values=a, variances=(1e-3 * (1 + np.abs(a))) ** 2, unit=unit),
        '0-d with variances': sc.scalar(float(a[2]), variance=float((1e-3 * (1 + abs(a[2]))) ** 2), unit=unit),
        '3-d': sc.array(dims=['u', 'v', 'w'], values=a.reshape(2, 3, 2), unit=unit),
    }
    return out


def layout_case(rng, ctx, mon, M):
    xunit, yunit = pick(rng, X_UNITS), pick(rng, A_UNITS)
    # scales of a few units so that integer abscissae resolve the curve
    width = logu(rng, 0.3, 1.5)
    centre = width * float(rng.uniform(-5, 5))
    xv = centre + width * rng.uniform(-3, 3, size=12)
    variants = layout_variants(rng, xv, xunit)
    case = {'kind': 'layouts', 'x_unit': xunit, 'y_unit': yunit, 'x_hex': [_hex(v) for v in xv]}
    specs = [{'kind': k, 'prefix': draw_prefix(rng, ctx)} for k in PEAKS]
    specs.append({'kind': 'poly', 'prefix': draw_prefix(rng, ctx), 'degree': int(rng.integers(1, 5))})
    lp, rp = pick(rng, [('b_', 'g_'), ('', 'p_'), ('bkg_', ''), ('a', 'am')])
    specs.append({'kind': 'comp', 'prefix': draw_prefix(rng, ctx), 'left': {'kind': 'poly', 'prefix': lp, 'degree': 1},
                  'right': {'kind': pick(rng, PEAKS), 'prefix': rp}})
    for spec in specs:
        m = build_model(rng, M, spec, use_add=False)
        lvn = [modest_leaf_values(rng, ctx, leaf, xunit, yunit, centre, width) for leaf in leaves_of(spec)]
        lv = [a for a, _ in lvn]
        params = full_params(spec, lv)
        for lab, xx in variants.items():
            ctx.hit(FC_LAYOUT + lab)
            before = bits_full(xx)
            safe_call(m, xx, shuffled(rng, params))  # judged by the __call__ monitor
            ctx.event('layout')
            if bits_full(xx) != before:
                ctx.violation('input_modified', f'{spec_str(spec)}: the caller\'s x ({lab}) changed during '
                              f'evaluation', case, model=spec['kind'])
        for dn in INTERNAL_DIMS:
            ctx.hit(FC_DIM + repr(dn))
            safe_call(m, sc.array(dims=[dn], values=xv[:4], unit=xunit), params)
            safe_call(m, sc.array(dims=['t', dn], values=xv[:6].reshape(2, 3), unit=xunit), params)
            ctx.event('layout')
        # parameters with variances: values still right where scipp returns a result
        ctx.hit(FC_PARAM_VAR)
        pvar = {k: sc.scalar(float(v.value), variance=float((1e-3 * (abs(v.value) + 1e-3)) ** 2), unit=v.unit)
                for k, v in params.items()}
        safe_call(m, variants['0-d'], pvar)
        safe_call(m, variants['1-d'], pvar)
        safe_call(m, variants['0-d with variances'], pvar)
        if spec['kind'] in PEAKS:
            ctx.hit(FC_FWHM_VAR)
            try:
                m.fwhm(pvar)
            except Exception:  # noqa: BLE001  (judged by the fwhm monitor)
                pass
            # integer-valued parameters (an amplitude in counts, a location on a channel number)
            num = lvn[0][1]
            ints = {'amplitude': int(np.copysign(max(1, round(abs(num['amplitude']))), num['amplitude'])),
                    'loc': int(round(num['loc'])), 'scale': max(1, int(round(num['scale'])))}
            ctx.hit(FC_PARAM_INT)
            for which in ('amplitude', 'loc', 'scale', 'all'):
                pint = dict(params)
                for k, iv in ints.items():
                    if which in (k, 'all'):
                        pint[spec['prefix'] + k] = sc.scalar(iv, unit=params[spec['prefix'] + k].unit, dtype='int64')
                safe_call(m, variants['1-d'], pint)  # (integer x with an integer loc: scipp keeps x - loc integer
                safe_call(m, variants['2-d'], pint)  # and refuses the in-place division -- not driven)
    sig = ('layouts', xunit, yunit)
    return sig, False, case


# ------------------------------------- the caller's own model classes as parts ---
# Model documents its extension point ("Subclasses should override the protected methods _call, _guess, and
# optionally _param_bounds"): a caller's own model is a Model like any other -- alone, under prefixes, and as a
# part of composites, where "a composite equals the sum of its parts" whatever classes the parts are (the
# composite reaches its parts through their public methods).  Also: a subclass of a model of the package that
# overrides _call.  The names are given to Model.__init__ as a one-shot iterator ("Iterable[str]").
FC_USER_ALONE = 'own Model subclass evaluated alone (names from a one-shot iterator)'
FC_USER_LEFT = 'own Model subclass as the left part of a composite'
FC_USER_RIGHT = 'own Model subclass as the right part of a composite'
FC_USER_NESTED = 'own Model subclass in a nested, prefixed composite'
FC_USER_PAIR = 'composite of two own Model subclasses'
FC_SUB_OVERRIDE = 'subclass of GaussianModel overriding _call, alone and as a part'
STANDIN_CLASSES = [FC_USER_ALONE, FC_USER_LEFT, FC_USER_RIGHT, FC_USER_NESTED, FC_USER_PAIR, FC_SUB_OVERRIDE]
_USER = {}


def user_classes(M):
    if 'line' in _USER:
        return _USER

    class LineModel(M.Model):
        """h + k x"""

        def __init__(self, *, prefix=''):
            super().__init__(param_names=iter(('h', 'k')), prefix=prefix)

        def _call(self, x, params):
            return params['h'] + params['k'] * x

        def _guess(self, x, y):
            return {'h': sc.min(y), 'k': (sc.max(y) - sc.min(y)) / (sc.max(x) - sc.min(x))}

        def _param_bounds(self):
            return {'k': (-1e30, 1e30)}

    class DoubledGaussian(M.GaussianModel):
        """Twice the Gaussian of the package."""

        def _call(self, x, params):
            return super()._call(x, params) * 2.0

    _USER['line'] = LineModel
    _USER['gauss2'] = DoubledGaussian
    return _USER


def build_any(M, mon, spec):
    """Model of a spec that may contain the caller's own classes (registered here: their constructors are the
    caller's code); composites through the real constructor."""
    k = spec['kind']
    if k in ('line', 'gauss2'):
        m = user_classes(M)[k](prefix=spec['prefix'])
        mon._register(m, {'kind': k, 'prefix': spec['prefix']})
        return history_probe(m)
    if k != 'comp':
        return build_leaf(M, spec)
    left, right = build_any(M, mon, spec['left']), build_any(M, mon, spec['right'])
    if spec['prefix'] == '':
        return history_probe(left + right)
    return history_probe(M.CompositeModel(left, right, prefix=spec['prefix']))


def standin_case(rng, ctx, mon, M):
    xunit, yunit, centre, width = modest_setting(rng)
    dim = pick(rng, DIMS)
    data = own_curve_data(rng, xunit, yunit, centre, width, dim)
    case = {'kind': 'own model classes', 'x_unit': xunit, 'y_unit': yunit}

    def leaf(kind):
        s = {'kind': kind, 'prefix': None}
        if kind == 'poly':
            s['degree'] = int(rng.integers(1, 5))
        return s

    def with_prefixes(tree, prefixes):
        """tree: nested tuples ('c', left, right) / leaf dicts; prefixes consumed left to right, depth first."""
        it = iter(prefixes)

        def walk(t):
            if isinstance(t, dict):
                return {**t, 'prefix': next(it)}
            left, right = walk(t[1]), walk(t[2])
            return {'kind': 'comp', 'prefix': next(it), 'left': left, 'right': right}
        return walk(tree)

    builtin = lambda: leaf(pick(rng, [*PEAKS, 'poly']))  # noqa: E731
    plans = [
        (FC_USER_ALONE, leaf('line'), [draw_prefix(rng, ctx)]),
        (FC_USER_ALONE, leaf('line'), ['']),
        (FC_USER_LEFT, ('c', leaf('line'), builtin()), ['u_', 'p_', draw_prefix(rng, ctx)]),
        (FC_USER_RIGHT, ('c', builtin(), leaf('line')), [draw_prefix(rng, ctx, avoid=('h', 'k', '')), '', '']),
        (FC_USER_NESTED, ('c', ('c', builtin(), leaf('line')), builtin()),
         ['b_', 'u_', draw_prefix(rng, ctx, avoid=('',)), 'g_', draw_prefix(rng, ctx)]),
        (FC_USER_PAIR, ('c', leaf('line'), leaf('line')), ['l1_', 'l2_', draw_prefix(rng, ctx)]),
        (FC_SUB_OVERRIDE, leaf('gauss2'), [draw_prefix(rng, ctx)]),
        (FC_SUB_OVERRIDE, ('c', leaf('poly'), leaf('gauss2')), ['', 'd_', '']),
        (FC_SUB_OVERRIDE, ('c', leaf('gauss2'), ('c', leaf('gauss'), leaf('line'))),
         ['d_', 'g_', 'u_', draw_prefix(rng, ctx), draw_prefix(rng, ctx)]),
    ]
    for label, tree, prefixes in plans:
        spec = with_prefixes(tree, prefixes)
        if not names_disjoint(spec):
            ctx.count('standin_names_overlap')
            continue
        try:
            m = build_any(M, mon, spec)
        except Exception as e:  # noqa: BLE001
            ctx.violation('composite_refused_disjoint', f'{spec_str(spec)} could not be built from the caller\'s own '
                          f'model classes: {type(e).__name__}: {e}', {**case, 'model': spec_str(spec)},
                          where='own model classes')
            continue
        if mon.spec_of(m) != spec:
            got = mon.spec_of(m)
            ctx.inconclusive_because('harness: observed model structure differs from the plan: '
                                     f'{spec_str(got) if got else got} vs {spec_str(spec)}')
            continue
        ctx.hit(label)
        c = dict(case)
        c['model'] = spec_str(spec)
        lv = [modest_leaf_values(rng, ctx, lf, xunit, yunit, centre, width)[0] for lf in leaves_of(spec)]
        params = full_params(spec, lv)
        n = int(rng.integers(1, 9))
        x = sc.array(dims=[dim], values=centre + width * rng.uniform(-4, 4, size=n), unit=xunit)
        safe_call(m, x, shuffled(rng, params))  # pointwise, part by part: the __call__ monitor
        ctx.event('standin')
        good = dict(params)
        good['__x__'] = x
        check_refusals(rng, ctx, m, list(params), good, ['extra', spec['prefix'] + 'h', 'k', spec['prefix'] + 'a0'])
        judge_documented_names(ctx, m, spec, c)
        # guess / param_bounds reach the parts through their public methods: the documented names
        st, g = attempt(lambda: m.guess(data))  # noqa: B023
        if st == 'ok' and judge_guess_names(ctx, spec, g, c, 'harness') and data.variances is None:
            safe_call(m, data.coords[dim], g)
        st, b = attempt(lambda: m.param_bounds)  # noqa: B023
        if st == 'ok':
            judge_bounds_names(ctx, spec, b, c, 'harness')
            # every part that declares bounds is bounded in the composite under its full name
            want = {n_ for n_ in spec_names(spec) if n_.endswith(('scale', 'fraction', 'k'))}
            want = {n_ for n_ in want if name_map(spec)(n_).split(':')[1] in ('scale', 'fraction', 'k')}
            ctx.event('standin_bounds')
            if isinstance(b, dict) and {plain(k) for k in b} != want:
                ctx.violation('bounds_names', f'{spec_str(spec)}.param_bounds has names {sorted(b)}, the parts declare '
                              f'bounds for {sorted(want)}', c, model=spec['kind'], where='param_bounds',
                              seen_by='harness', own_prefix='empty' if spec['prefix'] == '' else 'non-empty')
        else:
            ctx.violation('bounds_raised', f'param_bounds of {spec_str(spec)} raised {type(b).__name__}: {b}', c,
                          model=spec['kind'])
        # under another prefix: bitwise the same values
        q = draw_prefix(rng, ctx, avoid=(spec['prefix'],))
        st, m2 = attempt(lambda: m.with_prefix(q))  # noqa: B023
        if st == 'ok' and mon.spec_of(m2) is not None:
            s2 = {**spec, 'prefix': q}
            res = [(spec['prefix'], safe_call(m, x, params)), (q, safe_call(m2, x, full_params(s2, lv)))]
            check_prefix_bitwise(ctx, res, 'value', c, spec['kind'])
    sig = ('own model classes', xunit, yunit, dim)
    return sig, False, case


# ------------------------------------------------------------- heavy sizes ---
HEAVY_SHAPES = {'1-d, 2**20 + 7': (2 ** 20 + 7,), '2-d, 3 x 400001': (3, 400001)}
FC_HEAVY = 'heavy x: '


def heavy_case(rng, ctx, mon, M):
    """x far beyond any block size (model.py has no literal size; scipp parallelises above thresholds of its own):
    every element is judged pointwise like any other."""
    xunit, yunit = pick(rng, X_UNITS), pick(rng, A_UNITS)
    width = logu(rng, -1, 1)
    centre = width * float(rng.uniform(-20, 20))
    specs = [{'kind': k, 'prefix': draw_prefix(rng, ctx)} for k in PEAKS]
    specs.append({'kind': 'poly', 'prefix': draw_prefix(rng, ctx), 'degree': int(rng.integers(1, 7))})
    specs.append({'kind': 'comp', 'prefix': draw_prefix(rng, ctx), 'left': {'kind': 'poly', 'prefix': 'b_', 'degree': 2},
                  'right': {'kind': pick(rng, PEAKS), 'prefix': ''}})
    case = {'kind': 'heavy', 'x_unit': xunit, 'y_unit': yunit, 'specs': [spec_str(s) for s in specs]}
    for label, shape in HEAVY_SHAPES.items():
        n = int(np.prod(shape))
        xv = centre + width * rng.uniform(-8, 8, size=n)
        xv[:: 4099] = centre
        dims = ['t'] if len(shape) == 1 else ['spectrum', 't']
        x = sc.array(dims=dims, values=xv.reshape(shape), unit=xunit)
        for spec in specs:
            m = build_model(rng, M, spec, use_add=False)
            lv = [modest_leaf_values(rng, ctx, leaf, xunit, yunit, centre, width)[0] for leaf in leaves_of(spec)]
            safe_call(m, x, full_params(spec, lv))
            ctx.hit(FC_HEAVY + label)
            ctx.event('heavy')
            ctx.case(('heavy', label, spec['kind']))
    return ('heavy', xunit, yunit), False, case


def in_situ_fit(rng, ctx, mon, M):
    """The models evaluated inside the real fitting pipeline, with the monitors armed."""
    from scippneutron.peaks import fit_peaks

    mon.origin = 'fit_peaks'
    xunit = ['angstrom', 'us', 'm'][int(rng.integers(0, 3))]
    n = int(rng.integers(120, 300))
    locs = np.array([2.0, 5.5]) * logu(rng, -1, 2)
    span = locs[1] - locs[0]
    xs = np.linspace(locs[0] - span, locs[1] + span, n)
    peak_kind = ['gaussian', 'lorentzian', 'pseudo_voigt'][int(rng.integers(0, 3))]
    bkg = ['linear', 'quadratic'][int(rng.integers(0, 2))]
    sig = span * rng.uniform(0.03, 0.08)
    y = 3.0 + 0.1 * (xs - xs[0]) / span
    for mu in locs:
        y = y + 40 * np.exp(-0.5 * ((xs - mu) / sig) ** 2)
    y = y + rng.normal(0, 0.2, size=n)
    data = sc.DataArray(sc.array(dims=['x'], values=y, variances=np.maximum(y, 1.0) / 10, unit='counts'),
                        coords={'x': sc.array(dims=['x'], values=xs, unit=xunit)})
    peak = peak_kind
    if rng.random() < 0.5:
        cls = {'gaussian': M.GaussianModel, 'lorentzian': M.LorentzianModel,
               'pseudo_voigt': M.PseudoVoigtModel}[peak_kind]
        peak = cls(prefix=draw_prefix(rng, ctx))
    try:
        fit_peaks(data, peak_estimates=sc.array(dims=['x'], values=locs, unit=xunit),
                  windows=sc.scalar(span * 0.8, unit=xunit), background=bkg, peak=peak)
        ctx.count('fit_peaks_runs')
    except Exception as e:  # noqa: BLE001  (fit_peaks itself is C17's business)
        ctx.count('fit_peaks_raised:' + type(e).__name__)
    mon.origin = 'direct'
    return ('in_situ', peak_kind, bkg, xunit)


# -------------------------------------------------------------------- driver ---
def plan(tier, seed):
    if tier == 'quick':
        # 15 shards + the heavy sizes on a shard of their own
        return [{'sets': 140, 'fits': 1} for _ in range(15)] + [{'sets': 0, 'fits': 0, 'heavy': True}]
    return [{'sets': 6250, 'fits': 12, 'heavy': i == 15} for i in range(16)]


def requirements(tier):
    ev = {}
    for k in PEAKS:
        for name in ('pointwise.', '_call.', 'unit.', 'normalisation.', 'symmetry.', 'halfmax.', 'fwhm.'):
            ev[name + k] = 20
    ev.update({'pointwise.poly': 20, '_call.poly': 20, 'unit.poly': 20, 'pointwise.comp': 20,
               'unit.comp': 20, 'composite_sum': 20, 'with_prefix': 20, 'init.comp': 20,
               'refusal.missing': 20, 'refusal.extra': 20, 'refusal.unknown': 20,
               'prefix_bitwise.value': 50, 'prefix_bitwise.fwhm': 20, 'prefix_bitwise.guess': 10,
               'prefix_bitwise.param_bounds': 10, 'guess': 10, 'param_bounds': 10, 'fwhm.unsupported': 10})
    for k in (*PEAKS, 'poly', 'comp'):
        ev[f'unit_judged.scaled.{k}'] = 20
        ev[f'unit_judged.inconsistent.{k}'] = 20
    forced = ['fraction:0', 'fraction:1', 'fraction:mid', 'prefix:empty', 'prefix:unicode', 'prefix:leading',
              'prefix:nested pair', 'scalar x', '|loc| > 1e6 scale', 'amplitude < 0', 'x == loc',
              'gaussian tail 10..38 sigma', 'polynomial near a root'] + [f'degree {d}' for d in range(1, 7)]
    forced += UNIT_CLASSES_POLY + UNIT_CLASSES_PEAK + UNIT_CLASSES_COMP + GUESS_CLASSES
    forced += FORM_CLASSES + [FC_BETWEEN + op for op in BETWEEN_OPS] + [FC_ALIASED]
    forced += [FC_LAYOUT + k for k in LAYOUTS] + [FC_DIM + repr(d) for d in INTERNAL_DIMS]
    forced += [FC_PARAM_VAR, FC_PARAM_INT, FC_FWHM_VAR] + STANDIN_CLASSES + [FC_HEAVY + k for k in HEAVY_SHAPES]
    ev.update({'form_judged': 2000, 'second_use': 500, 'inputs_unchanged_judged': 40, 'aliased': 30, 'layout': 500,
               'variances.values_judged': 50, 'variances.refusal': 50, 'fwhm_variance': 20, 'standin': 50,
               'standin_bounds': 50, 'pointwise.line': 50, 'pointwise.gauss2': 20, 'heavy': 10,
               'degree_property_judged': 100, 'prefix_property_judged': 500})
    for lab in ('numpy integer', 'IntEnum member', 'int subclass'):
        ev['init.degree_form: ' + lab] = 8
    for lab in ('numpy.str_', '(str, Enum) / StrEnum member', 'str subclass'):
        ev['init.prefix_form: ' + lab] = 8
    for mk in MAPPINGS.values():
        ev['fwhm_mapping: ' + type(mk({'a': 1, 'b': 2})).__name__] = 8
    ev.update({'guess_names_judged': 100, 'bounds_names_judged': 100, 'param_names_judged': 100,
               'guess_roundtrip': 100, 'guess_coord_judged': 100, 'guess.coord=None': 20, 'guess.coord=name': 20})
    for c in (GC_CTOR, GC_WITH, GC_NEST_L, GC_NEST_R, GC_NEST_BOTH, GC_OUTER_ONLY, GC_REPREFIX, GC_UNPREFIX, GC_LEAF):
        ev['guess_values_judged: ' + c] = 8
    return {'events': ev, 'forced': forced, 'counters': {'fit_peaks_runs': 1, 'symmetry_pairs': 100}}


def run(shard, ctx):
    from scippneutron.peaks import model as M

    q = pk.self_test(400)
    ctx.extra['quadrature_selftest_max_rel_defect'] = q
    if not q < 1e-12:
        ctx.inconclusive_because(f'quadrature self-test: closed forms integrate to amplitude only within {q:.3g}')
        return
    ctx.extra['mpmath_selftest'] = _mp_selftest(ctx)
    bad = pk.units_self_test()
    ctx.extra['unit_table_selftest'] = {'base_units': len(pk.UNIT_BASE), 'disagreements': bad}
    if bad:
        ctx.inconclusive_because('independent unit table disagrees with sc.to_unit: ' + '; '.join(bad[:4]))
        return
    rng = np.random.Generator(np.random.PCG64([shard['seed'], shard['index'], 16]))
    mon = Monitors(ctx)
    tr = Tracer(keep_children=True)
    mon.install(tr, M)
    with tr:
        for i in range(shard['sets']):
            mon.reg.clear()
            before = ctx.n_violations
            r = rng.random()
            # every kind first (incl. one family of related prefixes per model kind, with a base prefix for
            # which every relation exists: a deterministic part of every shard), then the mixture
            pick = i if i < 23 else None
            fam_kinds = (*PEAKS, 'poly', 'comp')
            mon.dict_kind = None
            try:
                if pick in (0, 1, 2) or (pick is None and r < 0.42):
                    kind = PEAKS[pick] if pick is not None else PEAKS[int(rng.integers(0, 3))]
                    sig, trivial, case = peak_case(rng, ctx, mon, M, kind, True)
                elif pick in (3, 4, 5) or (pick is None and r < 0.56):
                    kind = PEAKS[pick - 3] if pick is not None else PEAKS[int(rng.integers(0, 3))]
                    sig, trivial, case = peak_case(rng, ctx, mon, M, kind, False)
                elif pick in (6, 7) or (pick is None and r < 0.70):
                    sig, trivial, case = poly_case(rng, ctx, mon, M)
                elif pick in (8, 9, 10, 11, 12):
                    base = NUMBERED[int(rng.integers(0, len(NUMBERED)))]
                    sig, trivial, case = family_case(rng, ctx, mon, M, fam_kinds[pick - 8], base)
                elif pick in (13, 14, 15) or (pick is None and r >= 0.99):
                    # units of every single argument in another scale / of another dimension: a deterministic
                    # part of every shard (one case per model kind), and part of the mixture
                    kind = PEAKS[pick - 13] if pick is not None else PEAKS[int(rng.integers(0, 3))]
                    sig, trivial, case = peak_unit_case(rng, ctx, mon, M, kind)
                elif pick == 16 or (pick is None and r >= 0.98):
                    sig, trivial, case = poly_unit_case(rng, ctx, mon, M)
                elif pick == 17 or (pick is None and r >= 0.97):
                    sig, trivial, case = comp_unit_case(rng, ctx, mon, M)
                elif pick == 18 or (pick is None and r >= 0.965):
                    # guess / param_bounds / param_names of every structure that carries prefixes x every way to
                    # name the independent variable: a deterministic part of every shard
                    sig, trivial, case = guess_case(rng, ctx, mon, M)
                elif pick == 19 or (pick is None and r >= 0.9625):
                    # every documented argument in every class an integer / a string / a mapping comes in, every
                    # calling convention: a deterministic part of every shard
                    sig, trivial, case = forms_case(rng, ctx, mon, M)
                elif pick == 20 or (pick is None and r >= 0.96):
                    sig, trivial, case = reuse_case(rng, ctx, mon, M)
                elif pick == 21 or (pick is None and r >= 0.9575):
                    sig, trivial, case = layout_case(rng, ctx, mon, M)
                elif pick == 22 or (pick is None and r >= 0.955):
                    sig, trivial, case = standin_case(rng, ctx, mon, M)
                elif pick is None and r < 0.94:
                    sig, trivial, case = composite_case(rng, ctx, mon, M)
                else:
                    kind = fam_kinds[int(rng.integers(0, len(fam_kinds)))]
                    sig, trivial, case = family_case(rng, ctx, mon, M, kind, draw_prefix(rng, ctx, avoid=('',)))
            except Exception:  # noqa: BLE001  (model calls are wrapped; this is harness code)
                ctx.oracle_error('C16 driver')
                continue
            ctx.case(sig, trivial=trivial)
            if i < 1 or (ctx.n_violations > before and len(ctx.samples) < 6):
                ctx.sample(case)
        if shard.get('heavy'):
            mon.reg.clear()
            try:
                sig, trivial, case = heavy_case(rng, ctx, mon, M)
                ctx.case(sig, trivial=trivial)
            except Exception:  # noqa: BLE001
                ctx.oracle_error('C16 heavy driver')
        for _ in range(shard['fits']):
            mon.reg.clear()
            try:
                sig = in_situ_fit(rng, ctx, mon, M)
                ctx.case(sig)
            except Exception:  # noqa: BLE001
                ctx.oracle_error('C16 in-situ driver')
    ctx.extra['tracer_counts'] = dict(tr.counts)


def _mp_selftest(ctx):
    """Closed forms in long double against mpmath at 40 digits (oracle self-test)."""
    try:
        import mpmath as mp
    except ImportError:
        ctx.inconclusive_because('mpmath not importable for the oracle self-test')
        return None
    mp.mp.dps = 40
    rng = np.random.Generator(np.random.PCG64(1600))
    worst = 0.0

    def mpf(v):
        return mp.mpf(float(v))

    def ld2mp(v):
        v = LD(v)
        hi = float(v)
        return mp.mpf(hi) + mp.mpf(float(v - LD(hi)))

    for _ in range(40):
        a, m, s = logu(rng, -6, 6), logu(rng, -6, 6), logu(rng, -6, 6)
        f = float(rng.uniform(0, 1))
        x = m + s * float(rng.uniform(-30, 30))
        d = mpf(x) - mpf(m)
        z = d * d / (2 * mpf(s) ** 2)
        g = mpf(a) / (mp.sqrt(2 * mp.pi) * mpf(s)) * mp.exp(-z)
        lo = mpf(a) / mp.pi * mpf(s) / (d * d + mpf(s) ** 2)
        sg = mpf(s) / mp.sqrt(2 * mp.log(2))
        gg = mpf(a) / (mp.sqrt(2 * mp.pi) * sg) * mp.exp(-d * d / (2 * sg ** 2))
        pvt = mpf(f) * lo + (1 - mpf(f)) * gg
        for got, want, cond in ((pk.gaussian_ref(x, a, m, s)[0], g, 1 + z),
                                (pk.lorentzian_ref(x, a, m, s)[0], lo, 1),
                                (pk.pseudo_voigt_ref(x, a, m, s, f)[0], pvt, 1 + z)):
            worst = max(worst, float(abs(ld2mp(got) - want) / abs(want) / cond))
        cs = [float(rng.normal()) for _ in range(5)]
        xx = float(rng.normal())
        want = sum(mpf(c) * mpf(xx) ** i for i, c in enumerate(cs))
        mag = sum(abs(mpf(c) * mpf(xx) ** i) for i, c in enumerate(cs))
        worst = max(worst, float(abs(ld2mp(pk.polynomial_ref(xx, cs)[0]) - want) / mag))
    if worst > 1e-17:
        ctx.inconclusive_because(f'long double closed forms vs mpmath off by {worst:.3g} (conditioned)')
    return {'samples': 160, 'max_conditioned_rel_diff': worst}


FINDING_PREDICATES: dict = {}
