"""C14 CIF output is valid CIF 1.1 and parses back to exactly what was supplied.

Three monitors, all judging what the *real* writer produced:

* token monitor on every return of ``_format_value``: the token, framed as
  ``"_t " + token + "\\n"`` (``"_t\\n" + token + "\\n"`` when it starts with ``;``, i.e. can
  only be meant as a text field), must lex to exactly one value which equals the
  supplied one (strings up to surrounding blanks, numbers to printed precision);
* comment monitor on every return of ``_write_comment``: the fragment written must
  lex to comments only and be ASCII;
* document monitor on everything written through ``save_cif`` / ``CIF.save`` /
  ``Block.write``: the text is ASCII, parses with the independent CIF 1.1 parser
  (rv/oracle/cif11.py) and yields the supplied tags, order, loop shapes and values;
  ``_su`` columns equal sqrt(variance); every ``audit_author_role.id`` occurs exactly
  once among the author ids and carries the role of that author.

Expected values come from this module's own model of what was supplied; nothing
here calls scippneutron to compute an expectation.
"""

from __future__ import annotations

import datetime as _dt
import io
import math
import os
import pathlib
import re
import shutil
import tempfile

import numpy as np
import scipp as sc

from rv.oracle import cif11
from rv.trace import Tracer

ID = 'C14'
LEVEL = 'exploration'
RULE = (
    'cases = one document written by the real writer: (a) atom documents, one hostile string per '
    'forced class (every leading printable ASCII character, embedded blank/tab/newline/quotes, quote '
    'followed by blank, "\\n;" inside, reserved words in all cases, ? and ., empty, non-ASCII) as the '
    'only value of a chunk or of a loop; (b) low-level documents of 1-2 blocks with random chunks and '
    'loops (1..50 rows x 1..6 columns; str/int/float64/float32 with and without variances; multi-line '
    'values; comments with hostile content) written through save_cif (buffer and path) or Block.write; '
    '(c) builder programs = random sequences of 0..8 calls: with_authors (0..5 persons) and with_reducers '
    '(0..3) any number of times, with_beamline, with_reduced_powder_data (intensity units incl. those scipp '
    'spells with non-ASCII characters: counts/angstrom, angstrom, us, um, degC, uA*h ...), '
    'with_powder_calibration at most once (they define fixed tags); repeated items are drawn again from '
    'what the program already used with probability 0.1-0.4, so that exactly equal reducers, persons, names, '
    'roles and whole calls with equal arguments occur and are expected in the file as often as supplied; side '
    'branches (a with_* result that is thrown away) must not show up; saved through CIF.save (buffer, path, '
    'twice) / save_cif; (d) forced documents, one per class: every public way of supplying a comment or a name '
    '(constructor keyword, property assignment before and after the object is part of a block / at the end of '
    'the builder chain, Chunk(None)+item assignment, Block.add(mapping | pairs, comment=), with_*(comment=), '
    'save_cif(comment=)) with three non-ASCII comments, every intensity unit of the pool on both axes, every '
    'duplicate pattern (same call, across calls, call repeated, non-adjacent, equal persons / roles / names, '
    'equal loop rows, equal chunk values), every way of saving a builder.  In (b) the pairs, columns, comments '
    'and names reach the objects through a randomly chosen one of these ways, a quarter of the columns draw '
    'their cells from 1..3 values, units of numeric values are drawn from a pool with non-ASCII spellings.  '
    'A case is trivial when all its strings are plain alphanumeric; distinct = distinct '
    '(document kind, way of saving, value/hostility classes present, shape band, ways used) signatures'
)
ASSUMPTIONS = [
    'the CIF 1.1 grammar as implemented in rv/oracle/cif11.py (strict reading: an unquoted string may '
    'not begin with any of the five reserved words; a data_ heading needs a block code)',
    'scipp value(su) formatting (:c) and stddevs are the trusted base; value(su) tokens are judged to '
    'half a unit of the last printed digit',
    'strings stay below 200 characters: the 2048-character line limit is not asserted',
    'tags and block names supplied by the workload are themselves legal (no blanks); duplicate tags '
    'are never supplied (hence with_beamline / with_reduced_powder_data / with_powder_calibration at most '
    'once per program); duplicate VALUES are supplied and must all be written',
    'the text of comments is not compared with what was supplied (the property only asks that comments are '
    'ASCII and lex to comments only)',
]
TECHNIQUE = ('runtime monitors (sys.monitoring) on _format_value, _write_comment and on every document '
             'written by save_cif / CIF.save / Block.write; independent CIF 1.1 lexer/parser as decoder')
LEVEL_TEXT = ('exploration: every token and every document the real writer produced for hostile generated '
              'content is decoded by an independent CIF 1.1 parser and compared with the supplied structure. '
              'Sampling of an infinite input space: held on the decided executions reported, not a proof.')
LEVEL_NOTE = ('trusted: rv/oracle/cif11.py (self-tested against its accept/reject table on every run), '
              'scipp containers, scipp compact formatting, numpy sqrt')
DESIGN_REF = 'DESIGN.md section 4, C14; section 6 item 8'
TIMEOUT_S = {'quick': 600, 'thorough': 4 * 3600}

BLANKS = ' \t\n\r'
MAGIC = '#\\#CIF_1.1\n'
RESERVED = ('data_', 'loop_', 'global_', 'save_', 'stop_')
EPS = float(np.finfo(np.float64).eps)


# ======================================================================
# expected values (this module's model of what was supplied)
# ======================================================================
def _escaped_pattern(s: str):
    """Regex for ``s`` with every non-ASCII character replaced by *some* non-empty
    blank-free printable-ASCII escape (the property asks for "escaped to ASCII",
    not for a particular escape)."""
    parts = []
    for ch in s:
        parts.append(re.escape(ch) if ord(ch) < 128 else '[!-~]+?')
    return re.compile(''.join(parts), re.DOTALL)


def str_matches(supplied: str, text: str) -> bool:
    want = supplied.strip(BLANKS)
    got = text.strip(BLANKS)
    if want.isascii():
        return got == want
    return got.isascii() and _escaped_pattern(want).fullmatch(got) is not None


def _decimals_and_unit(num: str, su: str):
    """Unit of the last printed digit of value and su in value(su) notation."""
    mant, _, exp = num.lower().partition('e')
    e = int(exp) if exp else 0
    d = len(mant.partition('.')[2])
    if d > 0:
        u = 10.0 ** (e - d)
        return u, int(su) * u
    # no decimals: the value was rounded to a power of ten that is at most the leading
    # digit of the su.  When the su is printed as one or two digits and zeros, the zeros
    # bound the rounding unit; for large magnitudes scipp prints the binary expansion of
    # the rounded float ("3399999999999999513460736(599999999999999949668352)") and only
    # the magnitude of the su is meaningful.
    n = int(su)
    if n == 0:
        return 10.0 ** e, 0.0
    digits = str(n)
    if len(digits.rstrip('0')) <= 2:
        tz = len(digits) - len(digits.rstrip('0'))
    else:
        tz = len(digits) - 1
    return 10.0 ** (e + tz), float(n) * 10.0 ** e


def match_value(ev, val: cif11.Value, env=None):
    """None if the parsed value is what was supplied, else a short reason."""
    k = ev[0]
    text = val.text
    if k == 'str':
        return None if str_matches(ev[1], text) else f'string {_short(ev[1])} read back as {_short(text)}'
    if k == 'any':
        return None
    if k in ('nonblank', 'unique'):   # 'unique': distinctness is judged per column
        return None if text.strip(BLANKS) else 'empty value'
    if k == 'oneof':
        return None if text.strip(BLANKS) in ev[1] else f'{_short(text)} not one of {sorted(ev[1])}'
    if k == 'orcid':
        return None if text.strip(BLANKS) in (ev[1], 'https://orcid.org/' + ev[1]) else \
            f'ORCID iD {ev[1]} read back as {_short(text)}'
    if k == 'now':
        try:
            t = _dt.datetime.fromisoformat(text.strip(BLANKS))
        except ValueError:
            return f'creation date {_short(text)} is not an ISO date'
        if t.tzinfo is None:
            return None
        lo, hi = env['t0'] - _dt.timedelta(seconds=2), env['t1'] + _dt.timedelta(seconds=2)
        return None if lo <= t <= hi else f'creation date {text} outside the time of the call'
    # numbers: must come back as an unquoted <Numeric>
    if val.form != 'unquoted':
        return f'number written as a {val.form}-quoted string {_short(text)}'
    nm = cif11.numeric(text)
    if nm is None:
        return f'number read back as non-numeric {_short(text)}'
    num, su = nm
    if k == 'int':
        if su is not None or not re.fullmatch(r'[+-]?[0-9]+', num):
            return f'integer {ev[1]} written as {text}'
        return None if int(num) == ev[1] else f'integer {ev[1]} read back as {num}'
    if k in ('f64', 'f32', 'su'):
        if su is not None:
            return f'plain number written with an su: {text}'
        if k == 'su':
            var, f32 = ev[1], ev[2]
            want = np.sqrt(np.float32(var)) if f32 else np.sqrt(np.float64(var))
        else:
            f32 = k == 'f32'
            want = np.float32(ev[1]) if f32 else np.float64(ev[1])
        got = np.float32(float(num)) if f32 else np.float64(float(num))
        if got == want:
            return None
        what = 'sqrt(variance)' if k == 'su' else 'value'
        return f'{what} {want!r} read back as {num}'
    if k == 'fvar':
        x, var, f32 = float(ev[1]), float(ev[2]), ev[3]
        if var == 0.0:
            if su is None or int(su) == 0:
                got = np.float32(float(num)) if f32 else float(num)
                return None if got == (np.float32(x) if f32 else x) else \
                    f'value {x!r} (variance 0) read back as {num}'
        if su is None:
            return f'value with variance written without su: {text}'
        sigma = math.sqrt(var)
        u, su_abs = _decimals_and_unit(num, su)
        tol_v = 0.5 * u * (1 + 1e-9) + 16 * EPS * abs(x) + (5e-7 * abs(x) if f32 else 0.0)
        tol_s = 0.5 * u * (1 + 1e-9) + 16 * EPS * sigma + (1e-6 * sigma if f32 else 0.0)
        if abs(float(num) - x) > tol_v:
            return f'value {x!r} does not agree with {text} to the printed digits'
        if abs(su_abs - sigma) > tol_s:
            return f'su {sigma!r} does not agree with {text} to the printed digits'
        return None
    return f'unmodelled expectation {k}'


def _short(s, n=60):
    s = repr(s)
    return s if len(s) <= n else s[:n] + '...'


def model_of(value):
    """Expectation for an arbitrary object handed to ``_format_value`` (None: unmodelled)."""
    if isinstance(value, str):
        return ('str', str(value))
    if isinstance(value, bool | np.bool_):
        return None
    if isinstance(value, int | np.integer):
        return ('int', int(value))
    if isinstance(value, np.float32):
        return ('f32', float(value))
    if isinstance(value, float | np.floating):
        return ('f64', float(value))
    if isinstance(value, _dt.datetime):
        return ('str', value.isoformat())
    if isinstance(value, sc.Variable) and value.ndim == 0:
        dt = value.dtype
        if dt == sc.DType.string:
            return ('str', value.value)
        if dt in (sc.DType.int64, sc.DType.int32):
            return ('int', int(value.value))
        if dt == sc.DType.PyObject and isinstance(value.value, str):
            return ('str', value.value)
        if dt in (sc.DType.float64, sc.DType.float32):
            f32 = dt == sc.DType.float32
            if value.variance is not None:
                return ('fvar', float(value.value), float(value.variance), f32)
            return ('f32' if f32 else 'f64', float(value.value))
    return None


# ======================================================================
# mechanism facts (keys of violations; what known-finding predicates look at)
# ======================================================================
def token_mechanism(tok: str):
    t0 = tok[:1]
    if t0 == ';':
        if tok.endswith('\n;') and len(tok) >= 3:
            if '\n;' in tok[1:-2]:
                return 'text_field_line_starts_with_semicolon', {}
            return 'text_field_other', {}
        return 'unquoted_leading_reserved_char', {'char': ';'}
    if t0 in ('"', "'"):
        return 'quoted_string_broken', {'quote': t0}
    if tok == '':
        return 'empty_token', {}
    if not tok.isascii():
        return 'non_ascii_not_escaped', {}
    if t0 in '_#$[]':
        return 'unquoted_leading_reserved_char', {'char': t0}
    low = tok.lower()
    for w in RESERVED:
        if low.startswith(w):
            return 'unquoted_reserved_word', {'word': w, 'exact': low == w}
    for ch, name in ((' ', 'blank'), ('\t', 'tab'), ('\n', 'newline'), ('\r', 'cr')):
        if ch in tok:
            return 'unquoted_embedded_whitespace', {'char': name}
    return 'unquoted_other', {}


EV_NAMES = {'str': 'string', 'int': 'integer', 'f64': 'double', 'f32': 'single', 'fvar': 'value_su',
            'su': 'su_column'}
QUOTING_MECHS = {'unquoted_leading_reserved_char', 'unquoted_reserved_word',
                 'unquoted_embedded_whitespace'}
TEXTFIELD_MECH = 'text_field_line_starts_with_semicolon'
COMMENT_MECH = 'non_ascii_file_comment'
EMPTY_CODE_MECH = 'empty_block_code'


def _mech(v):
    return (v.get('keys') or {}).get('mechanism')


def _is_c14(v):
    return v.get('kind', '').startswith(('token_', 'doc_', 'comment_'))


FINDING_PREDICATES = {
    # _quotes_for_string_value leaves strings unquoted that CIF 1.1 does not allow unquoted
    'cif.quoting.unquoted_special': lambda v: _is_c14(v) and _mech(v) in QUOTING_MECHS,
    # a multi-line value with a line starting with ';' closes its own text field
    'cif.textfield.line_starts_with_semicolon': lambda v: _is_c14(v) and _mech(v) == TEXTFIELD_MECH,
    # save_cif(file, Block | blocks, comment=...) writes the comment without ASCII escaping
    'cif.comment.file_comment_not_escaped': lambda v: _is_c14(v) and _mech(v) == COMMENT_MECH,
    # Block / CIF with the default empty name write "data_" without a block code
    'cif.block.empty_block_code': lambda v: _is_c14(v) and _mech(v) == EMPTY_CODE_MECH,
}


# ======================================================================
# hostile strings
# ======================================================================
def _cname(c):
    names = {' ': 'blank', "'": 'squote', '"': 'dquote', '\\': 'backslash', '#': 'hash',
             '_': 'underscore', '$': 'dollar', ';': 'semicolon', '[': 'lbracket', ']': 'rbracket'}
    return names.get(c, c)


def forced_strings():
    out = []
    for o in range(32, 127):
        c = chr(o)
        out.append((f'lead:{_cname(c)}', c + 'x1'))
    for o in range(33, 127):
        c = chr(o)
        if not c.isalnum():
            out.append((f'single:{_cname(c)}', c))
    out += [
        ('embed:blank', 'a b'), ('embed:tab', 'a\tb'), ('embed:newline', 'a\nb'),
        ('embed:squote', "a'b"), ('embed:dquote', 'a"b'), ('embed:both_quotes', 'a\'b"c'),
        ('embed:squote_blank', "a' b"), ('embed:dquote_blank', 'a" b'),
        ('embed:both_quotes_blank', 'a\' b" c'), ('embed:squote_tab', "a'\tb"),
        ('embed:dquote_tab', 'a"\tb'), ('embed:both_quotes_tab', 'a\'\tb"\tc'),
        ('embed:blank_tab', 'a b\tc'), ('embed:quote_at_end', "ab'"), ('embed:dquote_at_end', 'ab"'),
        ('embed:quoted_word', "'ab'"), ('embed:dquoted_word', '"ab"'),
        ('embed:newline_semicolon', 'l1\n;l2'), ('embed:newline_semicolon_blank', 'l1\n; l2'),
        ('embed:newline_semicolon_end', 'l1\n;'), ('embed:newline_blank_semicolon', 'l1\n ;l2'),
        ('lead:semicolon_multiline', ';a\nb'), ('embed:trailing_newline', 'abc\n'),
        ('embed:leading_newline', '\nabc'), ('embed:only_newline', '\n'), ('embed:only_tab', '\t'),
        ('embed:only_blank', ' '), ('embed:trailing_blank', 'abc '), ('embed:leading_blank', ' abc'),
        ('embed:trailing_tab', 'abc\t'), ('embed:leading_tab', '\tabc'),
        ('embed:everything', 'a\tb\'c"d\ne f'), ('embed:three_lines', 'l1\n\nl3'),
        ('embed:hash_after_blank', 'a #b'), ('embed:hash_after_tab', 'a\t#b'),
        ('embed:semicolon_inside', 'a;b'), ('embed:underscore_word', 'a _b'),
        ('empty', ''),
        ('numeric:float', '1.5'), ('numeric:int', '-3'), ('numeric:exp', '1e5'), ('numeric:su', '1.0(2)'),
        ('nonascii:latin', '\xe9'), ('nonascii:word', '\xc5ngstr\xf6m'), ('nonascii:cjk', '日本語'),
        ('nonascii:astral', 'a\U0001f600b'), ('nonascii:blank', '\xe9 \xe8'),
        ('nonascii:squote', "l'\xe9t\xe9"), ('nonascii:both_quotes', 'na\xefve "x" \'y\''),
        ('nonascii:newline', '\xfc\n\xf6'), ('nonascii:lead', '\xb5m'),
    ]
    for w in RESERVED:
        stem = w[:-1]
        for variant in (stem.lower(), stem.upper(), stem.capitalize()):
            out.append((f'reserved:{variant}_', variant + '_'))
            out.append((f'reserved:{variant}_x', variant + '_x'))
    out += [('reserved:inside', 'x_data_y'), ('reserved:no_underscore', 'data'), ('reserved:loop_blank', 'loop_ x')]
    return out


FORCED = forced_strings()
FORCED_BY_STRING = {s: name for name, s in FORCED}
assert len(FORCED_BY_STRING) == len(FORCED)

_ALNUM = 'abcdefghijklmnopqrstuvwxyzABCDEFGHIJKLMNOPQRSTUVWXYZ0123456789'
_PUNCT = '!%&()*+,-./:<=>?@\\^`{|}~'
_SPECIAL = '_#$;[]\'"'
_NONASCII = '\xe9\xfc\xc5\xb5λ日\U0001f600'


def benign_string(rng, lo=1, hi=12):
    n = int(rng.integers(lo, hi + 1))
    return ''.join(_ALNUM[i] for i in rng.integers(0, len(_ALNUM), size=n))


def hostile_string(rng):
    """Random printable string below 200 characters with hostile ingredients."""
    r = rng.random()
    if r < 0.25:
        return FORCED[int(rng.integers(0, len(FORCED)))][1]
    n = int(rng.integers(1, 40 if r < 0.9 else 190))
    weights = np.array([60, 14, 6, 8, 2, 2, 3], dtype=float)
    if rng.random() < 0.5:
        weights[3:6] = 0  # no blanks/tabs/newlines at all: unquoted candidates
    if rng.random() < 0.7:
        weights[6] = 0
    pools = [_ALNUM, _PUNCT, _SPECIAL, ' ', '\t', '\n', _NONASCII]
    which = rng.choice(len(pools), size=n, p=weights / weights.sum())
    s = ''.join(pools[w][int(rng.integers(0, len(pools[w])))] for w in which)
    if rng.random() < 0.15:
        s = _SPECIAL[int(rng.integers(0, len(_SPECIAL)))] + s
    if rng.random() < 0.05:
        w = RESERVED[int(rng.integers(0, 5))]
        w = [w, w.upper(), w.capitalize()][int(rng.integers(0, 3))]
        s = w + (s if rng.random() < 0.6 else '')
    if rng.random() < 0.04:
        s = s + '\n;' + benign_string(rng, 0, 3)
    return s[:199]


def any_string(rng, p_hostile=0.12):
    return hostile_string(rng) if rng.random() < p_hostile else benign_string(rng)


def string_class(s: str):
    """Coarse class of a string for case signatures."""
    if s in FORCED_BY_STRING:
        return FORCED_BY_STRING[s].split(':')[0]
    if s.isalnum():
        return 'plain'
    c = []
    if not s.isascii():
        c.append('nonascii')
    if '\n' in s:
        c.append('multiline')
    if ' ' in s or '\t' in s:
        c.append('blank')
    if "'" in s or '"' in s:
        c.append('quote')
    if s[:1] in _SPECIAL:
        c.append('lead')
    return '+'.join(c) or 'punct'


def hostile_comment(rng):
    r = rng.random()
    if r < 0.3:
        return ''
    lines = []
    for _ in range(int(rng.integers(1, 4))):
        q = rng.random()
        if q < 0.3:
            lines.append(['data_leak', 'loop_', '_tag value', "; text", "'quoted' \"q\"", '#', '',
                          'value_in_comment 1 2 3', 'caf\xe9 日'][int(rng.integers(0, 9))])
        else:
            lines.append(hostile_string(rng).replace('\n', ' '))
    c = '\n'.join(lines)
    if rng.random() < 0.15:
        c += '\n'
    return c[:199]


# ----------------------------------------------------------------- numbers ---
def rand_float(rng, f32=False):
    r = rng.random()
    if r < 0.08:
        return 0.0
    if r < 0.2:
        x = float(rng.integers(-1000, 1000))
    else:
        ex = rng.uniform(-30, 30) if not f32 else rng.uniform(-14, 14)
        x = float((1 if rng.random() < 0.7 else -1) * 10.0 ** ex * rng.uniform(1, 10) / 10)
    return float(np.float32(x)) if f32 else x


def rand_var(rng, x, f32=False):
    r = rng.random()
    if r < 0.08:
        return 0.0
    scale = abs(x) if x != 0 else 1.0
    sigma = scale * 10.0 ** rng.uniform(-10 if not f32 else -5, 2 if not f32 else 1)
    v = sigma * sigma
    if f32:
        v = float(np.float32(v))
        if v == 0.0 or not np.isfinite(np.float32(v)):
            v = float(np.float32(1e-3))
    return v


# ======================================================================
# expected documents
# ======================================================================
class XItem:
    """Expected pair or loop.  ``cols`` of a loop: list of columns of expectations."""

    def __init__(self, kind, tags, cols, *, group='user', optional=(), col_order=True, special=None,
                 comment=''):
        self.kind = kind            # 'pair' | 'loop'
        self.tags = list(tags)      # pair: [tag]
        self.cols = cols            # pair: [[ev]] ; loop: one list per tag
        self.group = group          # 'user' (order as supplied) | 'auto'
        self.optional = set(optional)   # tags that may be absent (then not judged)
        self.col_order = col_order
        self.special = special      # 'schema' | 'roles' | None
        self.comment = comment

    def describe(self):
        if self.kind == 'pair':
            return {'pair': self.tags[0], 'value': _ev_descr(self.cols[0][0])}
        n = len(self.cols[0]) if self.cols else 0
        return {'loop': self.tags, 'rows': n,
                'first_row': [_ev_descr(c[0]) for c in self.cols if c][:6],
                'hostile_cells': [_ev_descr(e) for c in self.cols for e in c
                                  if e[0] == 'str' and not e[1].isalnum()][:6]}


def _ev_descr(ev):
    if ev[0] == 'str':
        return {'str': ev[1]}
    return {ev[0]: [repr(x) for x in ev[1:]]}


class XBlock:
    def __init__(self, name, items, comment=''):
        self.name = name
        self.items = items
        self.comment = comment


class XDoc:
    def __init__(self, kind, via, blocks, *, strict, top_comment='', sig=(), trivial=False, builder=None,
                 heading=True):
        self.kind = kind
        self.via = via
        self.blocks = blocks
        self.strict = strict
        self.top_comment = top_comment
        self.sig = sig
        self.trivial = trivial
        self.builder = builder      # supplied author list etc. for the role monitor
        self.heading = heading
        self.env = {}

    def describe(self):
        return {'kind': self.kind, 'via': self.via, 'top_comment': self.top_comment,
                'blocks': [{'name': b.name, 'comment': b.comment,
                            'items': [it.describe() for it in b.items][:12]} for b in self.blocks]}


def compare_block(xb: XBlock, pb: cif11.Block, strict: bool, env):
    """List of (category, message); empty when the parsed block is what was supplied."""
    out = []
    if not str_matches(xb.name, pb.name) or (xb.name != '' and pb.name == ''):
        out.append(('structure', f'block code {_short(xb.name)} read back as {_short(pb.name)}'))
    if strict:
        exp = [it for it in xb.items]
        if len(exp) != len(pb.items):
            kinds = ['pair' if isinstance(p, cif11.Pair) else f'loop{len(p.tags)}x{len(p.rows)}'
                     for p in pb.items]
            out.append(('structure', f'{len(exp)} items supplied, {len(pb.items)} read back '
                                     f'({", ".join(kinds[:8])})'))
            return out
        for it, p in zip(exp, pb.items, strict=True):
            out += _compare_item(it, p, env)
            if out:
                return out
        return out
    # builder documents: sections matched by tag, order of the user's content checked
    where = {}
    for i, p in enumerate(pb.items):
        tags = [p.tag] if isinstance(p, cif11.Pair) else p.tags
        for t in tags:
            if t in where:
                out.append(('structure', f'tag _{t} occurs twice'))
            where[t] = i
    used = set()
    last_user = -1
    for it in xb.items:
        present = [t for t in it.tags if t in where]
        missing = [t for t in it.tags if t not in where and t not in it.optional]
        if missing:
            out.append(('structure', f'supplied tag _{missing[0]} is not in the file'))
            continue
        if not present:
            continue
        idx = {where[t] for t in present}
        if len(idx) != 1:
            out.append(('structure', f'tags {present} of one {it.kind} are spread over several items'))
            continue
        i = idx.pop()
        used.add(i)
        sub = it
        if len(present) != len(it.tags):
            keep = [k for k, t in enumerate(it.tags) if t in where]
            sub = XItem(it.kind, [it.tags[k] for k in keep], [it.cols[k] for k in keep], group=it.group,
                        col_order=it.col_order, special=it.special)
        out += _compare_item(sub, pb.items[i], env)
        if it.group == 'user':
            if i < last_user:
                out.append(('structure', f'{it.kind} _{it.tags[0]} is not in the order of the builder calls'))
            last_user = i
    for i, p in enumerate(pb.items):
        if i not in used:
            t = p.tag if isinstance(p, cif11.Pair) else p.tags[0]
            out.append(('structure', f'file contains _{t} which was not supplied'))
    return out


def _compare_item(it: XItem, p, env):
    out = []
    if it.kind == 'pair':
        if not isinstance(p, cif11.Pair):
            return [('structure', f'pair _{it.tags[0]} read back as a loop {p.tags}')]
        if p.tag != it.tags[0]:
            return [('structure', f'tag _{it.tags[0]} read back as _{p.tag}')]
        why = match_value(it.cols[0][0], p.value, env)
        if why:
            out.append(('value', f'_{p.tag}: {why}'))
        return out
    if not isinstance(p, cif11.Loop):
        return [('structure', f'loop {it.tags} read back as pair _{p.tag}')]
    if it.col_order:
        if p.tags != it.tags:
            return [('structure', f'loop tags {it.tags} read back as {p.tags}')]
        order = list(range(len(it.tags)))
    else:
        if sorted(p.tags) != sorted(it.tags):
            return [('structure', f'loop tags {it.tags} read back as {p.tags}')]
        order = [p.tags.index(t) for t in it.tags]
    if it.special == 'schema':
        names = sorted(r[order[0]].text for r in p.rows)
        want = sorted(e[1] for e in it.cols[0])
        if names != want:
            out.append(('value', f'schema loop lists {names}, expected {want}'))
        return out
    nrows = len(it.cols[0])
    if len(p.rows) != nrows:
        return [('structure', f'loop {it.tags[0]}...: {nrows} rows supplied, {len(p.rows)} read back')]
    if it.special == 'roles':
        return out
    for c, tag in enumerate(it.tags):
        pc = order[c]
        if nrows and it.cols[c][0][0] == 'unique':
            ids = [p.rows[r][pc].text for r in range(nrows)]
            if len(set(ids)) != len(ids):
                return [('value', f'_{tag}: identifiers are not unique: {ids[:10]}')]
        for r in range(nrows):
            why = match_value(it.cols[c][r], p.rows[r][pc], env)
            if why:
                out.append(('value', f'_{tag} row {r}: {why}'))
                return out
    return out


def check_roles(xdoc: XDoc, pb: cif11.Block):
    """Every role id occurs exactly once among the author ids and carries that author's role."""
    b = xdoc.builder
    if b is None:
        return []
    out = []
    ids = {}       # category -> list of ids by row
    roles = []     # (id, role text)
    for p in pb.items:
        if isinstance(p, cif11.Pair):
            for cat in ('audit_contact_author', 'audit_author'):
                if p.tag == cat + '.id':
                    ids[cat] = [p.value.text]
        else:
            for cat in ('audit_contact_author', 'audit_author'):
                if cat + '.id' in p.tags:
                    k = p.tags.index(cat + '.id')
                    ids[cat] = [r[k].text for r in p.rows]
            if 'audit_author_role.id' in p.tags and 'audit_author_role.role' in p.tags:
                ki, kr = p.tags.index('audit_author_role.id'), p.tags.index('audit_author_role.role')
                roles += [(r[ki].text, r[kr].text) for r in p.rows]
    all_ids = [i for v in ids.values() for i in v]
    if len(set(all_ids)) != len(all_ids):
        out.append(f'author ids are not unique: {all_ids}')
    for rid, _ in roles:
        n = all_ids.count(rid)
        if n != 1:
            out.append(f'role id {rid!r} occurs {n} times among the author ids {all_ids}')
    want = []
    for cat, people in (('audit_contact_author', b['contact']), ('audit_author', b['regular'])):
        for row, person in enumerate(people):
            if person['role']:
                if cat not in ids or row >= len(ids[cat]):
                    out.append(f'author {person["name"]!r} has a role but no id in the file')
                    continue
                want.append((ids[cat][row], person['role']))
    if len(want) != len(roles):
        out.append(f'{len(want)} authors with a role supplied, {len(roles)} role rows in the file')
    got = dict(roles)
    for aid, role in want:
        if aid not in got:
            out.append(f'author id {aid!r} has no role row')
        elif not str_matches(role, got[aid]):
            out.append(f'author id {aid!r}: role {role!r} read back as {got[aid]!r}')
    return out


# ======================================================================
# monitors
# ======================================================================
class Monitors:
    def __init__(self, ctx):
        self.ctx = ctx
        self.expect: XDoc | None = None
        self.culprits: list = []      # (mechanism, keys) flagged by the narrow monitors in this document
        self.refusal = None           # allowed refusal raised while writing this document
        self.save_depth = 0
        self.judged_docs = 0
        self.comment_pos = {}

    # ---- token monitor ----------------------------------------------------
    def on_format_value(self, ev):
        ctx = self.ctx
        value = ev.args.get('value')
        try:
            expected = model_of(value)
        except Exception:  # noqa: BLE001
            ctx.oracle_error('C14 model_of')
            return
        case = {'supplied': _descr_value(value), 'doc': self.expect.via if self.expect else None}
        if ev.exc is not None:
            s = expected[1] if expected and expected[0] == 'str' else None
            if isinstance(ev.exc, ValueError) and s is not None and re.search(r'\n;', s):
                # the only content without a CIF 1.1 representation: refusing it is allowed
                ctx.count('refused:text_field_line_starts_with_semicolon')
                ctx.event('token')
                self.refusal = ev.exc
                self._hit(value)
                return
            ctx.violation('token_raised', f'_format_value raised {type(ev.exc).__name__}: {ev.exc}',
                          case, mechanism='raised')
            self.culprits.append(('raised', {}))
            return
        tok = ev.result
        if not isinstance(tok, str):
            ctx.violation('token_not_a_string', f'_format_value returned {type(tok).__name__}', case,
                          mechanism='not_a_string')
            return
        case['token'] = tok
        text = ('_t\n' if tok.startswith(';') else '_t ') + tok + '\n'
        problem = None
        val = None
        try:
            toks, comments = cif11.lex(text)
            shape = [t.kind for t in toks]
            if shape != ['tag', 'value'] or toks[0].text != 't' or comments:
                problem = 'lexes to ' + ('+'.join(shape[1:]) or 'nothing') + \
                    (' and a comment' if comments else '') + ' instead of one value'
            else:
                val = cif11.Value(toks[1].text, toks[1].form)
        except cif11.CifSyntaxError as e:
            problem = f'{e.code}: {e.msg}'
        except Exception:  # noqa: BLE001
            ctx.oracle_error('C14 lex token')
            return
        ctx.event('token')
        self._hit(value)
        if problem is not None:
            mech, keys = token_mechanism(tok)
            ctx.violation('token_' + mech, f'token {_short(tok)} for {_short(case["supplied"])} {problem}',
                          case, mechanism=mech, **keys)
            self.culprits.append((mech, keys))
            return
        if expected is None:
            ctx.count('token.unmodelled_type:' + type(value).__name__ + (':' + str(value.dtype) if isinstance(value, sc.Variable) else ''))
            return
        try:
            why = match_value(expected, val)
        except Exception:  # noqa: BLE001
            ctx.oracle_error('C14 match token')
            return
        if expected[0] == 'fvar':
            ctx.event('value_su')
        if why:
            mech = 'value_changed_' + EV_NAMES.get(expected[0], 'other')
            ctx.violation('token_' + mech, f'token {_short(tok)}: {why}', dict(case, form=val.form),
                          mechanism=mech)
            self.culprits.append((mech, {}))

    def _hit(self, value):
        s = value if isinstance(value, str) else None
        if s is None and isinstance(value, sc.Variable) and value.ndim == 0 and value.dtype == sc.DType.string:
            s = value.value
        if s is not None and s in FORCED_BY_STRING:
            self.ctx.hit('str:' + FORCED_BY_STRING[s])

    # ---- comment monitor ----------------------------------------------------
    def on_comment_start(self, ev):
        f = ev.args.get('f')
        if isinstance(f, io.StringIO):
            return f.tell()
        return None

    def on_comment_return(self, ev):
        ctx = self.ctx
        f = ev.args.get('f')
        comment = ev.args.get('comment')
        if ev.pre is None or not isinstance(f, io.StringIO):
            ctx.count('comment.not_a_buffer')
            return
        if ev.exc is not None:
            ctx.violation('comment_raised', f'_write_comment raised {type(ev.exc).__name__}: {ev.exc}',
                          {'comment': comment}, mechanism='raised')
            return
        frag = f.getvalue()[ev.pre:]
        ctx.event('comment')
        case = {'comment': comment, 'written': frag, 'doc': self.expect.via if self.expect else None}
        if not frag.isascii():
            x = self.expect
            file_comment = (x is not None and x.kind != 'builder' and self.save_depth > 0
                            and comment == x.top_comment and ev.pre == len(MAGIC))
            mech = COMMENT_MECH if file_comment else 'non_ascii_comment'
            ctx.violation('comment_' + mech, f'comment written with non-ASCII text: {_short(frag)}', case,
                          mechanism=mech)
            self.culprits.append((mech, {}))
            return
        try:
            toks, _ = cif11.lex(frag)
        except cif11.CifSyntaxError as e:
            toks = [e.code]
        if toks or (frag and not frag.endswith('\n')):
            ctx.violation('comment_leaks_tokens', f'comment text {_short(frag)} is not only comments', case,
                          mechanism='comment_leaks_tokens')
            self.culprits.append(('comment_leaks_tokens', {}))

    # ---- document monitor ----------------------------------------------------
    def on_save_start(self, ev):
        self.save_depth += 1

    def on_save_return(self, ev):
        self.save_depth -= 1
        content = ev.args.get('content')
        # judge at the call that actually writes: content is a block or blocks, not a builder
        if type(content).__name__ == 'CIF':
            return
        self._judge_written(ev.args.get('fname'), ev.exc, 'save_cif')

    def on_cifsave_return(self, ev):
        # the nested save_cif has judged the text; only an exception before it is news
        if ev.exc is not None and self.judged_docs == 0:
            self._judge_written(ev.args.get('fname'), ev.exc, 'CIF.save')

    def on_blockwrite_return(self, ev):
        if self.save_depth > 0:
            return
        self._judge_written(ev.args.get('f'), ev.exc, 'Block.write')

    def _judge_written(self, target, exc, where):
        ctx = self.ctx
        x = self.expect
        self.judged_docs += 1
        if x is None:
            ctx.count('doc.write_without_expectation')
            return
        x.env['t1'] = _dt.datetime.now(_dt.timezone.utc)
        case = x.describe()
        culprit_mechs = sorted({m for m, _ in self.culprits})

        def report(category, what, **keys):
            if culprit_mechs:
                # the narrow monitors flagged tokens / comments of this document: one report per
                # mechanism, so that each is classified on its own
                # (keys hold the mechanism only: the runner keeps representatives per
                # (kind, keys) group, so everything of high cardinality goes into the case)
                for m in culprit_mechs:
                    ctx.violation('doc_from_' + m, f'{where}: {what}',
                                  dict(case, detail=dict(keys, category=category, flagged=culprit_mechs)),
                                  mechanism=m)
            else:
                ctx.violation('doc_' + category, f'{where}: {what}', dict(case, detail=keys),
                              mechanism=category)

        if exc is not None:
            if exc is self.refusal:
                ctx.count('doc.refused')
                ctx.event('document')
                return
            report('raised', f'raised {type(exc).__name__}: {exc}', exception=type(exc).__name__)
            return
        try:
            if isinstance(target, io.StringIO):
                text = target.getvalue()
                raw = None
            else:
                with open(os.fspath(target), 'rb') as fh:
                    raw = fh.read()
                text = None
        except Exception:  # noqa: BLE001
            ctx.oracle_error('C14 reading the written document')
            return
        ctx.event('document')
        ctx.event('document.' + where)
        if raw is not None:
            try:
                text = raw.decode('ascii')
            except UnicodeDecodeError:
                text = raw.decode('utf-8', 'replace')
        case['written'] = text if len(text) < 1500 else text[:1500] + '...'
        if not text.isascii():
            lines = text.split('\n')
            bad = [i for i, ln in enumerate(lines) if not ln.isascii()]
            if not culprit_mechs and x.kind != 'builder' and x.heading and not x.top_comment.isascii():
                # written to a real file: the comment monitor could not look at the fragment
                n_top = len(x.top_comment.split('\n')) - (1 if x.top_comment.endswith('\n') else 0)
                if all(1 <= i <= n_top and lines[i].startswith('#') for i in bad):
                    culprit_mechs = [COMMENT_MECH]
            report('non_ascii_output', f'output is not ASCII: line {_short(lines[bad[0]])}',
                   in_comment=lines[bad[0]].lstrip().startswith('#'))
            return
        if x.heading and not text.startswith(MAGIC):
            report('structure', 'file does not start with the CIF 1.1 magic comment')
            return
        try:
            try:
                doc = cif11.parse(text)
            except cif11.CifSyntaxError as e:
                if e.code != 'empty_block_code':
                    raise
                if culprit_mechs or any(b.name != '' for b in x.blocks):
                    raise
                ctx.violation('doc_' + EMPTY_CODE_MECH,
                              f'{where}: block with the (default) empty name is written as "data_" '
                              'without a block code', case, mechanism=EMPTY_CODE_MECH)
                doc = cif11.parse(text, strict_block_code=False)
        except cif11.CifSyntaxError as e:
            report('parse_' + e.code, f'output is not CIF 1.1: {e}', code=e.code)
            return
        except Exception:  # noqa: BLE001
            ctx.oracle_error('C14 parse document')
            return
        for w in doc.warnings:
            ctx.count('doc.warning:' + w[0])
        try:
            problems = []
            if len(doc.blocks) != len(x.blocks):
                problems.append(('structure', f'{len(x.blocks)} blocks supplied, {len(doc.blocks)} read back'))
            else:
                for xb, pb in zip(x.blocks, doc.blocks, strict=True):
                    problems += compare_block(xb, pb, x.strict, x.env)
                    for msg in check_roles(x, pb):
                        problems.append(('role_ids', msg))
                    if x.builder is not None and (x.builder['contact'] or x.builder['regular']):
                        if any(p['role'] for p in x.builder['contact'] + x.builder['regular']):
                            ctx.event('roles')
            # comments never leak: every comment line of the file starts a supplied comment line
            n_su = sum(1 for b in x.blocks for it in b.items for c in it.cols if c and c[0][0] == 'su')
            if n_su:
                ctx.event('su_column', n_su)
        except Exception:  # noqa: BLE001
            ctx.oracle_error('C14 compare document')
            return
        if problems:
            cat, msg = problems[0]
            report(cat, msg, n_problems=len(problems))

    # ---- per document bookkeeping ---------------------------------------------
    def begin(self, xdoc):
        self.expect = xdoc
        self.culprits = []
        self.refusal = None
        self.judged_docs = 0
        xdoc.env['t0'] = _dt.datetime.now(_dt.timezone.utc).replace(microsecond=0)

    def end(self):
        x = self.expect
        if x is not None and self.judged_docs == 0:
            self.ctx.count('doc.never_written')
        self.expect = None


def _descr_value(value):
    if isinstance(value, str):
        return value
    if isinstance(value, sc.Variable) and value.ndim == 0:
        d = {'dtype': str(value.dtype), 'value': value.value if value.dtype == sc.DType.string
             else repr(value.value)}
        if value.variance is not None:
            d['variance'] = repr(value.variance)
        return d
    return repr(value)


# ======================================================================
# workload: documents
# ======================================================================
def _tag(rng, used):
    while True:
        t = benign_string(rng, 2, 8).lower() + '.' + benign_string(rng, 1, 8).lower()
        if rng.random() < 0.2:
            t += '_su'
        if t not in used:
            used.add(t)
            return t


def _block_name(rng):
    r = rng.random()
    if r < 0.6:
        return benign_string(rng, 1, 10)
    pool = _ALNUM + _PUNCT + _SPECIAL
    n = int(rng.integers(1, 30))
    s = ''.join(pool[int(i)] for i in rng.integers(0, len(pool), size=n))
    if r > 0.92:
        s += '\xe9'
    return s


def gen_scalar(rng, cif):
    """(object to supply, expectation, class) for a chunk value."""
    r = rng.random()
    if r < 0.55:
        s = any_string(rng)
        if rng.random() < 0.15:
            return sc.scalar(s), ('str', s), 'str:' + string_class(s)
        return s, ('str', s), 'str:' + string_class(s)
    if r < 0.65:
        n = int(rng.integers(-10**9, 10**9))
        obj = [n, np.int64(n), sc.scalar(n, unit=None), sc.scalar(n, unit=_unit(rng, ('counts', 'us', 'angstrom')))][
            int(rng.integers(0, 4))]
        return obj, ('int', n), 'int'
    if r < 0.8:
        x = rand_float(rng)
        obj = [x, np.float64(x), sc.scalar(x), sc.scalar(x, unit=_unit(rng))][int(rng.integers(0, 4))]
        return obj, ('f64', x), 'f64'
    if r < 0.86:
        x = rand_float(rng, f32=True)
        obj = [np.float32(x), sc.scalar(x, dtype='float32', unit=_unit(rng))][int(rng.integers(0, 2))]
        return obj, ('f32', x), 'f32'
    if r < 0.96:
        f32 = rng.random() < 0.25
        x = rand_float(rng, f32)
        v = rand_var(rng, x, f32)
        obj = sc.scalar(x, variance=v, unit=_unit(rng),
                        dtype='float32' if f32 else 'float64')
        return obj, ('fvar', x, v, f32), 'fvar32' if f32 else 'fvar64'
    t = _dt.datetime(int(rng.integers(1990, 2040)), int(rng.integers(1, 13)), int(rng.integers(1, 29)),
                     int(rng.integers(0, 24)), int(rng.integers(0, 60)), int(rng.integers(0, 60)),
                     tzinfo=_dt.timezone.utc if rng.random() < 0.5 else None)
    return t, ('str', t.isoformat()), 'datetime'


def _with_repeats(rng, n, fresh):
    """``n`` values from ``fresh()``; in a quarter of the columns drawn from a pool of 1..3
    values, so that exact duplicates (adjacent and not) occur among the supplied values."""
    if rng.random() < 0.25:
        pool = [fresh() for _ in range(int(rng.integers(1, 4)))]
        return [pool[int(i)] for i in rng.integers(0, len(pool), size=n)], n > len(pool)
    return [fresh() for _ in range(n)], False


# units whose scipp spelling is ASCII and units it spells with non-ASCII characters
VALUE_UNITS = ('m', 'one', 'us', 'angstrom', 'deg', 'degC', 'um', 'counts/angstrom', '1/angstrom**2', 'K')


def _unit(rng, pool=VALUE_UNITS):
    return pool[int(rng.integers(0, len(pool)))]


def gen_column(rng, n, multi_line_ok):
    """(sc.Variable, list of expectations, class)."""
    r = rng.random()
    if r < 0.45:
        p = rng.choice([0.0, 0.0, 0.1, 0.5])
        vals, dup = _with_repeats(rng, n, lambda: any_string(rng, p))
        if not multi_line_ok:
            vals = [v.replace('\n', ' ') for v in vals]
        cls = sorted({string_class(v) for v in vals})
        return (sc.array(dims=['row'], values=vals), [('str', v) for v in vals],
                ('strdup:' if dup else 'str:') + '|'.join(cls)[:60])
    if r < 0.55:
        vals, dup = _with_repeats(rng, n, lambda: int(rng.integers(-10**6, 10**6)))
        return (sc.array(dims=['row'], values=vals, unit=None, dtype='int64'),
                [('int', int(v)) for v in vals], 'intdup' if dup else 'int')
    f32 = rng.random() < 0.3
    dt = 'float32' if f32 else 'float64'
    if r < 0.78:
        xs, dup = _with_repeats(rng, n, lambda: rand_float(rng, f32))
        return (sc.array(dims=['row'], values=xs, dtype=dt, unit=_unit(rng)),
                [('f32' if f32 else 'f64', x) for x in xs], dt + ('dup' if dup else ''))

    def fresh():
        x = rand_float(rng, f32)
        return x, rand_var(rng, x, f32)
    xv, dup = _with_repeats(rng, n, fresh)
    xs, vs = [a for a, _ in xv], [b for _, b in xv]
    return (sc.array(dims=['row'], values=xs, variances=vs, dtype=dt, unit=_unit(rng)),
            [('fvar', x, v, f32) for x, v in zip(xs, vs, strict=True)], 'fvar' + dt[-2:] + ('dup' if dup else ''))


# ---- every public way of putting pairs / columns / comments / names into the objects ----
CHUNK_WAYS = ('Chunk(dict,comment=)', 'Chunk(pairs,comment=)', 'Chunk.comment=', 'Chunk(None)+setitem',
              'Chunk.comment=late')
CHUNK_ADD_WAYS = ('Block.add(mapping,comment=)', 'Block.add(pairs,comment=)')
LOOP_WAYS = ('Loop(dict,comment=)', 'Loop.comment=', 'Loop+setitem', 'Loop.comment=late')
BLOCK_COMMENT_WAYS = ('Block(comment=)', 'Block.comment=')
BLOCK_NAME_WAYS = ('Block(name)', 'Block.name=')
_PLACEHOLDER_COMMENT = 'placeholder comment that is replaced before saving'


def make_chunk(cif, way, pairs, comment):
    """-> (object for the block, keywords for Block.add, deferred comment assignment)."""
    pairs = dict(pairs)
    if way == 'mapping':
        assert not comment
        return pairs, {}, None
    if way == 'Chunk(dict,comment=)':
        return cif.Chunk(pairs, comment=comment), {}, None
    if way == 'Chunk(pairs,comment=)':
        return cif.Chunk(list(pairs.items()), comment=comment), {}, None
    if way == 'Chunk.comment=':
        obj = cif.Chunk(pairs)
        obj.comment = comment
        return obj, {}, None
    if way == 'Chunk(None)+setitem':
        obj = cif.Chunk(None)
        obj.comment = comment
        for k, v in pairs.items():
            obj[k] = v
        return obj, {}, None
    if way == 'Chunk.comment=late':
        return cif.Chunk(pairs, comment=_PLACEHOLDER_COMMENT), {}, comment
    if way == 'Block.add(mapping,comment=)':
        return pairs, {'comment': comment}, None
    if way == 'Block.add(pairs,comment=)':
        return list(pairs.items()), {'comment': comment}, None
    raise AssertionError(way)


def make_loop(cif, way, cols, comment):
    cols = dict(cols)
    if way == 'Loop(dict,comment=)':
        return cif.Loop(cols, comment=comment), {}, None
    if way == 'Loop.comment=':
        obj = cif.Loop(cols)
        obj.comment = comment
        return obj, {}, None
    if way == 'Loop+setitem':
        keys = list(cols)
        obj = cif.Loop({keys[0]: cols[keys[0]]})
        obj.comment = comment
        for k in keys[1:]:
            obj[k] = cols[k]
        return obj, {}, None
    if way == 'Loop.comment=late':
        return cif.Loop(cols, comment=_PLACEHOLDER_COMMENT), {}, comment
    raise AssertionError(way)


def make_block(cif, name, name_way, comment, comment_way, entries, n_ctor):
    """Block from ``entries`` = [(object, add keywords, deferred comment)]: the first ``n_ctor``
    through the constructor, the others through Block.add; deferred comments are assigned to
    the objects after they are part of the block."""
    first = [e[0] for e in entries[:n_ctor]]
    kw = {'comment': comment} if comment_way == 'Block(comment=)' else {}
    blk = cif.Block(name if name_way == 'Block(name)' else 'placeholder', first, **kw)
    if comment_way != 'Block(comment=)':
        blk.comment = comment
    for obj, add_kw, _ in entries[n_ctor:]:
        if add_kw.get('comment') == '' and len(entries) % 2:
            add_kw = {}
        blk.add(obj, **add_kw)
    for obj, _, late in entries:
        if late is not None:
            obj.comment = late
    if name_way != 'Block(name)':
        blk.name = name
    return blk


def _pick(rng, seq):
    return seq[int(rng.integers(0, len(seq)))]


def gen_lowlevel(rng, cif, tmpdir, k):
    """A document from Blocks / Chunks / Loops; returns (callable performing the save, XDoc)."""
    nblocks = 2 if rng.random() < 0.2 else 1
    via = ['save_cif:buffer', 'save_cif:path', 'Block.write'][int(rng.choice(3, p=[0.6, 0.25, 0.15]))]
    if via == 'Block.write':
        nblocks = 1
    blocks, xblocks, classes, ways = [], [], set(), set()
    big = rng.random() < 0.12
    for _ in range(nblocks):
        used = set()
        entries, xitems, scalars = [], [], []
        nitems = int(rng.integers(1, 5))
        n_ctor = int(rng.integers(0, nitems + 1)) if rng.random() < 0.5 else nitems
        for i in range(nitems):
            comment = hostile_comment(rng) if rng.random() < 0.4 else ''
            if rng.random() < 0.5:
                pairs, xs = {}, []
                for _ in range(int(rng.integers(1, 6))):
                    tag = _tag(rng, used)
                    if scalars and rng.random() < 0.2:
                        obj, ev, cls = _pick(rng, scalars)      # a value equal to an earlier one
                        classes.add('dup_value')
                    else:
                        obj, ev, cls = gen_scalar(rng, cif)
                        scalars.append((obj, ev, cls))
                    pairs[tag] = obj
                    xs.append(XItem('pair', [tag], [[ev]]))
                    classes.add(cls)
                pool = CHUNK_WAYS + (CHUNK_ADD_WAYS if i >= n_ctor else ())
                if not comment and rng.random() < 0.4:
                    way = 'mapping'
                else:
                    way = _pick(rng, pool)
                entries.append(make_chunk(cif, way, pairs, comment))
                xitems += xs
            else:
                nrows = int(rng.integers(9, 51)) if big else int(rng.integers(1, 9))
                ncols = int(rng.integers(1, 7))
                multi = rng.random() < 0.5
                cols, tags, evs = {}, [], []
                for _ in range(ncols):
                    tag = _tag(rng, used)
                    var, ev, cls = gen_column(rng, nrows, multi)
                    cols[tag] = var
                    tags.append(tag)
                    evs.append(ev)
                    classes.add(cls.split('|')[0][:40])
                way = _pick(rng, LOOP_WAYS)
                entries.append(make_loop(cif, way, cols, comment))
                xitems.append(XItem('loop', tags, evs, comment=comment))
                classes.add(f'loop{"L" if nrows > 8 else "S"}x{ncols}')
            if comment:
                ways.add(way)
        name = _block_name(rng)
        bcomment = hostile_comment(rng) if rng.random() < 0.3 else ''
        name_way, bc_way = _pick(rng, BLOCK_NAME_WAYS), _pick(rng, BLOCK_COMMENT_WAYS)
        blocks.append(make_block(cif, name, name_way, bcomment, bc_way, entries, n_ctor))
        xblocks.append(XBlock(name, xitems, bcomment))
        ways.add(name_way)
        if bcomment:
            ways.add(bc_way)
    top = hostile_comment(rng) if (via != 'Block.write' and rng.random() < 0.4) else ''
    trivial = all(c in ('str:plain', 'int') for c in classes if not c.startswith('loop')) and not top
    x = XDoc('lowlevel', via, xblocks, strict=True, top_comment=top, trivial=trivial,
             sig=('lowlevel', via, nblocks, tuple(sorted(classes))[:8], bool(top), tuple(sorted(ways))[:4]),
             heading=via != 'Block.write')
    how = float(rng.random())

    def act():
        if via == 'Block.write':
            blocks[0].write(io.StringIO())
        else:
            target = io.StringIO() if via.endswith('buffer') else os.path.join(tmpdir, f'd{k}.cif')
            if isinstance(target, str) and how < 0.5:
                target = pathlib.Path(target)
            content = blocks[0] if nblocks == 1 and how < 0.7 else (tuple(blocks) if how < 0.85 else blocks)
            if top:
                cif.save_cif(target, content, comment=top)
            else:
                cif.save_cif(target, content)
    return act, x


def gen_atom(rng, cif, name, s, variant):
    """One forced string as the only value of a chunk / only cell / first cell of a loop row."""
    if variant == 'chunk':
        block = cif.Block('atom', [{'t.v': s}])
        x = [XItem('pair', ['t.v'], [[('str', s)]])]
    elif variant == 'loop_first':
        block = cif.Block('atom', [cif.Loop({'t.a': sc.array(dims=['r'], values=[s, 'p']),
                                             't.b': sc.array(dims=['r'], values=['q', 'r'])})])
        x = [XItem('loop', ['t.a', 't.b'], [[('str', s), ('str', 'p')], [('str', 'q'), ('str', 'r')]])]
    else:
        block = cif.Block('atom', [cif.Loop({'t.a': sc.array(dims=['r'], values=['p', 'q']),
                                             't.b': sc.array(dims=['r'], values=[s, 'r'])})])
        x = [XItem('loop', ['t.a', 't.b'], [[('str', 'p'), ('str', 'q')], [('str', s), ('str', 'r')]])]
    xd = XDoc('atom', 'save_cif:buffer', [XBlock('atom', x)], strict=True,
              sig=('atom', name, variant), trivial=False)
    return (lambda: cif.save_cif(io.StringIO(), block)), xd


# ------------------------------------------------------------- builder ---
def _orcid(rng):
    d = [int(v) for v in rng.integers(0, 10, size=15)]
    total = 0
    for v in d:
        total = (total + v) * 2
    chk = (12 - total % 11) % 11
    s = ''.join(map(str, d)) + ('X' if chk == 10 else str(chk))
    return '-'.join(s[i:i + 4] for i in range(0, 16, 4))


def _email(rng):
    lead = ['', '', '', '_', '#', '$', "o'"][int(rng.integers(0, 7))]
    return f'{lead}{benign_string(rng, 1, 8).lower()}@{benign_string(rng, 2, 8).lower()}.org'


def _nonempty(rng, p=0.12):
    while True:
        s = any_string(rng, p)
        if s.strip(BLANKS):
            return s


# A builder program is plain data: how the builder is created, a list of operations (each a
# with_* call; 'side' operations are applied to the intermediate builder and their result is thrown
# away), and how the result is saved.  ``build_program`` performs the calls on the real builder and
# derives the expected document from the program alone: everything supplied is expected in the
# file as often as it was supplied and in the order of the calls - equal reducers, equal persons
# and repeated calls with equal arguments included.
INTENSITY_UNITS = ('one', 'counts', 'counts/angstrom', '1/angstrom**2', 'angstrom', 'us', 'um', 'degC',
                   '1/degC', 'uA*h', 'counts/s', 'percent', 'counts/deg', 'K')
BUILDER_VIAS = ('CIF.save:buffer', 'CIF.save:path', 'save_cif(cif):buffer', 'save_cif(cif,comment):buffer',
                'CIF.save:twice')
STD_CALIB_IDS = {0: 'ZERO', 1: 'DIFC', 2: 'DIFA', -1: 'DIFB'}


def person(name, corresponding=False, role=None, orcid=None, email=None, address=None):
    return {'name': name, 'corresponding': corresponding, 'role': role, 'orcid': orcid, 'email': email,
            'address': address}


def unit_text_is_ascii(unit):
    return unit is None or str(sc.Unit(unit)).isascii()


def _apply_op(cif, md, b, op):
    """Perform one with_* call of a program on the real builder."""
    kind = op['op']
    if kind == 'authors':
        return b.with_authors(*[
            md.Person(name=p['name'], corresponding=p['corresponding'], role=p['role'],
                      orcid_id=(('https://orcid.org/' if op.get('url') else '') + p['orcid'])
                      if p['orcid'] else None, email=p['email'], address=p['address'])
            for p in op['people']])
    if kind == 'reducers':
        return b.with_reducers(*op['items'])
    if kind == 'beamline':
        src = None
        if op['source'] is not None:
            st = [md.SourceType.SpallationNeutronSource, md.SourceType.ReactorNeutronSource,
                  md.SourceType.SynchrotronXraySource][op['source']]
            pr = md.RadiationProbe.Xray if op['source'] == 2 else md.RadiationProbe.Neutron
            src = md.Source(source_type=st, probe=pr)
        bl = md.Beamline(name=op['name'], facility=op['facility'])
        if 'comment' in op:
            return b.with_beamline(bl, src, comment=op['comment'])
        return b.with_beamline(bl, src)
    if kind == 'reduced':
        dim = op['dim']
        dt = 'float32' if op['f32'] else 'float64'
        coord = sc.array(dims=[dim], values=op['cx'], variances=op['cv'],
                         unit='us' if dim == 'tof' else 'angstrom')
        data = sc.array(dims=[dim], values=op['dx'], variances=op['dv'], unit=op['unit'], dtype=dt)
        da = sc.DataArray(data, coords={dim: coord}, name=op['dname'])
        if 'comment' in op:
            return b.with_reduced_powder_data(da, comment=op['comment'])
        return b.with_reduced_powder_data(da)
    if kind == 'calibration':
        cal = sc.DataArray(sc.array(dims=['cal'], values=op['cx'], variances=op['cv'], unit='us'),
                           coords={'power': sc.array(dims=['cal'], values=op['powers'], unit=None)})
        if 'comment' in op:
            return b.with_powder_calibration(cal, comment=op['comment'])
        return b.with_powder_calibration(cal)
    raise AssertionError(kind)


def _expect_op(op, st):
    """Add what one call supplied to the expected state ``st``."""
    kind = op['op']
    classes = st['classes']
    if kind == 'authors':
        st['people'] += op['people']
        classes.add(f'authors{min(len(op["people"]), 3)}')
    elif kind == 'reducers':
        st['reducers'] += op['items']
        classes.add(f'reducers{len(op["items"])}')
    elif kind == 'beamline':
        fac, src = op['facility'], op['source']
        probes, devices = {'neutron', 'x-ray'}, {'spallation', 'nuclear', 'synch'}
        if src is not None:
            probes = {['neutron', 'neutron', 'x-ray'][src]}
            devices = {['spallation', 'nuclear', 'synch'][src]}
        opt = set() if src is not None else {'diffrn_radiation.probe', 'diffrn_source.device'}
        for tag, ev in (('diffrn_radiation.probe', ('oneof', probes)),
                        ('diffrn_source.beamline', ('str', op['name'])),
                        ('diffrn_source.facility', ('str', fac) if fac is not None else None),
                        ('diffrn_source.device', ('oneof', devices))):
            if ev is not None:
                st['content'].append(XItem('pair', [tag], [[ev]], group='auto' if tag in opt else 'user',
                                           optional={tag} & opt, comment=op.get('comment', '')))
        classes.add('beamline:' + ('src' if src is not None else 'nosrc') + ':' + string_class(op['name']))
    elif kind == 'reduced':
        n, f32, cv, dv = len(op['cx']), op['f32'], op['cv'], op['dv']
        ctag = 'pd_meas.time_of_flight' if op['dim'] == 'tof' else 'pd_proc.d_spacing'
        dtag = 'pd_proc.' + (op['dname'] or 'intensity_norm')
        tags = ['pd_data.point_id', ctag]
        cols = [[('unique',)] * n, [('f64', x) for x in op['cx']]]
        if cv is not None:
            tags.append(ctag + '_su')
            cols.append([('su', v, False) for v in cv])
        tags.append(dtag)
        cols.append([('f32' if f32 else 'f64', x) for x in op['dx']])
        if dv is not None:
            tags.append(dtag + '_su')
            cols.append([('su', v, f32) for v in dv])
        st['content'].append(XItem('loop', tags, cols, group='user', col_order=False,
                                   comment=op.get('comment', '')))
        st['schemas'].add('pdCIF')
        classes.add(f'reduced:{op["dim"]}:{"f32" if f32 else "f64"}:{"su" if dv else "nosu"}:'
                    f'{"csu" if cv else ""}:{op["unit"]}')
        if not unit_text_is_ascii(op['unit']):
            st['unit_non_ascii'] = True
    elif kind == 'calibration':
        powers, cv = op['powers'], op['cv']
        fl = any(isinstance(p, float) for p in powers)
        tags = ['pd_calib_d_to_tof.id', 'pd_calib_d_to_tof.power', 'pd_calib_d_to_tof.coeff']
        cols = [[('str', STD_CALIB_IDS[p]) if p in STD_CALIB_IDS else ('nonblank',) for p in powers],
                [('f64', p) if fl else ('int', p) for p in powers],
                [('f64', x) for x in op['cx']]]
        if cv is not None:
            tags.append('pd_calib_d_to_tof.coeff_su')
            cols.append([('su', v, False) for v in cv])
        st['content'].append(XItem('loop', tags, cols, group='user', col_order=False,
                                   comment=op.get('comment', '')))
        st['schemas'].add('pdCIF')
        classes.add(f'calib:{"float" if fl else "int"}:{"su" if cv else "nosu"}')
    else:
        raise AssertionError(kind)


def _has_repeats(seq):
    seen = []
    for s in seq:
        if s in seen:
            return True
        seen.append(s)
    return False


def build_program(cif, md, prog, tmpdir, k):
    """(callable performing the save, XDoc) for a builder program."""
    name, top = prog['name'], prog.get('top', '')
    name_way, top_way = prog.get('name_way', 'CIF(name)'), prog.get('top_way', 'CIF(comment=)')
    kw = {'comment': top} if top_way == 'CIF(comment=)' else {}
    if name_way == 'CIF(name)':
        b = cif.CIF(name, **kw)
    elif name_way == 'CIF(name=)':
        b = cif.CIF(name=name, **kw)
    else:
        b = cif.CIF(**kw)                   # default name, assigned through the property below
    if top_way == 'CIF.comment=':
        b.comment = top
    if name_way == 'CIF.name=':
        b.name = name
    st = {'people': [], 'reducers': [], 'content': [], 'schemas': {'coreCIF'}, 'classes': set()}
    for op in prog['ops']:
        if op.get('side'):
            _apply_op(cif, md, b, op)       # a branch that is thrown away: must not change ``b``
            st['classes'].add('side:' + op['op'])
            continue
        b = _apply_op(cif, md, b, op)
        _expect_op(op, st)
    if top_way == 'CIF.comment=end':
        b.comment = top
    if name_way == 'CIF.name=end':
        b.name = name
    people, reducers, classes = st['people'], st['reducers'], st['classes']
    # ---- expected file ----
    items = [XItem('loop', ['audit_conform.dict_name', 'audit_conform.dict_version',
                            'audit_conform.dict_location'],
                   [[('str', s) for s in sorted(st['schemas'])], [], []], group='auto', special='schema')]
    items.append(XItem('pair', ['audit.creation_date'], [[('now',)]], group='auto'))
    items.append(XItem('pair', ['audit.creation_method'], [[('nonblank',)]], group='auto'))
    if len(reducers) == 1:
        items.append(XItem('pair', ['computing.diffrn_reduction'], [[('str', reducers[0])]], group='auto'))
    elif len(reducers) > 1:
        items.append(XItem('loop', ['computing.diffrn_reduction'], [[('str', r) for r in reducers]],
                           group='auto'))
    contact = [p for p in people if p['corresponding']]
    regular = [p for p in people if not p['corresponding']]
    for cat, group in (('audit_contact_author', contact), ('audit_author', regular)):
        if not group:
            continue
        tags, cols, opt = [], [], set()
        for key, tag, mk in (('name', 'name', 'str'), ('email', 'email', 'str'),
                             ('address', 'address', 'str'), ('orcid', 'id_orcid', 'orcid')):
            vals = [p[key] for p in group]
            tags.append(f'{cat}.{tag}')
            cols.append([(mk, v) if v else ('str', '') for v in vals])
            if not any(vals):
                opt.add(f'{cat}.{tag}')
        tags.append(f'{cat}.id')
        cols.append([('nonblank',)] * len(group))
        if not any(p['role'] for p in group):
            opt.add(f'{cat}.id')
        if len(group) == 1:
            for t, c in zip(tags, cols, strict=True):
                items.append(XItem('pair', [t], [c], group='auto', optional={t} & opt))
        else:
            items.append(XItem('loop', tags, cols, group='auto', optional=opt, col_order=False))
    n_roles = sum(1 for p in people if p['role'])
    if n_roles:
        items.append(XItem('loop', ['audit_author_role.id', 'audit_author_role.role'],
                           [[('nonblank',)] * n_roles, [('any',)] * n_roles], group='auto',
                           special='roles', col_order=False))
    items += st['content']
    via = prog.get('via', 'CIF.save:buffer')
    top2 = prog.get('top2', 'second comment') if via.startswith('save_cif(cif,comment)') else top
    classes.add(f'people:{min(len(contact), 2)}c{min(len(regular), 2)}r:{"roles" if n_roles else "noroles"}')
    if _has_repeats(reducers):
        classes.add('dup:reducers')
    if _has_repeats(people):
        classes.add('dup:persons')
    if _has_repeats([p['role'] for p in people if p['role']]):
        classes.add('dup:roles')
    if st.get('unit_non_ascii'):
        classes.add('unit_non_ascii')
    if name_way != 'CIF(name)' or top_way != 'CIF(comment=)':
        classes.add(f'{name_way}|{top_way}')
    x = XDoc('builder', via, [XBlock(name, items)], strict=False, top_comment=top2,
             sig=('builder', via, tuple(sorted(classes))[:10]) + tuple(prog.get('sig', ())), trivial=False,
             builder={'contact': contact, 'regular': regular})

    def act():
        target = os.path.join(tmpdir, f'b{k}.cif') if via.endswith('path') else io.StringIO()
        if via == 'CIF.save:twice':
            b.save(io.StringIO())       # ids continue from the builder-wide generator
            b.save(target)
        elif via.startswith('CIF.save'):
            b.save(target)
        elif via.startswith('save_cif(cif,comment)'):
            cif.save_cif(target, b, comment=top2)
        else:
            cif.save_cif(target, b)
    return act, x


def _again(rng, pool, fresh, p=0.3):
    """A value for a repeated item: with probability ``p`` exactly one that this program used
    before (independent random strings never collide), otherwise a new one."""
    if pool and rng.random() < p:
        return pool[int(rng.integers(0, len(pool)))]
    v = fresh()
    pool.append(v)
    return v


def gen_program(rng):
    """Random builder program: 0..8 calls; with_authors / with_reducers any number of times,
    the calls that define fixed tags (beamline, reduced data, calibration) at most once."""
    prog = {'name': _block_name(rng) if rng.random() < 0.9 else 'b',
            'top': hostile_comment(rng) if rng.random() < 0.5 else '',
            'name_way': ['CIF(name)', 'CIF(name)', 'CIF(name=)', 'CIF.name=', 'CIF.name=end'][int(rng.integers(0, 5))],
            'top_way': ['CIF(comment=)', 'CIF(comment=)', 'CIF.comment=', 'CIF.comment=end'][int(rng.integers(0, 4))]}
    pools = {k: [] for k in ('name', 'role', 'address', 'email', 'orcid', 'reducer', 'person')}
    once = {'beamline', 'reduced', 'calibration'}
    ops = []
    last = {}
    for _ in range(int(rng.integers(0, 9))):
        kind = ['authors', 'authors', 'reducers', 'reducers', 'beamline', 'reduced', 'calibration'][
            int(rng.integers(0, 7))]
        if kind in once:
            if any(o['op'] == kind and not o.get('side') for o in ops):
                continue
        if kind in last and kind not in once and rng.random() < 0.15:
            op = dict(last[kind])           # the same call with equal arguments once more
        elif kind == 'authors':
            ps = []
            for _ in range(int(rng.integers(0, 6))):
                if pools['person'] and rng.random() < 0.15:
                    ps.append(dict(_pick(rng, pools['person'])))     # the same person again
                    continue
                p = person(
                    _again(rng, pools['name'], lambda: _nonempty(rng), 0.15),
                    bool(rng.random() < 0.4),
                    _again(rng, pools['role'], lambda: _nonempty(rng), 0.4) if rng.random() < 0.5 else None,
                    _again(rng, pools['orcid'], lambda: _orcid(rng), 0.1) if rng.random() < 0.5 else None,
                    _again(rng, pools['email'], lambda: _email(rng), 0.1) if rng.random() < 0.5 else None,
                    _again(rng, pools['address'], lambda: _nonempty(rng), 0.3) if rng.random() < 0.4 else None)
                pools['person'].append(p)
                ps.append(p)
            op = {'op': 'authors', 'people': ps, 'url': bool(rng.random() < 0.5)}
        elif kind == 'reducers':
            op = {'op': 'reducers', 'items': [_again(rng, pools['reducer'], lambda: _nonempty(rng))
                                              for _ in range(int(rng.integers(0, 4)))]}
        elif kind == 'beamline':
            op = {'op': 'beamline', 'facility': [None, 'ESS', 'isis', _nonempty(rng)][int(rng.integers(0, 4))],
                  'name': _nonempty(rng),
                  'source': int(rng.integers(0, 3)) if rng.random() < 0.5 else None}
        elif kind == 'reduced':
            n = int(rng.integers(1, 51)) if rng.random() < 0.2 else int(rng.integers(1, 8))
            f32 = bool(rng.random() < 0.25)
            cx, _ = _with_repeats(rng, n, lambda: abs(rand_float(rng)))
            dx, _ = _with_repeats(rng, n, lambda: rand_float(rng, f32))
            op = {'op': 'reduced', 'dim': ['tof', 'dspacing'][int(rng.integers(0, 2))], 'f32': f32,
                  'cx': cx, 'cv': [rand_var(rng, x) for x in cx] if rng.random() < 0.3 else None,
                  'dx': dx, 'dv': [rand_var(rng, x, f32) for x in dx] if rng.random() < 0.7 else None,
                  'unit': _unit(rng, INTENSITY_UNITS) if rng.random() < 0.6 else _unit(rng, ('one', 'counts')),
                  'dname': ['', 'intensity_net', 'intensity_norm', 'intensity_total'][int(rng.integers(0, 4))]}
        else:
            pool = [0, 1, 2, -1, 3, -2, 4]
            n = int(rng.integers(1, 6))
            powers = [pool[int(i)] for i in rng.permutation(len(pool))[:n]]
            if rng.random() < 0.3:
                powers = [float(p) + (0.5 if rng.random() < 0.3 else 0.0) for p in powers]
            cx, _ = _with_repeats(rng, n, lambda: rand_float(rng))
            op = {'op': 'calibration', 'powers': powers, 'cx': cx,
                  'cv': [rand_var(rng, x) for x in cx] if rng.random() < 0.5 else None}
        if kind in once and 'comment' not in op and rng.random() < 0.85:
            op['comment'] = hostile_comment(rng)        # else: the keyword is not passed at all
        last[kind] = op
        if rng.random() < 0.08:
            op = dict(op, side=True)
        ops.append(op)
    prog['ops'] = ops
    prog['via'] = BUILDER_VIAS[int(rng.choice(5, p=[0.4, 0.2, 0.15, 0.15, 0.1]))]
    if prog['via'].startswith('save_cif(cif,comment)'):
        prog['top2'] = hostile_comment(rng) or 'second comment'
    return prog


def gen_builder(rng, cif, md, tmpdir, k):
    return build_program(cif, md, gen_program(rng), tmpdir, k)


# ---- forced programs and documents: one per class named in requirements() -------------------
_NA_COMMENTS = ('d-spacing in \xc5, λ = 1.5 \xc5', 'caf\xe9\nsecond line \xb5m at 20 \xb0C', '日本語 # data_x')
_NA_NAME = 'r\xe9sum\xe9_\xc5'


def _reduced_op(unit, dim='dspacing', **kw):
    return dict({'op': 'reduced', 'dim': dim, 'f32': False, 'cx': [0.8, 1.1, 1.9], 'cv': None,
                 'dx': [13.6, 26.0, 9.7], 'dv': [0.7, 1.1, 0.5], 'unit': unit, 'dname': ''}, **kw)


def forced_programs():
    """[(forced class, program)]"""
    a, b_ = 'mantid 6.9', 'scipp 24.11'
    p1 = person('Jane Doe', True, 'principal investigator', '0000-0002-1825-0097')
    p2 = person('Max Mustermann', False, 'data curation')
    out = [
        ('dup:reducers_same_call', [{'op': 'reducers', 'items': ['prog 1', 'prog 1']}]),
        ('dup:reducers_across_calls', [{'op': 'reducers', 'items': [a, b_]}, {'op': 'reducers', 'items': [a]}]),
        ('dup:reducers_call_repeated', [{'op': 'reducers', 'items': [a, b_]}, {'op': 'reducers', 'items': [a, b_]}]),
        ('dup:reducers_three_equal', [{'op': 'reducers', 'items': [a]}] * 3),
        ('dup:reducers_non_adjacent', [{'op': 'reducers', 'items': [a, b_, "o'x", a, b_]}]),
        ('dup:person_same_call', [{'op': 'authors', 'people': [p2, dict(p2)]}]),
        ('dup:person_across_calls', [{'op': 'authors', 'people': [p1, p2]}, {'op': 'authors', 'people': [p1]},
                                     {'op': 'authors', 'people': [p2]}]),
        ('dup:contact_person_twice', [{'op': 'authors', 'people': [p1, dict(p1)]}]),
        ('dup:roles_equal', [{'op': 'authors', 'people': [person('A B', False, 'formal analysis'),
                                                         person('C D', False, 'formal analysis'),
                                                         person('E F', True, 'formal analysis')]}]),
        ('dup:names_equal', [{'op': 'authors', 'people': [person('A B', False, 'software'),
                                                         person('A B', False, 'validation'),
                                                         person('A B', True, None), person('A B', True, 'software')]}]),
        ('dup:everything_equal_no_roles', [{'op': 'authors', 'people': [person('A B'), person('A B'),
                                                                       person('A B')]}]),
        ('side:reducers', [{'op': 'reducers', 'items': [a]}, {'op': 'reducers', 'items': ['side'], 'side': True},
                           {'op': 'reducers', 'items': [b_]}]),
        ('side:authors', [{'op': 'authors', 'people': [p1]}, {'op': 'authors', 'people': [p2], 'side': True},
                          {'op': 'authors', 'people': [dict(p2, name='X Y')]}]),
        ('side:content', [_reduced_op('counts', side=True), {'op': 'reducers', 'items': [a]}]),
    ]
    out = [(n, {'name': 'forced', 'ops': ops}) for n, ops in out]
    for u in INTENSITY_UNITS:
        for dim in ('dspacing', 'tof'):
            out.append((f'intensity_unit:{u}:{dim}',
                        {'name': 'forced', 'ops': [_reduced_op(u, dim, comment='normalised')]}))
    out.append(('intensity_unit:counts/angstrom:no_comment',
                {'name': 'forced', 'ops': [_reduced_op('counts/angstrom')]}))
    for i, c in enumerate(_NA_COMMENTS):
        for way in ('CIF(comment=)', 'CIF.comment=', 'CIF.comment=end'):
            out.append((f'comment_way:{way}:{i}', {'name': 'forced', 'top': c, 'top_way': way,
                                                   'ops': [{'op': 'reducers', 'items': [a]}]}))
        out.append((f'comment_way:save_cif(CIF,comment=):{i}',
                    {'name': 'forced', 'top': 'first', 'top2': c, 'via': 'save_cif(cif,comment):buffer', 'ops': []}))
        out.append((f'comment_way:with_beamline(comment=):{i}',
                    {'name': 'forced', 'ops': [{'op': 'beamline', 'facility': 'ESS', 'name': 'DREAM',
                                                'source': None, 'comment': c}]}))
        out.append((f'comment_way:with_reduced_powder_data(comment=):{i}',
                    {'name': 'forced', 'ops': [_reduced_op('counts/angstrom', comment=c)]}))
        out.append((f'comment_way:with_powder_calibration(comment=):{i}',
                    {'name': 'forced', 'ops': [{'op': 'calibration', 'powers': [0, 1], 'cx': [3.4, 0.2],
                                                'cv': None, 'comment': c}]}))
    for way in ('CIF(name)', 'CIF(name=)', 'CIF.name=', 'CIF.name=end'):
        out.append((f'name_way:{way}', {'name': _NA_NAME, 'name_way': way,
                                        'ops': [{'op': 'reducers', 'items': [a]}]}))
    for via in BUILDER_VIAS:
        out.append((f'save_way:{via}', {'name': 'forced', 'via': via, 'top': 'top', 'ops': [
            {'op': 'authors', 'people': [p1, p2]}, {'op': 'reducers', 'items': [a, a]}]}))
    return out


def forced_lowlevel():
    """[(forced class, chunk way | None, loop way | None, block comment way, block name way, comment index)]
    for every public way of attaching a comment / a name to Chunk, Loop and Block."""
    out = []
    for i in range(len(_NA_COMMENTS)):
        for w in CHUNK_WAYS + CHUNK_ADD_WAYS:
            out.append((f'comment_way:{w}:{i}', w, None, None, 'Block(name)', i))
        for w in LOOP_WAYS:
            out.append((f'comment_way:{w}:{i}', None, w, None, 'Block(name)', i))
        for w in BLOCK_COMMENT_WAYS:
            out.append((f'comment_way:{w}:{i}', None, None, w, 'Block(name)', i))
    for w in BLOCK_NAME_WAYS:
        out.append((f'name_way:{w}', None, None, None, w, 0))
    out.append(('dup:loop_rows_equal', None, None, None, 'Block(name)', 0))
    out.append(('dup:chunk_values_equal', None, None, None, 'Block(name)', 0))
    return out


def gen_forced_lowlevel(cif, spec):
    cls, cway, lway, bway, nway, i = spec
    c = _NA_COMMENTS[i]
    name = _NA_NAME if cls.startswith('name_way') else 'forced'
    pairs = {'t.a': 'x', 't.b': sc.scalar(1.5, unit='angstrom')}
    vals = ['p', 'q', 'p']
    if cls == 'dup:loop_rows_equal':
        vals = ['same row', 'same row', 'same row']
    if cls == 'dup:chunk_values_equal':
        pairs = {'t.a': 'same', 't.b': 'same', 't.c': 'same'}
    cols = {'l.s': sc.array(dims=['r'], values=vals),
            'l.x': sc.array(dims=['r'], values=[1.0, 1.0, 1.0] if cls.startswith('dup') else [1.0, 2.5, 1.0],
                            unit='angstrom')}
    entries = [make_chunk(cif, cway or 'Chunk(dict,comment=)', pairs, c if cway else ''),
               make_loop(cif, lway or 'Loop(dict,comment=)', cols, c if lway else '')]
    blk = make_block(cif, name, nway, c if bway else '', bway or 'Block(comment=)', entries,
                     0 if cway in CHUNK_ADD_WAYS else 1)
    xitems = [XItem('pair', [t], [[model_of(v)]]) for t, v in pairs.items()]
    xitems.append(XItem('loop', list(cols), [[('str', v) for v in vals],
                                             [('f64', float(v)) for v in cols['l.x'].values]]))
    x = XDoc('lowlevel', 'save_cif:buffer', [XBlock(name, xitems, c if bway else '')], strict=True,
             sig=('lowlevel', 'forced', cls))
    return (lambda: cif.save_cif(io.StringIO(), blk)), x


# ======================================================================
# driver
# ======================================================================
N_SHARDS = 16
DOCS = {'quick': 2000, 'thorough': 100_000}


def plan(tier, seed):
    per = DOCS[tier] // N_SHARDS
    return [{'docs': per, 'of': N_SHARDS} for _ in range(N_SHARDS)]


def requirements(tier):
    # minimum number of *judged* observations; the quick tier produces 4x..20x these
    return {
        'events': {'token': 20000, 'document': int(0.9 * DOCS[tier]), 'comment': 2000, 'roles': 30,
                   'su_column': 80, 'value_su': 1500, 'document.save_cif': 1500,
                   'document.Block.write': 40, '_quotes_for_string_value': 20000,
                   '_encode_non_ascii': 20000, 'Chunk.write': 1000, 'Loop.write': 1000,
                   '_serialize_authors': 200, '_serialize_roles': 100, 'CIF.save': 300},
        'forced': ['str:' + n for n, _ in FORCED] + ['empty_block_name', 'file_comment_non_ascii',
                                                      'loop_50_rows', 'loop_6_columns']
        + [n for n, _ in forced_programs()] + [s[0] for s in forced_lowlevel()],
    }


def run(shard, ctx):
    bad = cif11.self_test()
    if bad:
        ctx.inconclusive_because('CIF 1.1 oracle self-test failed: ' + '; '.join(bad[:5]))
        return
    from scippneutron import metadata as md
    from scippneutron.io import cif

    seed, index = int(shard['seed']), int(shard['index'])
    rng = np.random.Generator(np.random.PCG64([seed, index, 14]))
    mon = Monitors(ctx)
    tr = Tracer()

    def counter(name):
        return lambda ev: ctx.event(name)

    tr.watch(cif._format_value, '_format_value', on_return=mon.on_format_value)
    tr.watch(cif._write_comment, '_write_comment', on_start=mon.on_comment_start,
             on_return=mon.on_comment_return)
    tr.watch(cif.save_cif, 'save_cif', on_start=mon.on_save_start, on_return=mon.on_save_return)
    tr.watch(cif.CIF.save, 'CIF.save',
             on_return=lambda ev: (ctx.event('CIF.save'), mon.on_cifsave_return(ev)))
    tr.watch(cif.Block.write, 'Block.write', on_return=mon.on_blockwrite_return)
    for fn, nm in ((cif._quotes_for_string_value, '_quotes_for_string_value'),
                   (cif._encode_non_ascii, '_encode_non_ascii'), (cif.Chunk.write, 'Chunk.write'),
                   (cif.Loop.write, 'Loop.write'), (cif._serialize_authors, '_serialize_authors'),
                   (cif._serialize_roles, '_serialize_roles')):
        tr.watch(fn, nm, on_return=counter(nm))

    tmpdir = tempfile.mkdtemp(prefix='rv-c14-')
    n_samples = 0

    def execute(act, x):
        nonlocal n_samples
        before = ctx.n_violations
        mon.begin(x)
        try:
            act()
        except Exception as e:  # noqa: BLE001  judged by the document monitor through PY_UNWIND
            if mon.judged_docs == 0:
                ctx.violation('doc_raised_outside_monitors',
                              f'{x.via}: raised {type(e).__name__}: {e}', x.describe(),
                              mechanism='raised')
        finally:
            mon.end()
        ctx.case(x.sig, trivial=x.trivial)
        if n_samples < 2 and x.kind != 'atom' and 'forced' not in x.sig and ctx.n_violations == before:
            ctx.sample(x.describe())
            n_samples += 1

    try:
        with tr:
            # (a) atoms: every forced class, distributed over the shards; three placements
            variants = ('chunk', 'loop_first', 'loop_other')
            for i, (name, s) in enumerate(FORCED):
                for j, variant in enumerate(variants):
                    if (i * 3 + j + seed) % shard.get('of', N_SHARDS) != index % shard.get('of', N_SHARDS):
                        continue
                    execute(*gen_atom(rng, cif, name, s, variant))
            # forced structural classes
            if index % 4 == 0:
                f = io.StringIO()
                x = XDoc('builder', 'CIF.save:buffer', [XBlock('', [
                    XItem('loop', ['audit_conform.dict_name', 'audit_conform.dict_version',
                                   'audit_conform.dict_location'], [[('str', 'coreCIF')], [], []],
                          group='auto', special='schema'),
                    XItem('pair', ['audit.creation_date'], [[('now',)]], group='auto'),
                    XItem('pair', ['audit.creation_method'], [[('nonblank',)]], group='auto')])],
                    strict=False, sig=('builder', 'default_name'), builder={'contact': [], 'regular': []})
                execute(lambda: cif.CIF().save(f), x)
                ctx.hit('empty_block_name')
            if index % 4 == 1:
                top = ['caf\xe9', 'line one\n日本', '\xb5m scale'][(index // 4) % 3]
                x = XDoc('lowlevel', 'save_cif:buffer', [XBlock('b', [XItem('pair', ['k.v'], [[('str', 'x')]])])],
                         strict=True, top_comment=top, sig=('lowlevel', 'file_comment_non_ascii'))
                execute(lambda: cif.save_cif(io.StringIO(), cif.Block('b', [{'k.v': 'x'}]), comment=top), x)
                ctx.hit('file_comment_non_ascii')
            if index % 4 == 2:
                cols = {f'big.c{c}': sc.array(dims=['r'], values=[benign_string(rng) for _ in range(50)])
                        for c in range(6)}
                x = XDoc('lowlevel', 'save_cif:buffer', [XBlock('big', [XItem(
                    'loop', list(cols), [[('str', v) for v in col.values] for col in cols.values()])])],
                    strict=True, sig=('lowlevel', 'loop50x6'))
                execute(lambda: cif.save_cif(io.StringIO(), cif.Block('big', [cif.Loop(cols)])), x)
                ctx.hit('loop_50_rows')
                ctx.hit('loop_6_columns')
            # every public way of supplying comments / names, exact duplicates among repeated
            # items, intensity units that render with non-ASCII characters: one document each
            of = shard.get('of', N_SHARDS)
            for i, (fname, prog) in enumerate(forced_programs()):
                if (i + seed) % of == index % of:
                    execute(*build_program(cif, md, dict(prog, sig=('forced', fname)), tmpdir, f'f{i}'))
                    ctx.hit(fname)
            for i, spec in enumerate(forced_lowlevel()):
                if (i + 7 + seed) % of == index % of:
                    execute(*gen_forced_lowlevel(cif, spec))
                    ctx.hit(spec[0])
            # (b) + (c) random documents
            for k in range(int(shard['docs'])):
                try:
                    if rng.random() < 0.55:
                        act, x = gen_lowlevel(rng, cif, tmpdir, k)
                    else:
                        act, x = gen_builder(rng, cif, md, tmpdir, k)
                except Exception as e:  # noqa: BLE001
                    ctx.violation('builder_raised', f'building a document raised {type(e).__name__}: {e}',
                                  {'doc_index': k}, mechanism='builder_raised')
                    continue
                execute(act, x)
                if k % 50 == 49:
                    for fn in os.listdir(tmpdir):
                        os.unlink(os.path.join(tmpdir, fn))
    finally:
        shutil.rmtree(tmpdir, ignore_errors=True)
    ctx.extra['oracle_selftest'] = {'accept_cases': len(cif11._ACCEPT), 'reject_cases': len(cif11._REJECT),
                                    'failures': 0}
    ctx.extra['forced_string_classes'] = len(FORCED)
